"""Confirm candidate property-breaking changes and store the confirmed ones under /verif/seeded/<id>/<k>/.

For every candidate directory <src>/<k>/ (patch.diff, demo.py, meta.json):
  1. scratch worktree of /repo HEAD outside /repo and /verif; the patch must apply
  2. the repository's test suite passes on the changed tree
  3. the demonstration fails on the changed tree (exit 1) and passes on the unchanged tree (exit 0)
  4. (sequentially, on /repo itself: git apply ... run the checks ... git checkout -- .) which registered checks report
     a violation
The worktree is removed afterwards.  Usage: python tools/curate_seeded.py <candidates root> [ids...]"""
from __future__ import annotations

import json
import os
import shutil
import subprocess
import sys
from concurrent.futures import ThreadPoolExecutor

REPO = '/repo'
VERIF = os.path.dirname(os.path.dirname(os.path.abspath(__file__)))
PY = '/venv/bin/python'
PREFIX = os.environ.get('SEED_PREFIX', 'mut_')      # candidate directories are <root>/<PREFIX><id>/<k>
OFFSET = int(os.environ.get('SEED_OFFSET', '0'))     # stored as seeded/<id>/<k + OFFSET>


def sh(cmd, cwd=None, env=None, timeout=1800):
    p = subprocess.run(cmd, shell=True, cwd=cwd, env=env, capture_output=True, text=True, timeout=timeout)
    return p.returncode, (p.stdout + p.stderr)


def confirm(root, pid, k):
    src = os.path.join(root, f'{PREFIX}{pid}', str(k))
    wt = f'/tmp/sw_{PREFIX}{pid}_{k}'
    res = {'id': pid, 'k': k, 'src': src}
    sh(f'git -C {REPO} worktree remove --force {wt}')
    shutil.rmtree(wt, ignore_errors=True)
    rc, out = sh(f'git -C {REPO} worktree add --detach {wt} HEAD')
    if rc:
        res['error'] = 'worktree: ' + out[-300:]
        return res
    try:
        rc, out = sh(f'git apply --check {src}/patch.diff', cwd=wt)
        res['applies'] = rc == 0
        if rc:
            res['apply_error'] = out[-300:]
            return res
        sh(f'git apply {src}/patch.diff', cwd=wt)
        env = dict(os.environ, PYTHONPATH=wt)
        rc, out = sh(f'{PY} -m pytest -q -p no:cacheprovider --timeout=900 -x', cwd=wt, env=env)
        res['tests_pass'] = rc == 0
        res['tests_tail'] = out.strip().split('\n')[-1][-200:]
        rc, out = sh(f'{PY} {src}/demo.py', cwd=src, env=env)
        res['demo_changed_rc'] = rc
        res['demo_changed_tail'] = out.strip()[-400:]
        rc, out = sh(f'{PY} {src}/demo.py', cwd=src, env=dict(os.environ, PYTHONPATH=REPO))
        res['demo_clean_rc'] = rc
    finally:
        sh(f'git -C {REPO} worktree remove --force {wt}')
        shutil.rmtree(wt, ignore_errors=True)
    return res


def run_checks(pid, k, src, checks):
    """On /repo itself, one at a time."""
    rc, out = sh(f'git -C {REPO} status --porcelain')
    if out.strip():
        raise SystemExit(f'/repo is not clean: {out}')
    sh(f'git -C {REPO} apply {src}/patch.diff')
    caught = {}
    try:
        for c in checks:
            rc, out = sh(f'./check {c} quick', cwd=VERIF, timeout=3000)
            lines = [l for l in out.split('\n') if l.startswith('VIOLATION')]
            caught[c] = {'rc': rc, 'violations': len(lines),
                         'first': (out.split('\n')[out.split('\n').index(lines[0]) + 1][:300] if lines else '')}
    finally:
        sh(f'git -C {REPO} checkout -- .')
        sh(f'git -C {VERIF} checkout -- evidence')
    return caught


def main():
    root = sys.argv[1]
    ids = sys.argv[2:] or sorted({d[len(PREFIX):] for d in os.listdir(root) if d.startswith(PREFIX + 'C')})
    jobs = [(pid, int(k)) for pid in ids for k in sorted(os.listdir(os.path.join(root, f'{PREFIX}{pid}')), key=lambda x: (len(x), x))
            if k.isdigit() and os.path.isdir(os.path.join(root, f'{PREFIX}{pid}', k))]
    with ThreadPoolExecutor(8) as ex:
        results = list(ex.map(lambda j: confirm(root, *j), jobs))
    for r in results:
        pid, k = r['id'], r['k']
        ok = r.get('applies') and r.get('tests_pass') and r.get('demo_changed_rc') == 1 and r.get('demo_clean_rc') == 0
        r['confirmed'] = bool(ok)
        print(pid, k, 'confirmed' if ok else f'NOT confirmed: {json.dumps({x: r[x] for x in r if x not in ("src",)})[:400]}',
              flush=True)
        if not ok:
            continue
        meta = json.load(open(os.path.join(r['src'], 'meta.json')))
        related = meta.get('also_checks', [])
        checks = [pid] + [c for c in related if c != pid]
        r['checks'] = run_checks(pid, k, r['src'], checks)
        print('   checks:', {c: (v['rc'], v['violations']) for c, v in r['checks'].items()}, flush=True)
        dst = os.path.join(VERIF, 'seeded', pid, str(k + OFFSET))
        os.makedirs(dst, exist_ok=True)
        for f in ('patch.diff', 'demo.py'):
            shutil.copy(os.path.join(r['src'], f), os.path.join(dst, f))
        meta['confirmed_by_builder'] = {
            'base_commit': sh(f'git -C {REPO} rev-parse --short HEAD')[1].strip(),
            'patch_applies': True, 'test_suite': r['tests_tail'],
            'demo_on_changed_tree': f"exit {r['demo_changed_rc']}: {r['demo_changed_tail'][-200:]}",
            'demo_on_unchanged_tree': f"exit {r['demo_clean_rc']}",
            'checks_run_on_/repo_with_the_patch_applied': r['checks'],
            'caught_by': [c for c, v in r['checks'].items() if v['rc'] == 1 and v['violations']],
        }
        json.dump(meta, open(os.path.join(dst, 'meta.json'), 'w'), indent=1)
    json.dump(results, open(f'/var/tmp/w/curate_results_{PREFIX}.json', 'w'), indent=1, default=str)


if __name__ == '__main__':
    main()
