#!/bin/sh
# run every registered check of a tier in parallel; print one line per property
tier=${1:-quick}
cd "$(dirname "$0")/.."
out=$(mktemp -d /var/tmp/wnverif_all.XXXXXX)
for c in C01 C02 C03 C04 C05 C06 C07 C08 C09 C10 C11 C12 C13 C14 C15 C16 C17 C18 C19 C20; do
  ( ./check $c $tier > $out/$c.txt 2>&1; echo "$c rc=$? $(tail -1 $out/$c.txt)" ) &
done
wait
grep -h "^VIOLATION\|^ENGINE\|^UNDECIDED" $out/*.txt | head -20
rm -rf $out
