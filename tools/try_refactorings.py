"""False-alarm test: apply each behaviour-preserving refactoring (patch.diff under <root>/ref_R*/<k>/) to /repo, run all
registered quick checks, revert.  Any exit code other than 0 is reported (1 = false alarm, 2/3 = the engine cannot
follow the refactored code)."""
import json
import os
import subprocess
import sys

REPO = '/repo'
VERIF = os.path.dirname(os.path.dirname(os.path.abspath(__file__)))
CHECKS = [f'C{n:02d}' for n in range(1, 21)]


def sh(cmd, cwd=None, timeout=3000):
    p = subprocess.run(cmd, shell=True, cwd=cwd, capture_output=True, text=True, timeout=timeout)
    return p.returncode, p.stdout + p.stderr


def main():
    root = sys.argv[1]
    only = sys.argv[2:]
    results = {}
    for d in sorted(os.listdir(root)):
        tag = d[4:] if d.startswith('ref_R') else d
        if not (d.startswith('ref_R') or (d.startswith('R') and d[1:].isdigit())) or (only and tag not in only):
            continue
        for k in sorted(os.listdir(os.path.join(root, d))):
            patch = os.path.join(root, d, k, 'patch.diff')
            if not os.path.exists(patch):
                continue
            rc, out = sh(f'git -C {REPO} status --porcelain')
            if out.strip():
                raise SystemExit('/repo not clean')
            rc, out = sh(f'git -C {REPO} apply {patch}')
            if rc:
                results[f'{d}/{k}'] = {'apply': out[-200:]}
                print(d, k, 'does not apply', flush=True)
                continue
            try:
                procs = {c: subprocess.Popen(f'./check {c} quick', shell=True, cwd=VERIF, stdout=subprocess.PIPE,
                                             stderr=subprocess.STDOUT, text=True) for c in CHECKS}
                bad = {}
                for c, p in procs.items():
                    o, _ = p.communicate()
                    if p.returncode != 0:
                        lines = [l for l in o.split('\n') if l.startswith(('VIOLATION', 'ENGINE', 'UNDECIDED', '  obligation'))]
                        bad[c] = {'rc': p.returncode, 'lines': lines[:6]}
                results[f'{d}/{k}'] = bad
                print(d, k, 'OK' if not bad else json.dumps(bad)[:700], flush=True)
            finally:
                sh(f'git -C {REPO} checkout -- .')
                sh(f'git -C {VERIF} checkout -- evidence')
    json.dump(results, open(os.environ.get('REFACTOR_RESULTS', '/var/tmp/w/refactor_results.json'), 'w'), indent=1)


if __name__ == '__main__':
    main()
