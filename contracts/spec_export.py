"""Sidecar contracts of wn/_export.py (C03): what each _export_* function must return, stated over the results of the
query functions of wn._queries (whose own contracts are C01/C04/C09-C12) and over the contracts of the other
_export_* functions.  Written from the property statement: every entry, form, tag, pronunciation, sense, synset, ILI
(also proposed), definition with language and source sense, example, count, relation with its metadata, sense-frame
link, dependency and metadata, in each LMF version able to express it - each piece of metadata looked up by the
rowid OF THE ELEMENT IT BELONGS TO in that element's table.

These functions are executed by the same symbolic interpreter as the real code, against the same stubs.
"""
import wn
from wn._queries import (
    find_senses,
    find_entries, find_synsets, find_syntactic_behaviours, find_proposed_ilis, get_entry_senses,
    get_sense_relations, get_sense_synset_relations, get_synset_relations, get_synset_members, get_examples,
    get_definitions, get_metadata, get_lexicalized, get_adjposition, get_form_pronunciations, get_form_tags,
    get_sense_counts, get_lexfile, get_lexicon_dependencies,
)
from wn._export import (      # the contracts of the callees are the (stubbed) callees themselves
    _export_tags, _export_pronunciations, _export_senses, _export_metadata, _export_sense_relations,
    _export_examples, _export_counts, _export_definitions, _export_synset_relations, _export_ili_definition,
    _export_syntactic_behaviours_1_0, _export_syntactic_behaviours_1_1, _export_lexical_entries, _export_synsets,
    _export_requires,
)


def spec_export_metadata(rowid, table):
    return get_metadata(rowid, table)


def spec_export_requires(lexid):
    return [{'id': id, 'version': version, 'url': url}
            for id, version, url, _ in get_lexicon_dependencies(lexid)]


def spec_export_tags(rowid):
    return [{'text': text, 'category': category} for text, category in get_form_tags(rowid)]


def spec_export_pronunciations(rowid):
    return [{'text': text, 'variety': variety, 'notation': notation, 'phonemic': phonemic, 'audio': audio}
            for text, variety, notation, phonemic, audio in get_form_pronunciations(rowid)]


def spec_export_counts(rowid, lexids):
    # the metadata of a count is stored with the COUNT row
    return [{'value': value, 'meta': _export_metadata(count_rowid, 'counts')}
            for value, count_rowid in get_sense_counts(rowid, lexids)]


def spec_export_examples(rowid, table, lexids):
    # table is 'senses' or 'synsets'; the examples live in sense_examples / synset_examples
    ex_table = 'sense_examples' if table == 'senses' else 'synset_examples'
    return [{'text': text, 'language': language, 'meta': _export_metadata(example_rowid, ex_table)}
            for text, language, example_rowid in get_examples(rowid, table, lexids)]


def spec_export_definitions(rowid, lexids):
    return [{'text': text, 'language': language, 'sourceSense': sense_id,
             'meta': _export_metadata(definition_rowid, 'definitions')}
            for text, language, sense_id, definition_rowid in get_definitions(rowid, lexids)]


def spec_export_sense_relations(sense_rowid, lexids):
    out = [{'target': row[3], 'relType': row[0], 'meta': row[2]}
           for row in get_sense_relations(sense_rowid, '*', lexids)]
    out.extend({'target': row[4], 'relType': row[0], 'meta': row[2]}
               for row in get_sense_synset_relations(sense_rowid, '*', lexids))
    return out


def spec_export_synset_relations(synset_rowid, lexids):
    return [{'target': row[4], 'relType': row[0], 'meta': row[2]}
            for row in get_synset_relations((synset_rowid,), '*', lexids)]


def spec_export_syntactic_behaviours_1_1(lexids):
    return [{'id': id or '', 'subcategorizationFrame': frame}
            for id, frame, _ in find_syntactic_behaviours(lexicon_rowids=lexids)]


def spec_export_senses(entry_rowid, lexids, sbmap, version):
    senses = []
    for id, _, synset, _, rowid in get_entry_senses(entry_rowid, lexids):
        sense = {
            'id': id,
            'synset': synset,
            'relations': _export_sense_relations(rowid, lexids),
            'examples': _export_examples(rowid, 'senses', lexids),
            'counts': _export_counts(rowid, lexids),
            'lexicalized': get_lexicalized(rowid, 'senses'),
            'adjposition': get_adjposition(rowid) or '',
            'meta': _export_metadata(rowid, 'senses'),
        }
        # sense-frame links: by frame id from LMF 1.1 on (entry-level frames in 1.0, see the entries)
        if version >= (1, 1) and id in sbmap:
            sense['subcat'] = sorted(sbid for sbid, _ in sbmap[id] if sbid)
        senses.append(sense)
    return senses


def spec_export_lexical_entries(lexids, sbmap, version):
    entries = []
    for id, pos, forms, _, rowid in find_entries(lexicon_rowids=lexids):
        lemma = forms[0]
        entry = {
            'id': id,
            'lemma': {
                'writtenForm': lemma[0],
                'partOfSpeech': pos,
                'script': lemma[2] or '',
                'tags': _export_tags(lemma[3]),
            },
            'forms': [],
            'senses': _export_senses(rowid, lexids, sbmap, version),
            'meta': _export_metadata(rowid, 'entries'),
        }
        if version >= (1, 1):
            entry['lemma']['pronunciations'] = _export_pronunciations(lemma[3])
        for form, fid, script, frowid in forms[1:]:
            f = {'id': fid or '', 'writtenForm': form, 'script': script or '', 'tags': _export_tags(frowid)}
            if version >= (1, 1):
                f['pronunciations'] = _export_pronunciations(frowid)
            entry['forms'].append(f)
        if version < (1, 1):
            entry['frames'] = _export_syntactic_behaviours_1_0(entry, sbmap)
        entries.append(entry)
    return entries


def spec_export_ili_definition(synset_rowid):
    _, _, defn, rowid = next(find_proposed_ilis(synset_rowid=synset_rowid), (None, None, None, None))
    ilidef = None
    if defn:
        meta = None
        if rowid is not None:
            meta = _export_metadata(rowid, 'proposed_ilis')
        ilidef = {'text': defn, 'meta': meta}
    return ilidef


def spec_export_synsets(lexids, version):
    synsets = []
    for id, pos, ili, _, rowid in find_synsets(lexicon_rowids=lexids):
        ilidef = _export_ili_definition(rowid)
        # a synset without ILI that has a row in proposed_ilis proposes a new ILI: ili="in"
        if not ili and next(find_proposed_ilis(synset_rowid=rowid), None):
            ili = 'in'
        ss = {
            'id': id,
            'ili': ili or '',
            'partOfSpeech': pos,
            'definitions': _export_definitions(rowid, lexids),
            'relations': _export_synset_relations(rowid, lexids),
            'examples': _export_examples(rowid, 'synsets', lexids),
            'lexicalized': get_lexicalized(rowid, 'synsets'),
            'lexfile': get_lexfile(rowid) or '',
            'meta': _export_metadata(rowid, 'synsets'),
        }
        if ilidef:
            ss['ili_definition'] = ilidef
        if version >= (1, 1):
            ss['members'] = [row[0] for row in get_synset_members(rowid, lexids)]
        synsets.append(ss)
    return synsets


def spec_export_lexicon(lexicon, version):
    lexids = (lexicon._id,)
    sbmap = {}
    for sbid, frame, sids in find_syntactic_behaviours(lexicon_rowids=lexids):
        for sid in sids:
            sbmap.setdefault(sid, []).append((sbid, frame))
    lex = {
        'id': lexicon.id,
        'label': lexicon.label,
        'language': lexicon.language,
        'email': lexicon.email,
        'license': lexicon.license,
        'version': lexicon.version,
        'url': lexicon.url or '',
        'citation': lexicon.citation or '',
        'entries': _export_lexical_entries(lexids, sbmap, version),
        'synsets': _export_synsets(lexids, version),
        'meta': _export_metadata(lexicon._id, 'lexicons'),
    }
    if version >= (1, 1):
        lex['logo'] = lexicon.logo or ''
        lex['requires'] = _export_requires(lexicon._id)
        lex['frames'] = _export_syntactic_behaviours_1_1(lexids)
    return lex


def spec_precheck(lexicons):
    # documented precondition of a joint export: the identifiers of lexicons, entries, senses and synsets are
    # unique across the exported lexicons (syntactic behaviours may lack ids and are not part of it)
    all_ids = set()
    for lex in lexicons:
        lexids = (lex._id,)
        idset = {lex.id}
        idset.update(row[0] for row in find_entries(lexicon_rowids=lexids))
        idset.update(row[0] for row in find_senses(lexicon_rowids=lexids))
        idset.update(row[0] for row in find_synsets(lexicon_rowids=lexids))
        if all_ids.intersection(idset):
            raise wn.Error('cannot export: non-unique identifiers in lexicons')
        all_ids |= idset
