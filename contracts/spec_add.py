"""Sidecar specification of the database image of a lexicon (what wn._add must store), written from the
meaning of the columns in wn/schema.sql and from properties C01/C05 - not from the bodies of the _insert_*
functions.  Each spec function has the signature of the real function and returns the expected statements:

    ('insert', table, conflict, [row(col=value, ...) ...])          rows in the order they must be inserted
    ('update', table, {col: value}, lambda r: condition on row r)

ROWID(table, col=value, ...) is the rowid of the row of `table` with those column values (how references
are resolved is part of the contract: which lexicon an id is looked up in - C05 "reference locality").
`row`, `ROWID`, `external`, `local` are provided by contracts/addchecks.py.
"""
from wn._add import DEFAULT_MEMBER_RANK        # a constant of the implementation: the value itself is free
from wn._util import normalize_form


def external(x):
    return x.get('external', False) is True


def local(xs):
    return [x for x in xs if not external(x)]


def owner(lexidmap, ident, lexid):
    # an identifier declared External... belongs to the extended (base) lexicon, everything else to this one
    return lexidmap.get(ident, lexid)


def spec_insert_entries(entries, lexid, cur, progress):
    return [('insert', 'entries', None,
             [row(id=e['id'], lexicon_rowid=lexid, pos=e['lemma']['partOfSpeech'], metadata=e['meta'])
              for e in local(entries)])]


def norm_or_null(form):
    n = normalize_form(form)
    return n if n != form else None          # stored only when it differs (C09)


def spec_insert_forms(entries, lexid, lexidmap, cur, progress):
    rows = []
    for e in entries:
        entry = ROWID('entries', id=e['id'], lexicon_rowid=owner(lexidmap, e['id'], lexid))
        if not external(e):
            lemma = e['lemma']              # the lemma is the form with the lowest rank (0) and no id
            rows.append(row(id=None, lexicon_rowid=lexid, entry_rowid=entry, form=lemma['writtenForm'],
                            normalized_form=norm_or_null(lemma['writtenForm']), script=lemma.get('script'),
                            rank=0))
        for i, f in enumerate(e.get('forms', []), 1):     # further forms in document order
            if external(f):
                continue
            rows.append(row(id=f.get('id'), lexicon_rowid=lexid, entry_rowid=entry, form=f['writtenForm'],
                            normalized_form=norm_or_null(f['writtenForm']), script=f.get('script'), rank=i))
    return [('insert', 'forms', None, rows)]


def FORM(eid, elex, fid, rank):
    return ROWID('forms', _join=('entries', 'entry_rowid'), **{'entries.id': eid, 'entries.lexicon_rowid': elex,
                                                              'id|rank': (fid, rank)})


def spec_insert_pronunciations(entries, lexid, lexidmap, cur, progress):
    rows = []
    for e in entries:
        elex = owner(lexidmap, e['id'], lexid)
        if e.get('lemma'):
            for p in e['lemma'].get('pronunciations', []):
                rows.append(row(form_rowid=FORM(e['id'], elex, None, 0), value=p['text'],
                                variety=p.get('variety'), notation=p.get('notation'),
                                phonemic=p.get('phonemic', True), audio=p.get('audio')))
        for i, f in enumerate(e.get('forms', []), 1):
            rank = -1 if external(f) else i        # external forms are found by id only
            for p in f.get('pronunciations', []):
                rows.append(row(form_rowid=FORM(e['id'], elex, f.get('id'), rank), value=p['text'],
                                variety=p.get('variety'), notation=p.get('notation'),
                                phonemic=p.get('phonemic', True), audio=p.get('audio')))
    return [('insert', 'pronunciations', None, rows)]


def spec_insert_tags(entries, lexid, lexidmap, cur, progress):
    rows = []
    for e in entries:
        elex = owner(lexidmap, e['id'], lexid)
        if e.get('lemma'):
            for t in e['lemma'].get('tags', []):
                rows.append(row(form_rowid=FORM(e['id'], elex, None, 0), tag=t['text'], category=t['category']))
        for i, f in enumerate(e.get('forms', []), 1):
            rank = -1 if external(f) else i
            for t in f.get('tags', []):
                rows.append(row(form_rowid=FORM(e['id'], elex, f.get('id'), rank), tag=t['text'],
                                category=t['category']))
    return [('insert', 'tags', None, rows)]


def spec_insert_senses(entries, synsets, lexid, lexidmap, cur, progress):
    # position of a sense in the `members` of its (local) synset, unlisted ones after all listed ones
    member_rank = {s: i for ss in local(synsets) for i, s in enumerate(ss.get('members', []))}
    return [('insert', 'senses', None,
             [row(id=s['id'], lexicon_rowid=lexid,
                  entry_rowid=ROWID('entries', id=e['id'], lexicon_rowid=owner(lexidmap, e['id'], lexid)),
                  entry_rank=i,                                      # index among the entry's own senses
                  synset_rowid=ROWID('synsets', id=s['synset'], lexicon_rowid=owner(lexidmap, s['synset'], lexid)),
                  synset_rank=member_rank.get(s['id'], DEFAULT_MEMBER_RANK),
                  lexicalized=s.get('lexicalized', True), metadata=s['meta'])
              for e in entries
              for i, s in enumerate(local(e.get('senses', [])))])]


def spec_insert_adjpositions(entries, lexid, lexidmap, cur, progress):
    return [('insert', 'adjpositions', None,
             [row(sense_rowid=ROWID('senses', id=s['id'], lexicon_rowid=owner(lexidmap, s['id'], lexid)),
                  adjposition=s['adjposition'])
              for e in entries for s in local(e.get('senses', [])) if s.get('adjposition')])]


def spec_insert_counts(entries, lexid, lexidmap, cur, progress):
    # counts of local senses and counts an extension attaches to external senses
    return [('insert', 'counts', None,
             [row(lexicon_rowid=lexid,
                  sense_rowid=ROWID('senses', id=s['id'], lexicon_rowid=owner(lexidmap, s['id'], lexid)),
                  count=c['value'], metadata=c['meta'])
              for e in entries for s in e.get('senses', []) for c in s.get('counts', [])])]


def spec_insert_synsets(synsets, lexid, cur, progress):
    def has_ili(ss):
        return ss['ili'] and ss['ili'] != 'in'

    def ilidef(ss, key):
        d = ss.get('ili_definition')
        return d[key] if d else None
    mine = local(synsets)
    return [
        # an ILI that is referenced but not yet known is created as 'presupposed'; a known one is left alone
        ('insert', 'ilis', 'IGNORE',
         [row(id=ss['ili'], status_rowid=ROWID('ili_statuses', status='presupposed'),
              definition=ilidef(ss, 'text'), metadata=ilidef(ss, 'meta')) for ss in mine if has_ili(ss)]),
        ('insert', 'synsets', None,
         [row(id=ss['id'], lexicon_rowid=lexid,
              ili_rowid=ROWID('ilis', id=ss['ili'] if has_ili(ss) else None),
              pos=ss.get('partOfSpeech'), lexicalized=ss.get('lexicalized', True),
              lexfile_rowid=ROWID('lexfiles', name=ss.get('lexfile')), metadata=ss['meta']) for ss in mine]),
        ('insert', 'proposed_ilis', None,
         [row(synset_rowid=ROWID('synsets', id=ss['id'], lexicon_rowid=lexid),
              definition=ilidef(ss, 'text'), metadata=ilidef(ss, 'meta')) for ss in mine if ss['ili'] == 'in']),
    ]


def spec_insert_synset_definitions(synsets, lexid, lexidmap, cur, progress):
    return [('insert', 'definitions', None,
             [row(lexicon_rowid=lexid,
                  synset_rowid=ROWID('synsets', id=ss['id'], lexicon_rowid=owner(lexidmap, ss['id'], lexid)),
                  definition=d['text'], language=d.get('language'),
                  sense_rowid=ROWID('senses', id=d.get('sourceSense'),
                                    lexicon_rowid=owner(lexidmap, d.get('sourceSense', ''), lexid)),
                  metadata=d['meta'])
              for ss in synsets for d in ss.get('definitions', [])])]


def spec_insert_synset_relations(synsets, lexid, lexidmap, cur, progress):
    return [('insert', 'synset_relations', None,
             [row(lexicon_rowid=lexid,
                  source_rowid=ROWID('synsets', id=ss['id'], lexicon_rowid=owner(lexidmap, ss['id'], lexid)),
                  target_rowid=ROWID('synsets', id=r['target'], lexicon_rowid=owner(lexidmap, r['target'], lexid)),
                  type_rowid=ROWID('relation_types', type=r['relType']), metadata=r['meta'])
              for ss in synsets for r in ss.get('relations', [])])]


def spec_insert_sense_relations(lexicon, lexid, lexidmap, cur, progress):
    # a relation of a sense goes to sense_relations when its target is a sense id of the lexicon, to
    # sense_synset_relations when it is a synset id; source and target are resolved in the lexicon that owns them
    entries = lexicon.get('entries', [])
    sense_ids = {s['id'] for e in entries for s in e.get('senses', [])}
    synset_ids = {ss['id'] for ss in lexicon.get('synsets', [])}
    return [
        ('insert', 'sense_relations', None,
         [row(lexicon_rowid=lexid,
              source_rowid=ROWID('senses', id=s['id'], lexicon_rowid=owner(lexidmap, s['id'], lexid)),
              target_rowid=ROWID('senses', id=r['target'], lexicon_rowid=owner(lexidmap, r['target'], lexid)),
              type_rowid=ROWID('relation_types', type=r['relType']), metadata=r['meta'])
          for e in entries for s in e.get('senses', []) for r in s.get('relations', [])
          if r['target'] in sense_ids]),
        ('insert', 'sense_synset_relations', None,
         [row(lexicon_rowid=lexid,
              source_rowid=ROWID('senses', id=s['id'], lexicon_rowid=owner(lexidmap, s['id'], lexid)),
              target_rowid=ROWID('synsets', id=r['target'], lexicon_rowid=owner(lexidmap, r['target'], lexid)),
              type_rowid=ROWID('relation_types', type=r['relType']), metadata=r['meta'])
          for e in entries for s in e.get('senses', []) for r in s.get('relations', [])
          if r['target'] not in sense_ids and r['target'] in synset_ids]),
    ]


def spec_insert_examples(objs, lexid, lexidmap, table, cur, progress):
    parent = 'senses' if table == 'sense_examples' else 'synsets'
    return [('insert', table, None,
             [row(**{'lexicon_rowid': lexid,
                     parent[:-1] + '_rowid': ROWID(parent, id=o['id'], lexicon_rowid=owner(lexidmap, o['id'], lexid)),
                     'example': x['text'], 'language': x.get('language'), 'metadata': x['meta']})
              for o in objs for x in o.get('examples', [])])]


def spec_insert_syntactic_behaviours(synbhrs, lexid, lexidmap, cur, progress):
    return [
        ('insert', 'syntactic_behaviours', None,
         [row(id=sb.get('id') or None, lexicon_rowid=lexid, frame=sb['subcategorizationFrame']) for sb in synbhrs]),
        # one link per (frame, sense); the frame is looked up inside THIS lexicon
        ('insert', 'syntactic_behaviour_senses', None,
         [row(syntactic_behaviour_rowid=ROWID('syntactic_behaviours', lexicon_rowid=lexid,
                                              frame=sb['subcategorizationFrame']),
              sense_rowid=ROWID('senses', id=sid, lexicon_rowid=owner(lexidmap, sid, lexid)))
          for sb in synbhrs for sid in sb.get('senses', [])]),
    ]


def spec_update_lookup_tables(lexicon, cur):
    reltypes = set(r['relType'] for ss in lexicon.get('synsets', []) for r in ss.get('relations', []))
    reltypes.update(r['relType'] for e in lexicon.get('entries', []) for s in e.get('senses', [])
                    for r in s.get('relations', []))
    lexfiles = {ss.get('lexfile', '') for ss in local(lexicon.get('synsets', [])) if ss.get('lexfile')}
    return [('insert', 'relation_types', 'IGNORE', [row(type=t) for t in sorted(reltypes)]),
            ('insert', 'lexfiles', 'IGNORE', [row(name=n) for n in sorted(lexfiles)])]


def spec_insert_lexicon(lexicon, cur, progress):
    lexid = NEWROWID()
    stmts = [
        ('insert', 'lexicons', None,
         [row(id=lexicon['id'], label=lexicon['label'], language=lexicon['language'], email=lexicon['email'],
              license=lexicon['license'], version=lexicon['version'], url=lexicon.get('url'),
              citation=lexicon.get('citation'), logo=lexicon.get('logo'), metadata=lexicon.get('meta'),
              modified=False)]),
        # lexicons that were installed earlier and require exactly this (id, version) get linked to it
        ('update', 'lexicon_dependencies', {'provider_rowid': lexid},
         lambda r: r.provider_id == lexicon['id'] and r.provider_version == lexicon['version']),
        ('insert', 'lexicon_dependencies', None,
         [row(dependent_rowid=lexid, provider_id=d['id'], provider_version=d['version'],
              provider_url=d.get('url'),
              provider_rowid=ROWID('lexicons', id=d['id'], version=d['version']))
          for d in lexicon.get('requires', [])]),
    ]
    ext = lexicon.get('extends')
    if ext:
        stmts.append(('insert', 'lexicon_extensions', None,
                      [row(extension_rowid=lexid, base_id=ext['id'], base_version=ext['version'],
                           base_url=ext.get('url'),
                           base_rowid=ROWID('lexicons', id=ext['id'], version=ext['version']))]))
    return stmts


def spec_insert_lexicon_returns(lexicon):
    """(rowid of the new lexicons row, rowid of the lexicon whose entities an extension refers to): for a lexicon
    extension the base is the installed lexicon with EXACTLY the id and version named by <Extends>."""
    lexid = NEWROWID()
    ext = lexicon.get('extends')
    extid = ROWID('lexicons', id=ext['id'], version=ext['version']) if ext else lexid
    return (lexid, extid)
