"""C08 - lexicon specifiers and language codes select exactly the documented lexicons.

Deductive (pyvc with z3 strings; sqlvc parser): wn._queries.find_lexicons executed symbolically for a specifier list
of one or two arbitrary whitespace-free tokens and an optional language:
   per token: the statement is  SELECT DISTINCT <lexicon columns> FROM lexicons WHERE id || ":" || version GLOB
   :specifier AND (:language ISNULL OR language = :language) [ORDER BY rowid DESC] LIMIT n   (AST compared);
   :specifier = token if it contains ':' else token + ':*';  n = 1 with ORDER BY rowid DESC exactly for a bare id
   (no ':' and no '*'), otherwise unlimited; :language = lang; a lexicon already yielded for an earlier token is not
   yielded again; wn.Error iff nothing was found and (lexicon != '*' or lang is given).
   wn.lexicons() maps that error to []; Wordnet.__init__ / remove use the same selection (C12, C05).
Bounded stand-in for the meaning of GLOB over 'id:version' (A-GLOB) and the end-to-end selection: real databases
with ids that are prefixes of each other, several versions added in both orders, versions with dots/plus/hyphen,
two languages; every specifier from a generated pool, singly and in pairs, with and without lang, compared with a
reference implementation of the documented table (docs/guides/lexicons.rst).
"""
from __future__ import annotations

import fnmatch
import itertools
import os
import tempfile

import z3

import wn
import wn._queries as Q
import wn._core as core
from vc.core import Obligation, Session, Unsupported
from vc.pyvc.values import SV, SObj, SList, mk, LITS, z_and, z_or, z_not, z_bool, Sym
from vc.pyvc.interp import explore, source_span, Event, SymMethod, MList, PyRaise
from vc.pyvc import builtins_sym as B
from vc.sqlvc import parse as P
from contracts.common import path_id
from contracts import coreflows

PROP = 'C08'


class RecCursor(SObj):
    """connect().cursor(): records execute(sql, params), returns abstract rows (functions of the statement index)."""

    def __init__(self):
        super().__init__(type('Cursor', (), {}), name='cursor')
        self.n = 0

    def vc_getattr(self, it, name, node):
        if name == 'cursor':
            return SymMethod(lambda i, a, k, nd: self, 'cursor')
        if name == 'execute':
            def execute(i, a, k, nd):
                self.n += 1
                ev = Event('execute', sql=a[0], params=a[1] if len(a) > 1 else None, node=nd,
                           pc_len=len(i.ctx.pc), extra={'k': self.n})
                i.ctx.effects.append(ev)
                kinds = ('int', 'str', 'str', 'str', 'str', 'str', 'str', 'str?', 'str?', 'str?')
                base = f'rows{self.n}'
                return SList(base, lambda path, idx: tuple(
                    coreflows.make_value(kd, f'{base}.{j}', tuple(idx)) for j, kd in enumerate(kinds)))
            return SymMethod(execute, 'execute')
        return NotImplemented


class Tokens(SV):
    """A specifier list given as its whitespace-free tokens (A-SPLIT: ' '.join(tokens).split() == tokens)."""
    __slots__ = ('tokens',)

    def __init__(self, tokens):
        z = tokens[0].z
        for t in tokens[1:]:
            z = z3.Concat(z, z3.StringVal(' '), t.z)
        super().__init__('zstr', z)
        self.tokens = tokens


def _split_hook():
    orig = B.METHODS[('str', 'split')]

    def split(it, s, args, kw, node):
        if isinstance(s, Tokens) and not args:
            return MList(list(s.tokens))
        return orig(it, s, args, kw, node)
    B.METHODS[('str', 'split')] = split


_split_hook()

EXPECTED_COLS = ['rowid', 'id', 'label', 'language', 'email', 'license', 'version', 'url', 'citation', 'logo']


def ast_ok(stmt) -> tuple:
    """(ok, why, limit, ordered_desc)"""
    if not isinstance(stmt, P.Select):
        return False, 'not a SELECT', None, None
    cols = [c[0].name if isinstance(c[0], P.Col) else None for c in stmt.cols]
    if cols != EXPECTED_COLS or not stmt.distinct:
        return False, f'columns {cols} / distinct={stmt.distinct}', None, None
    if len(stmt.frm) != 1 or stmt.frm[0].source != 'lexicons':
        return False, 'FROM is not lexicons', None, None
    w = stmt.where
    ok = isinstance(w, P.Bin) and w.op == 'AND'
    if ok:
        g, l = w.left, w.right
        ok = isinstance(g, P.Bin) and g.op == 'GLOB' and isinstance(g.right, P.Param) and g.right.name == 'specifier' \
            and _is_id_colon_version(g.left)
        ok = ok and isinstance(l, P.Bin) and l.op == 'OR' and isinstance(l.left, P.IsNull) and not l.left.negated \
            and isinstance(l.left.arg, P.Param) and l.left.arg.name == 'language' \
            and isinstance(l.right, P.Bin) and l.right.op == '=' and _col(l.right.left, 'language') \
            and isinstance(l.right.right, P.Param) and l.right.right.name == 'language'
    if not ok:
        return False, 'WHERE is not: id || ":" || version GLOB :specifier AND (:language ISNULL OR language = :language)', \
            None, None
    lim = stmt.limit.value if isinstance(stmt.limit, P.LitV) else None
    desc = len(stmt.order) == 1 and _col(stmt.order[0][0], 'rowid') and stmt.order[0][1] == 'DESC'
    if stmt.order and not desc:
        return False, 'unexpected ORDER BY', lim, desc
    return True, '', lim, bool(desc)


def _col(e, name):
    return isinstance(e, P.Col) and e.name == name


def _is_id_colon_version(e):
    return isinstance(e, P.Bin) and e.op == '||' and _col(e.right, 'version') and isinstance(e.left, P.Bin) \
        and e.left.op == '||' and _col(e.left.left, 'id') and isinstance(e.left.right, P.Col) \
        and e.left.right.name == '":'


def deductive_obligations() -> list:
    obs = []
    name = 'wn._queries.find_lexicons'
    fn = Q.find_lexicons
    for ntok in (1, 2):
        for lang_given in (False, True):
            toks = [mk('zstr', f'tok{i}') for i in range(ntok)]
            lexicon = Tokens(toks)
            lang = mk('zstr', 'lang') if lang_given else None
            cur = RecCursor()
            import wn._db
            pre = []
            for t in toks:
                pre += [z3.Length(t.z) > 0, z3.Not(z3.Contains(t.z, z3.StringVal(' ')))]
            outs = explore(lambda it: it.call(fn, [lexicon, lang], {}), contracts={wn._db.connect: lambda *a: cur},
                           pre=pre)
            for o in outs:
                pid = f'{ntok}tok,lang={lang_given}:{path_id(o)}'
                cm = dict(prop=PROP, kind='sql', functions=(name,), source=source_span(fn))
                evs = [e for e in o.effects if e.kind == 'execute']
                obs.append(Obligation(f'{name}:one-statement-per-specifier:{pid}', decided=len(evs) == ntok,
                                      detail=f'{len(evs)} statements for {ntok} specifiers', **cm))
                for e, t in zip(evs, toks):
                    try:
                        stmt, _ = P.parse_sql(B.to_native(e.sql) if not isinstance(e.sql, str) else e.sql)
                    except Exception as exc:
                        obs.append(Obligation(f'{name}:statement:{pid}', decided=False, detail=str(exc), **cm))
                        continue
                    ok, why, lim, desc = ast_ok(stmt)
                    obs.append(Obligation(f'{name}:statement:{pid}#{e.extra["k"]}', decided=ok, detail=why or
                                          'SELECT DISTINCT over lexicons with the GLOB and language conditions', **cm))
                    if not ok:
                        continue
                    params = e.params.d if hasattr(e.params, 'd') else {}
                    spec_v = params.get('specifier')
                    colon = z3.Contains(t.z, z3.StringVal(':'))
                    star = z3.Contains(t.z, z3.StringVal('*'))
                    want = z3.If(colon, t.z, z3.Concat(t.z, z3.StringVal(':*')))
                    asm = list(o.pc[:e.pc_len])
                    sz = spec_v.z if isinstance(spec_v, SV) else z3.StringVal(spec_v)
                    obs.append(Obligation(f'{name}:specifier-param:{pid}#{e.extra["k"]}', assumptions=asm,
                                          goal=sz == want, detail="':*' is appended to a specifier without ':'", **cm))
                    # a bare id: no ':' and no glob metacharacter ('fo?' and 'fo[o]' are glob patterns: "glob patterns
                    # by matching 'id:version'", so they select every match, not the most recent one)
                    glob = z3.Or(star, z3.Contains(t.z, z3.StringVal('?')), z3.Contains(t.z, z3.StringVal('[')))
                    bare = z3.And(z3.Not(colon), z3.Not(glob))
                    obs.append(Obligation(f'{name}:bare-id-one-most-recent:{pid}#{e.extra["k"]}', assumptions=asm,
                                          goal=z3.And(z3.BoolVal(lim == 1 and desc) == bare,
                                                      z3.BoolVal(lim in (1, -1)),
                                                      z3.Implies(z3.Not(bare), z3.BoolVal(lim == -1 and not desc))),
                                          detail='LIMIT 1 with ORDER BY rowid DESC exactly for a bare id (no ":" and '
                                                 'no glob character * ? [): exactly one lexicon, the most recently '
                                                 'added; otherwise no limit', **cm))
                    lp = params.get('language')
                    lang_ok = (lp is None and lang is None) or (lp is lang)
                    obs.append(Obligation(f'{name}:language-param:{pid}#{e.extra["k"]}', decided=bool(lang_ok),
                                          detail=':language is the lang argument', **cm))
                # error rule
                found_any = z_or(*[SList(f'rows{e.extra["k"]}', lambda p, i: None).length > 0 for e in evs])
                only_star = z3.And(z3.BoolVal(ntok == 1), toks[0].z == z3.StringVal('*'))
                must_raise = z3.And(z3.Not(found_any), z3.Or(z3.Not(only_star), z3.BoolVal(lang_given)))
                if o.kind == 'raise':
                    good = isinstance(o.exc.exc_type, type) and issubclass(o.exc.exc_type, wn.Error)
                    obs.append(Obligation(f'{name}:error-rule:{pid}', assumptions=list(o.pc),
                                          goal=must_raise if good else z3.BoolVal(False),
                                          detail='wn.Error only when nothing is found and a constraint was given', **cm))
                else:
                    obs.append(Obligation(f'{name}:error-rule:{pid}', assumptions=list(o.pc), goal=z3.Not(must_raise),
                                          detail='no error when something is found or the request was unconstrained',
                                          **cm))
                    # no duplicates across specifiers: a row of statement 2 is yielded only if its rowid was not
                    # yielded by statement 1
                    if ntok == 2 and isinstance(o.value, MList):
                        leaves = list(o.value.as_seq().leaves())
                        ok2 = len(leaves) == 2
                        obs.append(Obligation(f'{name}:union:{pid}', decided=ok2,
                                              detail='rows of every specifier are yielded', **cm))
                        if ok2:
                            b2, g2, e2, _ = leaves[1]
                            b1, g1, e1, _ = leaves[0]
                            dup = z3.Exists([b.var for b in b1], z_and(*[b.constraint for b in b1], z_bool(g1),
                                                                        e1[0].z == e2[0].z))
                            obs.append(Obligation(f'{name}:no-duplicates:{pid}',
                                                  assumptions=list(o.pc) + [b.constraint for b in b2] + [z_bool(g2)],
                                                  goal=z3.Not(dup),
                                                  detail='a lexicon selected by an earlier specifier is not returned '
                                                         'again', **cm))
    return obs


def lexicons_flow_obligations() -> list:
    """wn.lexicons(): [] when the selection raises wn.Error, else Wordnet(...).lexicons()."""
    obs = []
    name = 'wn._core.lexicons'
    for raises in (False, True):
        w = SObj(core.Wordnet, name='W')
        w.attrs['_lexicons'] = (1, 2)

        def wn_ctor(it, args, kwargs, node, raises=raises):
            if raises:
                raise PyRaise(wn.Error, ('no lexicon found',), node)
            return w
        outs = explore(lambda it: it.call(core.lexicons, [], {'lexicon': mk('str', 'lexicon'), 'lang': None}),
                       contracts={core.Wordnet: wn_ctor}, packages=('wn',))
        ok = len(outs) == 1 and outs[0].kind == 'return' and (
            (raises and isinstance(outs[0].value, MList) and not outs[0].value.nodes) or
            (not raises and isinstance(outs[0].value, MList) and outs[0].value.items() == [1, 2]))
        obs.append(Obligation(f'{name}:error-to-empty:{raises}', PROP, 'post', decided=bool(ok),
                              detail='wn.lexicons() returns [] when nothing matches, else the selected lexicons',
                              functions=(name,), source=source_span(core.lexicons)))
    return obs


# ---------------------------------------------------------------------------------------------
# bounded end-to-end

TEMPLATE = '''<?xml version="1.0" encoding="UTF-8"?>
<!DOCTYPE LexicalResource SYSTEM "http://globalwordnet.github.io/schemas/WN-LMF-1.0.dtd">
<LexicalResource xmlns:dc="http://purl.org/dc/elements/1.1/">
  <Lexicon id="{id}" label="L" language="{lang}" email="a@b" license="l" version="{ver}">
    <LexicalEntry id="{id}-{n}-w"><Lemma writtenForm="w" partOfSpeech="n"/></LexicalEntry>
  </Lexicon>
</LexicalResource>'''

INSTALL_ORDERS = [
    [('foo', '2.0-rc+1', 'en'), ('foo', '1.0', 'en'), ('foobar', '1.0', 'en'), ('bar', '1', 'de')],
    [('foo', '1.0', 'en'), ('foobar', '1.0', 'en'), ('bar', '1', 'de'), ('foo', '2.0-rc+1', 'en')],
]
POOL = ['*', 'foo', 'foo:*', 'foo:1.0', 'foo:2.0-rc+1', '*:1.0', 'foo*', 'foo*:*', 'fo?', 'bar', 'bar:1', 'baz', '*:9',
        'foobar', '*bar:*', 'foo:2*', 'fo[o]', '?oo']


def reference(installed, spec_list, lang):
    """The documented selection (installed = [(rowid order) (id, ver, lang)])."""
    out = []
    for spec in spec_list.split():
        cands = [x for x in installed if lang is None or x[2] == lang]
        if ':' not in spec and not any(c in spec for c in '*?['):
            pat = spec + ':*'
            m = [x for x in cands if fnmatch.fnmatchcase(f'{x[0]}:{x[1]}', pat)]
            m = m[-1:]                       # the most recently added one
        else:
            pat = spec if ':' in spec else spec + ':*'
            m = [x for x in cands if fnmatch.fnmatchcase(f'{x[0]}:{x[1]}', pat)]
        for x in m:
            if x not in out:
                out.append(x)
    return out


def _main_function(name):
    """A function of wn/__main__.py without running the module (it parses sys.argv when imported): its imports and
    the one function definition, compiled from the real source."""
    import ast as _ast
    import types
    from vc.core import REPO
    path = REPO / 'wn' / '__main__.py'
    tree = _ast.parse(path.read_text())
    keep = [n for n in tree.body if isinstance(n, (_ast.Import, _ast.ImportFrom)) or
            (isinstance(n, _ast.FunctionDef) and n.name == name)]
    mod = types.ModuleType('wn_main_' + name)
    exec(compile(_ast.Module(body=keep, type_ignores=[]), str(path), 'exec'), mod.__dict__)
    return getattr(mod, name)


def bounded(sess: Session):
    import wn._db
    import contextlib
    import io
    import types
    cases, bad, bad_remove, bad_cli, cli_cases = 0, [], [], [], 0
    cli_lexicons = _main_function('_lexicons')
    old = wn.config.data_directory
    specs = POOL + [f'{a} {b}' for a, b in itertools.product(POOL[:9], POOL[:11]) if a != b]
    if sess.tier == 'thorough':
        specs = POOL + [f'{a} {b}' for a, b in itertools.permutations(POOL, 2)]
    try:
        for order in INSTALL_ORDERS:
            tmp = tempfile.mkdtemp(prefix='wnverif_c08_')
            wn.config.data_directory = tmp
            for k, (lid, ver, lang) in enumerate(order):
                p = os.path.join(tmp, f'l{k}.xml')
                open(p, 'w').write(TEMPLATE.format(id=lid, ver=ver, lang=lang, n=k))
                wn.add(p, progress_handler=None)
            for spec in specs:
                for lang in (None, 'en', 'de', 'xx'):
                    cases += 1
                    want = [f'{x[0]}:{x[1]}' for x in reference(order, spec, lang)]
                    got = [l.specifier() for l in wn.lexicons(lexicon=spec, lang=lang)]
                    try:
                        wobj = [l.specifier() for l in wn.Wordnet(lexicon=spec, lang=lang).lexicons()]
                        raised = False
                    except wn.Error:
                        wobj, raised = [], True
                    if sorted(got) != sorted(want) or len(got) != len(set(got)) or raised != (not want) or \
                            (not raised and sorted(wobj) != sorted(want)):
                        bad.append({'installed_in_order': order, 'specifier': spec, 'lang': lang, 'got': got,
                                    'want': want, 'Wordnet_raised': raised})
                    if ' ' not in spec or spec in specs[len(POOL):len(POOL) + 12]:
                        # the `lexicons` subcommand lists what wn.lexicons() selects (nothing, without an error, when
                        # the request matches no lexicon)
                        cli_cases += 1
                        out = io.StringIO()
                        try:
                            with contextlib.redirect_stdout(out), contextlib.redirect_stderr(io.StringIO()):
                                cli_lexicons(types.SimpleNamespace(lang=lang, lexicon=spec))
                            listed = [tuple(l.split('\t')[:2]) for l in out.getvalue().splitlines()]
                        except (Exception, SystemExit) as exc:   # noqa: BLE001
                            listed = repr(exc)
                        if listed != [tuple(g.split(':', 1)) for g in got]:
                            bad_cli.append({'installed_in_order': order, '--lexicon': spec, '--lang': lang,
                                            'listed': listed, 'wn.lexicons': got})
            # wn.remove(specifier) removes exactly what the specifier selects (evaluated before anything is deleted)
            multi = ['foo foo', 'foo:2.0-rc+1 foo', 'foo:1.0 foo', 'foo:* foo', 'foobar foo bar'] + \
                [sp for sp in specs if ' ' in sp][:: 7 if sess.tier != 'thorough' else 1]
            files = {f'{lid}:{ver}': os.path.join(tmp, f'l{k}.xml') for k, (lid, ver, lang) in enumerate(order)}
            for spec in multi:
                before = [l.specifier() for l in wn.lexicons()]
                try:
                    want = [l.specifier() for l in wn.lexicons(lexicon=spec)]
                except wn.Error:
                    continue
                if not want:
                    continue
                cases += 1
                wn.remove(spec, progress_handler=None)
                after = [l.specifier() for l in wn.lexicons()]
                removed = sorted(set(before) - set(after))
                if removed != sorted(want):
                    bad_remove.append({'installed': before, 'specifier': spec, 'selected': sorted(want),
                                       'removed': removed})
                for sp_ in removed:                     # restore (same order is not needed for the next case)
                    wn.add(files[sp_], progress_handler=None)
            for c in list(wn._db.pool.values()):
                c.close()
            wn._db.pool.clear()
            import shutil
            shutil.rmtree(tmp, ignore_errors=True)
    finally:
        wn.config.data_directory = old
    if bad_remove:
        sess.violation_direct('wn._add.remove:selection', 'wn.remove(specifier) removed lexicons other than those the '
                              'specifier selects', {'witness': bad_remove[0], 'failing_cases': len(bad_remove)}, True,
                              functions=('wn._add.remove', 'wn._queries.find_lexicons'))
    sess.add_bounded('wn.__main__._lexicons (the `lexicons` subcommand)', 'the single specifiers and 12 lists of the '
                     'selection sweep x 4 lang values', cli_cases, 'native execution against wn.lexicons()', not bad_cli)
    if bad_cli:
        sess.violation_direct('wn.__main__._lexicons:lists-selection', 'the subcommand does not list exactly what '
                              'wn.lexicons(lang, lexicon) selects', {'witness': bad_cli[0],
                                                                     'failing_cases': len(bad_cli)}, True,
                              functions=('wn.__main__._lexicons',))
    sess.add_bounded('wn.lexicons / wn.Wordnet (specifier selection end to end, GLOB semantics)',
                     f'2 installation orders of 4 lexicons (prefix ids, 2 versions, dotted/plus/hyphen versions, 2 '
                     f'languages) x {len(specs)} specifier strings x 4 lang values', cases,
                     'real database vs reference implementation of docs/guides/lexicons.rst', not bad)
    if bad:
        sess.violation_direct('wn._queries.find_lexicons:selection', 'selected lexicons differ from the documented '
                              'selection', {'witness': bad[0], 'failing_cases': len(bad)}, True,
                              functions=('wn._queries.find_lexicons',))


def remove_selection_bounded(sess: Session):
    """wn.remove(specifier) removes exactly what wn.lexicons(specifier) selects (evaluated before anything is deleted),
    together with the extensions of the selected lexicons: a real database with three versions of one id, an extension
    and an unrelated lexicon x specifier lists in which a bare id follows a specifier that selects its newest version."""
    import shutil
    import wn._db
    old = wn.config.data_directory
    tmp = tempfile.mkdtemp(prefix='wnverif_rm_')
    bad, cases = [], 0
    try:
        wn.config.data_directory = tmp
        order = [('a', '1', 'en'), ('a', '2', 'en'), ('a', '3', 'en'), ('b', '1', 'de')]
        files = {}
        for k, (lid, ver, lang) in enumerate(order):
            p = os.path.join(tmp, f'l{k}.xml')
            open(p, 'w').write(TEMPLATE.format(id=lid, ver=ver, lang=lang, n=k))
            files[f'{lid}:{ver}'] = p
            wn.add(p, progress_handler=None)
        for spec in ('a:3 a', 'a a', 'a b:* a', 'b a:3 a:2 a', 'a:* a', 'a:2 a', 'a? a', 'b a'):
            before = [x.specifier() for x in wn.lexicons()]
            want = sorted(x.specifier() for x in wn.lexicons(lexicon=spec))
            cases += 1
            wn.remove(spec, progress_handler=None)
            after = [x.specifier() for x in wn.lexicons()]
            removed = sorted(set(before) - set(after))
            if removed != want:
                bad.append({'installed': before, 'specifier': spec, 'selected': want, 'removed': removed})
            for sp_ in [f'{i}:{v}' for i, v, _ in order if f'{i}:{v}' in removed]:
                wn.add(files[sp_], progress_handler=None)
            # restoring changes the rowid order: re-install everything in the original order
            if removed:
                wn.remove('*', progress_handler=None)
                for i, v, _ in order:
                    wn.add(files[f'{i}:{v}'], progress_handler=None)
    finally:
        for c in list(wn._db.pool.values()):
            c.close()
        wn._db.pool.clear()
        wn.config.data_directory = old
        shutil.rmtree(tmp, ignore_errors=True)
    sess.add_bounded('wn.remove (removed == selected)', '4 lexicons (3 versions of one id) x 8 specifier lists', cases,
                     'real database', not bad)
    if bad:
        sess.violation_direct('wn._add.remove:selection', 'wn.remove(specifier) removed lexicons other than those the '
                              'specifier selects', {'witness': bad[0], 'failing_cases': len(bad)}, True,
                              functions=('wn._add.remove', 'wn._queries.find_lexicons'))


def run(sess: Session):
    sess.assume('A-GLOB', 'A-SPLIT', 'A-SQLITE', 'A-ENGINE')
    sess.trust('SQLite GLOB (meaning of the pattern) - exercised only by the bounded stand-in', 'z3 strings',
               "str.split() of a string built from whitespace-free tokens returns the tokens (A-SPLIT)")
    for part, fn in (('find_lexicons', deductive_obligations), ('lexicons', lexicons_flow_obligations)):
        try:
            for ob in fn():
                sess.check(ob)
        except Unsupported as exc:
            sess.unsupported(f'C08:{part}', str(exc))
    from contracts import addchecks as _ac
    _ac.run_row_images(sess, PROP, only={'_insert_lexicon'})      # which dependencies count as installed
    try:
        for ob in coreflows.wordnet_init_obligations(PROP):
            sess.check(ob)
    except Unsupported as exc:
        sess.unsupported('wn._core.Wordnet.__init__:flow', str(exc))
    bounded(sess)
