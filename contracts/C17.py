"""C17 - Morphy returns only valid lemmas when initialized and all candidates otherwise.

Deductive (pyvc + z3 strings; the rule table is DATA read from the real module - a changed rule is not a violation, a
changed APPLICATION of the rules is): Morphy._morphstr and Morphy.__call__ are executed symbolically (branches
predicated) for an arbitrary word form, with the object's state given by its class invariant:
    _rules        the real table filtered to the WN system (taken from a real instance)
    _all_lemmas   lemma(pos, x)      - an arbitrary set per part of speech
    _exceptions   exc(pos, form, y)  - arbitrary, every value a lemma of that pos (invariant established by __init__)
  initialized:   result subset of lemma(pos); contains the form if it is a lemma; contains every y with exc(pos, form, y);
                 contains every rule output that is a lemma; nothing else
  uninitialized: exactly the rule outputs stem+repl with form = stem+suffix, stem non-empty
  __call__:      pos None -> the five Morphy parts of speech; other pos -> nothing; uninitialized adds {pos: {form}}
                 and removes the original from the per-pos sets when pos is None
Bounded: Morphy.__init__ (dict-of-sets accumulation over wordnet.words()) on enumerated small inventories.
Wordnet level (union over proposed (pos, form) pairs, no duplicates) = _find_helper's contract (C09) instantiated.
"""
from __future__ import annotations

import itertools

import z3
import wn._core as core

import wn
import wn.morphy as M
from vc.core import Obligation, Session, Unsupported
from vc.pyvc.values import SV, SObj, Seq, Lit, Loop, Binder, mk, z_and, z_or, z_not, z_bool, LITS, Sym
from vc.pyvc.interp import explore, source_span, MSet, MDict, SymMethod
from vc.pyvc import builtins_sym as B
from contracts import coreflows
from contracts.common import path_id

PROP = 'C17'
Str = z3.StringSort()
lemma = z3.Function('is_lemma', Str, Str, z3.BoolSort())           # (pos, x)
exc = z3.Function('exception', Str, Str, Str, z3.BoolSort())       # (pos, form, lemma)


class AbstractSet(Sym):
    """A set known by its membership predicate."""

    def __init__(self, pred, label):
        self.pred = pred
        self.label = label

    def as_seq(self):
        y = z3.Const(B.fresh_name('y'), Str)
        return Seq([Loop([Binder(y, self.pred(y), self.label, ('set', self.label))], True,
                         [Lit(SV('zstr', y))])], label=self.label)

    def vc_contains(self, it, x, node):
        xz = x.z if isinstance(x, SV) else z3.StringVal(x)
        return self.pred(xz)


class ExcMap(Sym):
    """self._exceptions[pos]: form -> set of lemmas."""

    def __init__(self, pos):
        self.pos = pos


def _excmap_get(it, m, args, kw, node):
    form = args[0]
    fz = form.z if isinstance(form, SV) else z3.StringVal(form)
    return AbstractSet(lambda y: exc(m.pos, fz, y), f'exceptions[{m.pos}][form]')


B.METHODS[('ExcMap', 'get')] = _excmap_get


def _excmap_contains(self, it, x, node):
    fz = x.z if isinstance(x, SV) else z3.StringVal(x)
    y = z3.Const('y$exc', Str)
    return z3.Exists([y], exc(self.pos, fz, y))          # a stored form has at least one lemma


def _excmap_getitem(self, it, idx, node):
    it.safety_check(_excmap_contains(self, it, idx, node), KeyError, node, 'exceptions[pos][form]')
    return _excmap_get(it, self, [idx], {}, node)


ExcMap.vc_contains = _excmap_contains
ExcMap.vc_getitem = _excmap_getitem


def _to_seq_hook():
    from vc.pyvc import interp as I
    orig = I.Interp.to_seq

    def to_seq(self, it):
        if isinstance(it, AbstractSet):
            return it.as_seq()
        return orig(self, it)
    I.Interp.to_seq = to_seq


_to_seq_hook()


def make_morphy(initialized: bool):
    real = M.Morphy()          # the real rule table, filtered by the real __init__
    o = SObj(M.Morphy, name='morphy')
    o.attrs['_rules'] = MDict({p: B.from_native(r) for p, r in real._rules.items()})
    o.attrs['_initialized'] = initialized
    o.attrs['_all_lemmas'] = MDict({p: AbstractSet(lambda y, p=p: lemma(z3.StringVal(p), y), f'lemmas[{p}]')
                                    for p in real._all_lemmas})
    o.attrs['_exceptions'] = MDict({p: ExcMap(z3.StringVal(p)) for p in real._exceptions})
    return o, real


def rule_output(form, suffix: str, repl: str, x):
    """x is the output of the rule (suffix -> repl) on form: form = stem + suffix, stem non-empty, x = stem + repl."""
    stem = z3.Const('stem', Str)
    return z3.Exists([stem], z3.And(form == z3.Concat(stem, z3.StringVal(suffix)), z3.Length(stem) > 0,
                                    x == (z3.Concat(stem, z3.StringVal(repl)) if repl else stem)))


def member(res, x):
    """x in the MSet built by the predicated run."""
    alts = []
    nodes = [Lit(e) for e in res.items] + list(res.nodes)
    for binders, guard, elem, _ in Seq(nodes).leaves():
        body = z_and(*[b.constraint for b in binders], guard, elem.z == x if isinstance(elem, SV) else
                     z3.StringVal(elem) == x)
        vs = [b.var for b in binders]
        alts.append(z3.Exists(vs, body) if vs else body)
    return z_or(*alts)


def morphstr_obligations() -> list:
    obs = []
    fn = M.Morphy._morphstr
    name = 'wn.morphy.Morphy._morphstr'
    form = mk('zstr', 'form')
    x = z3.Const('x', Str)
    y = z3.Const('y', Str)
    for initialized in (True, False):
        o_m, real = make_morphy(initialized)
        for pos, rules in real._rules.items():
            outs = explore(lambda it: it.call_function(fn, [o_m, form, pos], {}), contracts={}, packages=('wn',),
                           predicated=True)
            P = z3.StringVal(pos)
            # class invariant: every exception value is a lemma of that part of speech
            inv = [z3.ForAll([y], z3.Implies(exc(P, form.z, y), lemma(P, y)))]
            for o in outs:
                tag = f'{"init" if initialized else "uninit"}:{pos}:{path_id(o)}'
                cm = dict(prop=PROP, kind='post', functions=(name,), source=source_span(fn), timeout_ms=30000)
                if o.kind != 'return' or not isinstance(o.value, MSet):
                    obs.append(Obligation(f'{name}:shape:{tag}', decided=False, detail='no candidate set', **cm))
                    continue
                for k, mr in enumerate(o.may_raise):
                    obs.append(Obligation(f'{name}:no-raise:{tag}#{k}', assumptions=list(mr[1][:-1]) + list(o.pc),
                                          goal=z3.Not(mr[1][-1]), detail=f'{mr[0].__name__}: {mr[3]}', **cm))
                inres = member(o.value, x)
                by_rule = z_or(*[rule_output(form.z, suf, rep, x) for suf, rep, _ in rules])
                if initialized:
                    want = z_or(z3.And(x == form.z, lemma(P, x)), exc(P, form.z, x), z3.And(by_rule, lemma(P, x)))
                    pc = list(o.pc) + inv
                    obs.append(Obligation(f'{name}:only-lemmas:{tag}', assumptions=pc + [inres], goal=lemma(P, x),
                                          detail='an initialized Morphy returns only lemmas of that part of speech',
                                          **cm))
                else:
                    want = by_rule
                    pc = list(o.pc)
                if not rules and not initialized:
                    obs.append(Obligation(f'{name}:no-rules:{tag}', assumptions=pc, goal=z3.Not(inres),
                                          detail='a part of speech without rules yields no candidate', **cm))
                    continue
                # split by rule: node k of the candidate set <-> rule k (one conditional add per rule, in table order)
                nodes = [Lit(e) for e in o.value.items] + list(o.value.nodes)
                rule_nodes = [n for n in nodes if isinstance(n, Lit) and isinstance(n.elem, SV)
                              and not n.elem.z.eq(form.z)]
                other_nodes = [n for n in nodes if n not in rule_nodes]
                if len(rule_nodes) != len(rules):
                    obs.append(Obligation(f'{name}:sound:{tag}', assumptions=pc + [inres], goal=want,
                                          detail='every candidate is the form itself (if a lemma), an exception, or a '
                                                 'rule output with a non-empty stem', **cm))
                    obs.append(Obligation(f'{name}:complete:{tag}', assumptions=pc + [want], goal=inres,
                                          detail='every such candidate is returned', **cm))
                    continue
                for (suf, rep, _), nd in zip(rules, rule_nodes):
                    spec_r = rule_output(form.z, suf, rep, x)
                    if initialized:
                        spec_r = z3.And(spec_r, lemma(P, x))
                    code_r = z3.And(z_bool(nd.guard), nd.elem.z == x)
                    obs.append(Obligation(f'{name}:rule[{suf}->{rep}]:sound:{tag}', assumptions=pc + [code_r],
                                          goal=spec_r, detail=f'rule -{suf} +{rep}: applied only with a non-empty stem, '
                                          f'output = stem + replacement' + (' and a lemma' if initialized else ''), **cm))
                    obs.append(Obligation(f'{name}:rule[{suf}->{rep}]:complete:{tag}', assumptions=pc + [spec_r],
                                          goal=code_r, detail=f'rule -{suf} +{rep}: every admissible output is a '
                                                              f'candidate', **cm))
                if initialized:
                    rest = MSet()
                    rest.items, rest.nodes = [], other_nodes
                    inrest = member(rest, x)
                    want_rest = z_or(z3.And(x == form.z, lemma(P, x)), exc(P, form.z, x))
                    obs.append(Obligation(f'{name}:form-and-exceptions:{tag}', assumptions=pc, goal=inrest == want_rest,
                                          detail='the form itself if it is a lemma, and every lemma listing it as a '
                                                 'further form', **cm))
                else:
                    obs.append(Obligation(f'{name}:nothing-else:{tag}', decided=not other_nodes,
                                          detail='an uninitialized Morphy proposes only rule outputs', **cm))
    return obs


def call_obligations() -> list:
    """Morphy.__call__ with _morphstr replaced by its contract (an abstract candidate set per pos)."""
    obs = []
    fn = M.Morphy.__call__
    name = 'wn.morphy.Morphy.__call__'
    form = mk('zstr', 'form')
    cand = z3.Function('candidate', Str, Str, z3.BoolSort())       # (pos, x): _morphstr's result

    def morphstr_contract(it, args, kwargs, node):
        _, f, p = args
        pz = z3.StringVal(p) if isinstance(p, str) else p.z
        out = MSet()
        out.nodes = list(AbstractSet(lambda yy: cand(pz, yy), f'candidates[{p}]').as_seq().nodes)
        return out
    x = z3.Const('x', Str)
    five = list(M.DETACHMENT_RULES)
    for initialized in (True, False):
        for posarg in [None] + five + ['x', 'u']:
            o_m, real = make_morphy(initialized)
            outs = explore(lambda it: it.call_function(fn, [o_m, form, posarg], {}),
                           contracts={M.Morphy._morphstr: morphstr_contract}, packages=('wn',), predicated=True)
            for o in outs:
                tag = f'{"init" if initialized else "uninit"}:pos={posarg}:{path_id(o)}'
                cm = dict(prop=PROP, kind='post', functions=(name,), source=source_span(fn))
                res = o.value
                if o.kind != 'return' or not isinstance(res, MDict):
                    obs.append(Obligation(f'{name}:shape:{tag}', decided=False, detail='no result mapping', **cm))
                    continue
                handled = five if posarg is None else ([posarg] if posarg in five else [])
                keys = set(res.d)
                # expected keys: the handled parts of speech (present iff they have candidates) + pos itself when
                # uninitialized
                allowed = set(handled) | ({posarg} if not initialized else set())
                obs.append(Obligation(f'{name}:keys:{tag}', decided=keys <= allowed and not res.nodes,
                                      detail=f'result keys {sorted(map(str, keys))} within {sorted(map(str, allowed))}',
                                      **cm))
                for p in handled:
                    val = res.d.get(p)
                    inres = member_any(val, x) if val is not None else z3.BoolVal(False)
                    P = z3.StringVal(p)
                    if initialized or posarg is not None:
                        want = cand(P, x)
                        if not initialized and posarg == p:
                            want = z3.Or(want, x == form.z)      # the original is added under its own pos
                    else:
                        want = z3.And(cand(P, x), x != form.z)     # pos None: the original only under None
                    obs.append(Obligation(f'{name}:per-pos:{p}:{tag}', assumptions=list(o.pc), goal=inres == want,
                                          detail='the candidates of each handled part of speech', **cm))
                if not initialized:
                    val = res.d.get(posarg)
                    inres = member_any(val, x) if val is not None else z3.BoolVal(False)
                    if posarg is None or posarg not in five:
                        obs.append(Obligation(f'{name}:original:{tag}', assumptions=list(o.pc),
                                              goal=inres == (x == form.z),
                                              detail='an uninitialized Morphy always includes the original form under '
                                                     'the requested pos', **cm))
    return obs


class AbstractSetAsMSet(AbstractSet):
    pass


def member_any(val, x):
    if isinstance(val, MSet):
        return member(val, x)
    if isinstance(val, AbstractSet):
        return val.pred(x)
    raise Unsupported(f'result value {type(val).__name__}')


def init_bounded(sess: Session):
    """Morphy.__init__ on small inventories: every exception value is a lemma of that pos; _all_lemmas[pos] = the
    lemmas of the words of pos; exceptions[pos][other] = lemmas of words listing `other` as a further form."""
    cases, bad = 0, []
    forms_pool = ['a', 'b', 'c']
    poses = ['n', 'v']

    class W:
        def __init__(self, words):
            self._w = words

        def words(self):
            return [type('Word', (), {'pos': p, 'forms': (lambda self_, fs=fs: list(fs)),
                                      'lemma': (lambda self_, fs=fs: fs[0])})() for p, fs in self._w]
    word_opts = [(p, fs) for p in poses for n in (1, 2, 3) for fs in itertools.permutations(forms_pool, n)]
    for k in (0, 1, 2):
        for words in itertools.combinations(word_opts, k):
            m = M.Morphy(W(words)) if words else M.Morphy(W([('n', ['a'])]))
            ws = words or (('n', ('a',)),)
            cases += 1
            want_lem = {p: set() for p in m._all_lemmas}
            want_exc = {p: {} for p in m._exceptions}
            for p, fs in ws:
                want_lem[p].add(fs[0])
                for o in fs[1:]:
                    want_exc[p].setdefault(o, set()).add(fs[0])
            if m._all_lemmas != want_lem or m._exceptions != want_exc or not m._initialized or \
                    m._rules['s'] is not m._rules['a'] and m._rules['s'] != m._rules['a']:
                bad.append({'words': ws, 'lemmas': m._all_lemmas, 'exceptions': m._exceptions})
    sess.add_bounded('wn.morphy.Morphy.__init__', 'all inventories of <= 2 words x pos in (n, v) x 1..3 forms over 3 '
                     'strings', cases, 'small-scope enumeration', not bad)
    if bad:
        sess.violation_direct('wn.morphy.Morphy.__init__:invariant', 'class invariant not established',
                              {'witness': repr(bad[0])[:1500]}, True, functions=('wn.morphy.Morphy.__init__',))
    # every part of speech a WN-LMF document may give a word (partOfSpeech of the DTDs: n v a r s t c p x u): the
    # constructor accepts the wordnet and records the word under that part of speech
    bad_pos = []
    for pos in 'nvarstcpxu':
        try:
            m = M.Morphy(W([(pos, ['w', 'ws'])]))
            if 'w' not in m._all_lemmas.get(pos, ()) or m._exceptions.get(pos, {}).get('ws') != {'w'}:
                bad_pos.append({'pos': pos, 'lemmas': m._all_lemmas.get(pos), 'exceptions': m._exceptions.get(pos)})
        except Exception as exc_:   # noqa: BLE001
            bad_pos.append({'pos': pos, 'error': repr(exc_)})
    sess.add_bounded('wn.morphy.Morphy.__init__ (parts of speech)', 'one word with a further form for each of the 10 '
                     'parts of speech of the WN-LMF DTDs', 10, 'native execution', not bad_pos)
    if bad_pos:
        sess.violation_direct('wn.morphy.Morphy.__init__:parts-of-speech', 'a wordnet with a word of a documented part '
                              'of speech is refused or the word is not recorded under it',
                              {'witness': bad_pos[:4]}, True, functions=('wn.morphy.Morphy.__init__',))
    u = M.Morphy()
    ok = (not u._initialized) and all(not v for v in u._all_lemmas.values())
    sess.add_bounded('wn.morphy.Morphy.__init__ (no wordnet)', 'one case', 1, 'execution', ok)


def call_bounded(sess: Session):
    """Differential stand-in: the real Morphy (uninitialized and initialized on small inventories) against the
    documented rule semantics, on strings whose stems end in letters of the suffix (glasses, misses, freer, sees ...),
    bare suffixes and unrelated strings."""
    rules = M.DETACHMENT_RULES
    stems = ['glass', 'miss', 'free', 'see', 'box', 'church', 'run', 'big', 'ox', 'e', 's', 'es', 'ed', 'ing', 'fuzz',
             'dress', 'agree', 'er', 'est', 'men', 'goose']
    queries = set(stems)
    for pos, rs in rules.items():
        for suf, rep, _ in rs:
            queries.add(suf)
            for st in stems:
                queries.add(st + suf)
                if rep and st.endswith(rep):
                    queries.add(st[:-len(rep)] + suf)
    queries = sorted(queries)

    def reference(form, pos, lemmas=None, exc=None):
        out = {}
        if lemmas is None:
            out[pos] = {form}
        if lemmas is None:
            poses = list(rules) if pos is None else ([pos] if pos in rules else [])
        else:
            # initialized: every part of speech of the wordnet's words (the statement says "for each part of speech");
            # parts of speech without detachment rules only contribute the lemma itself and the irregular forms
            every = list(rules) + [p for p in lemmas if p not in rules]
            poses = every if pos is None else ([pos] if pos in every else [])
        base = out.get(None, set())
        for p in poses:
            cands = set()
            if lemmas is not None:
                if form in lemmas.get(p, set()):
                    cands.add(form)
                cands |= exc.get(p, {}).get(form, set())
            for suf, rep, _ in rules.get(p, ()):
                if form.endswith(suf) and len(suf) < len(form):
                    c = form[:len(form) - len(suf)] + rep
                    if lemmas is None or c in lemmas.get(p, set()):
                        cands.add(c)
            cands -= base
            if cands:
                out.setdefault(p, set()).update(cands)
        return out

    cases, bad = 0, []
    un = M.Morphy()
    for q in queries:
        for pos in (None, 'n', 'v', 'a', 's', 'r', 'x'):
            cases += 1
            got, want = un(q, pos), reference(q, pos)
            if got != want:
                bad.append({'mode': 'uninitialized', 'form': q, 'pos': pos, 'got': got, 'want': want})

    class W:
        def __init__(self, words):
            self._w = words

        def words(self):
            return [type('Word', (), {'pos': p, 'forms': (lambda self_, fs=fs: list(fs)),
                                      'lemma': (lambda self_, fs=fs: fs[0])})() for p, fs in self._w]
    # real Form objects (str subclasses carrying id/script): set and dict look-ups with plain strings must find them
    F = core.Form if hasattr(core, 'Form') else str
    inventory = [('n', ['glass']), ('n', ['miss']), ('a', ['free']), ('v', ['see', 'saw']), ('n', ['ox', 'oxen']),
                 ('v', ['run', 'ran']), ('n', ['goose', 'geese']), ('v', ['goose']), ('s', ['big']), ('n', ['saw']),
                 ('v', ['dress']), ('n', ['dress']), ('a', ['well', 'better']), ('a', ['good', 'better']),
                 ('c', ['and', "an'"]), ('n', ['and']), ('p', ['of']),
                 # 'leaves' is listed by leaf AND is leave + s; 'dying' is listed by die AND is dye + ing
                 ('n', ['leaf', 'leaves']), ('n', ['leave']), ('v', ['die', 'dying', 'dyes']), ('v', ['dye'])]
    inventory = [(p, [F(x, script='Latn') if (k + n) % 2 else F(x) for k, x in enumerate(fs)] if F is not str else fs)
                 for n, (p, fs) in enumerate(inventory)]
    inventory[0] = ('n', [F('glass', id='f1', script='Latn')] if F is not str else ['glass'])
    try:
        ini = M.Morphy(W(inventory))
    except Exception as exc_:   # noqa: BLE001 - the real constructor refuses a wordnet with words of every documented part of speech
        sess.add_bounded('wn.morphy.Morphy.__call__', 'initialisation on the inventory (words of parts of speech n, v, a, '
                         's, c, p)', 1, 'native execution', False)
        sess.violation_direct('wn.morphy.Morphy.__init__:no-raise', 'Morphy(wordnet) raises for a wordnet whose words '
                              f'have the parts of speech {sorted({p for p, _ in inventory})}: {exc_!r}',
                              {'witness': repr(exc_), 'parts of speech': sorted({p for p, _ in inventory})}, True,
                              functions=('wn.morphy.Morphy.__init__',))
        return
    lemmas, exc = {}, {}
    for p, fs in inventory:
        # the reference works on plain strings (its look-ups must not go through Form.__hash__ / __eq__)
        lemmas.setdefault(p, set()).add(str(fs[0]))
        for o in fs[1:]:
            exc.setdefault(p, {}).setdefault(str(o), set()).add(str(fs[0]))
    other_pos = []        # known finding K23: words of a part of speech without detachment rules are ignored
    for q in queries + ['saw', 'oxen', 'ran', 'geese', 'better', 'and', "an'", 'of', 'leaves', 'dying', 'dyes']:
        for pos in (None, 'n', 'v', 'a', 's', 'r', 'x', 'c', 'p'):
            cases += 1
            got, want = ini(q, pos), reference(q, pos, lemmas, exc)
            if got != want:
                five = {k: v for k, v in want.items() if k in rules}
                if got == five:
                    other_pos.append({'form': q, 'pos': pos, 'got': got, 'want': want})
                else:
                    bad.append({'mode': 'initialized', 'form': q, 'pos': pos, 'got': got, 'want': want})
    if other_pos:
        sess.violation_direct('wn.morphy.Morphy.__call__:other-parts-of-speech', 'an initialized Morphy ignores the '
                              'lemmas and irregular forms of words whose part of speech has no detachment rules',
                              {'witness': repr(other_pos[0]), 'cases': len(other_pos)}, True, finding='K23',
                              functions=('wn.morphy.Morphy.__call__',))
    sess.add_bounded('wn.morphy.Morphy.__call__ / _morphstr', f'{len(queries)} query strings x 7 pos values, '
                     'uninitialized and initialized on a 14-word inventory', cases, 'differential: documented rule '
                     'semantics', not bad)
    if bad:
        sess.violation_direct('wn.morphy.Morphy.__call__:rules', 'result differs from the documented detachment-rule '
                              'semantics', {'witness': repr(bad[0])[:1500]}, True,
                              functions=('wn.morphy.Morphy.__call__', 'wn.morphy.Morphy._morphstr'))


def run(sess: Session):
    sess.assume('A-ENGINE', 'z3-strings')
    sess.trust('z3 sequence theory for str.endswith / slicing / concatenation / len', 'vc/pyvc')
    for part, fn in (('morphstr', morphstr_obligations), ('call', call_obligations)):
        try:
            for ob in fn():
                sess.check(ob)
        except Unsupported as exc:
            sess.unsupported(f'wn.morphy:{part}', str(exc))
    init_bounded(sess)
    call_bounded(sess)
    from contracts import querychecks as _qc
    _qc.run_result_checks(sess, PROP, {'find_entries'})     # Word.forms(): every form of the word, lemma first
    from contracts import C09 as c09
    try:
        c09.dedup_bounded(sess)
    except Unsupported as exc:
        sess.unsupported('wn._core._find_helper:dedup', str(exc))
    # Wordnet level: union over the proposed (pos, form) pairs without duplicates = _find_helper's contract
    try:
        for ob in coreflows.find_helper_obligations(PROP):
            if 'lemmatizer=two' in ob.name or 'lemmatizer=empty' in ob.name:
                sess.check(ob)
    except Unsupported as exc:
        sess.unsupported('wn._core._find_helper:flow', str(exc))
