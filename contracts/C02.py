"""C02 - WN-LMF load/dump is a lossless round trip in every supported version.

  deductive   per element kind x LMF version: write (real _build_*/_dump_*) -> A-XML bridge -> read (real expat
              handlers start/char_data/end) -> real _validate_* == input restricted to the version; every path;
              list children through a free representative (contracts/lmfrt.py)                       pyvc + z3
  structure   dump(): header lines, dc namespace uri, one _dump_lexicon per lexicon in order; _dump_lexicon /
              _dump_lexical_entry piece order and attribute quoting                                   pyvc
  bounded     dump -> load -> dump on generated resources (special characters in attribute values and text,
              every optional piece absent once, extension lexicons), 4 versions: equality + byte fixed point  bounded
"""
from __future__ import annotations

import os
from concurrent.futures import ProcessPoolExecutor

from vc.core import Obligation, Session, Unsupported, discharge
from contracts import lmfrt

PROP = 'C02'


def _group_job(args):
    group, version, uri = args
    try:
        return ('ok', group, version, lmfrt.group_obligations(group, version, uri, PROP))
    except Unsupported as exc:
        return ('unsupported', group, version, str(exc))


def run(sess: Session):
    sess.assume('A-XML', 'xml.etree.ElementTree.tostring / xml.sax.saxutils.quoteattr followed by expat parsing '
                         'deliver element names, attributes (dc:NAME as "<uri> NAME" for the uri dump() declares), '
                         'child order and character data unchanged (checked on generated documents only: bounded)')
    sess.assume('A-SPLIT', "' '.join(ts).split() == ts for non-empty lists of non-empty whitespace-free tokens "
                           '(identifiers)')
    uris = {}
    for v in lmfrt.VERSIONS:
        lines, uri, dumped = lmfrt.dc_uri_written(v)
        uris[v] = uri
        for ob in lmfrt.header_obligations(v, lines, uri, dumped, PROP):
            sess.check(ob)
    jobs = [(g, v, uris[v], PROP) for g in list(lmfrt.GROUPS) + ['lexicon'] for v in lmfrt.VERSIONS]
    jobs.sort(key=lambda j: j[0] not in ('entry', 'synset', 'sense'))      # long jobs first
    with ProcessPoolExecutor(min(16, len(jobs))) as ex:
        for results in ex.map(lmfrt.group_job, jobs):
            for d in results:
                if 'unsupported' in d:
                    sess.unsupported(d['unsupported'], d['reason'])
                else:
                    sess.record_remote(d)
    # character data arrives in pieces (expat buffers): char_data must append, end() normalises the whole
    from contracts import C20 as c20
    for v in lmfrt.VERSIONS:
        for ob in c20.end_char_obligations(v):
            ob.prop = PROP
            sess.check(ob)
    bounded(sess)
    # what the loader does to element text (the str_wsnorm of the obligations): shared with C20 / C01
    from contracts import C20 as _c20
    _c20.normalize_space_bounded(sess)
    sess.level = 'proof'
    sess.explanation = ('write -> read -> validate == identity per element kind for all values (z3) over the A-XML '
                        'bridge; serialisation/parsing of special characters by the bounded sweep only')


def bounded(sess: Session):
    from bounded import lmf_roundtrip as R
    thorough = sess.tier == 'thorough'
    out = R.sweep(thorough)
    bad = [o for o in out if o[2]]
    for version, label, problems, resource in bad[:5]:
        sess.violation_direct(f'wn.lmf.dump/load:bounded:{version}:{label}', '; '.join(problems)[:1500],
                              {'version': version, 'resource': resource, 'kind': 'lmf-roundtrip'}, reproduced=True,
                              functions=('wn.lmf.dump', 'wn.lmf.load'))
    sess.add_bounded('wn.lmf.dump + wn.lmf.load', f'{len(out)} generated resources x dump/load/dump '
                     f'({"thorough" if thorough else "quick"} value pool)', len(out), 'native round trip',
                     ok=not bad)
    k7 = R.k7_probe()
    if k7:
        sess.violation_direct('wn.lmf.dump/load:bounded:empty-optional-attribute', '; '.join(k7),
                              {'kind': 'lmf-roundtrip-k7'}, reproduced=True, finding='K7',
                              functions=('wn.lmf.dump', 'wn.lmf.load'))
    k24 = R.k24_probe()
    if k24:
        sess.violation_direct('wn.lmf.dump/load:bounded:preserved-whitespace', '; '.join(k24)[:1500],
                              {'kind': 'lmf-roundtrip-k24'}, reproduced=not k24[0].startswith('harness'),
                              finding='K24', functions=('wn.lmf.dump', 'wn.lmf.load'))
    k19 = R.k19_probe()
    if k19:
        sess.violation_direct('wn.lmf.dump/load:bounded:explicit-true', '; '.join(k19)[:1500],
                              {'kind': 'lmf-roundtrip-k19'}, reproduced=True, finding='K19',
                              functions=('wn.lmf.dump', 'wn.lmf.load'))
