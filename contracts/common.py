"""Shared harness pieces for the per-property check modules."""
from __future__ import annotations

import collections.abc
import inspect
import typing
from typing import Any, Optional

import z3

from vc.core import Obligation, Session, Unsupported
from vc.pyvc.values import (SV, SList, Seq, Lit, Loop, Binder, LITS, SORTS, z_and, z_or, z_not, z_bool, mk,
                            fresh_name)
from vc.pyvc.interp import explore, Outcome, MList, PyRaise
from vc.pyvc.symbols import sym, scalar_list
from vc.pyvc.dbmodel import World
from vc.sqlvc.encode import DB, seq_has

REPO_SRC = '/repo/wn'


def sym_arg(name: str, ann) -> Any:
    """Symbolic argument from a type annotation (the annotation is only a sort hint)."""
    origin = typing.get_origin(ann)
    args = typing.get_args(ann)
    if ann is int:
        return sym('int', name)
    if ann is str:
        return sym('str', name)
    if ann is bool:
        return sym('bool', name)
    if ann is float:
        return sym('real', name)
    if origin is typing.Union and type(None) in args:
        inner = [a for a in args if a is not type(None)]
        if len(inner) == 1 and inner[0] in (int, str, bool, float):
            k = {int: 'int', str: 'str', bool: 'bool', float: 'real'}[inner[0]]
            return sym(k, name, optional=True)
    if origin in (collections.abc.Sequence, collections.abc.Collection, list, tuple, collections.abc.Iterable):
        if args and args[0] in (int, str):
            return scalar_list(name, 'int' if args[0] is int else 'str')
    raise Unsupported(f'no symbolic argument for annotation {ann!r} of {name}')


def sym_args_for(fn, fixed: Optional[dict] = None) -> dict:
    hints = typing.get_type_hints(fn)
    out = {}
    for pname in inspect.signature(fn).parameters:
        if fixed and pname in fixed:
            out[pname] = fixed[pname]
        else:
            out[pname] = sym_arg(pname, hints[pname])
    return out


def lit_axioms() -> list:
    # axioms of list membership predicates and map look-ups are added per obligation by vc.core.relevant_axioms
    return LITS.axioms()


def fn_name(fn) -> str:
    return f'{fn.__module__}.{fn.__qualname__}'


def path_id(out: Outcome) -> str:
    return ''.join('T' if d else 'F' for d in out.decisions) or '-'


def all_leaves(value):
    """Leaves of a returned sequence value (MList of yields / Seq / SqlResult)."""
    from vc.pyvc.dbmodel import SqlResult
    if isinstance(value, SqlResult):
        value = value.seq
    if isinstance(value, MList):
        return list(value.as_seq().leaves())
    if isinstance(value, Seq):
        return list(value.leaves())
    raise Unsupported(f'result of type {type(value).__name__} is not a sequence')


def model_vars_of(*terms):
    return [t for t in terms if t is not None]
