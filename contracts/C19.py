"""C19 - loading an ILI index only updates ILI status and definitions.

  _add_ili      effect log of the symbolically executed real function: exactly two statements, in one transaction -
                INSERT OR IGNORE of the file's status names into ili_statuses, then the upsert
                INSERT INTO ilis (id, status look-up, definition, NULL) ON CONFLICT(id) DO UPDATE SET status_rowid,
                definition = excluded.* WITHOUT a WHERE clause; row image per listed ILI (default status 'active');
                frame: no other table is written                                                    pyvc + sqlvc
  lexicon side  _insert_synsets creates unknown ILIs as 'presupposed' with INSERT OR IGNORE (never changes a
                known one) and links synsets by the ILI's rowid (row images, shared with C01)          pyvc + sqlvc
  lemmas        over these contracts (abstract state id -> (status, definition)): loading a file twice = once;
                the (status, definition) of every ILI is the same whichever of add(lexicons) / add(index) comes
                first; rowids of existing ILIs are not changed by the upsert, so synset links are untouched     z3
  queries/flows find_ilis / find_proposed_ilis / Synset.ili / ILI.metadata / Wordnet.ili(s)              sqlvc + pyvc
  bounded       wn._ili.load / is_ili on generated files (header case, missing columns, short rows)   bounded
"""
from __future__ import annotations

import itertools
import os
import tempfile

import z3

import wn
import wn._add as A
import wn._ili as ILI
from vc.core import Obligation, Session, Unsupported
from vc.pyvc.values import SV, SObj, mk, LITS, UStr, z_and, z_or, z_not, z_bool
from vc.pyvc.interp import explore, source_span, MList, MDict
from vc.pyvc.dbmodel import World
from vc.pyvc import famcmp
from vc.sqlvc import parse as P
from contracts import addmodel, addchecks, coreflows, querychecks
from contracts import C06 as c06
from contracts.common import lit_axioms, path_id

PROP = 'C19'


def add_ili_obligations() -> list:
    obs = []
    world = World()
    contracts = c06.stub_contracts(world)
    src = SV('obj', z3.Const('ilifile', __import__('vc.pyvc.values', fromlist=['Obj']).Obj))
    outs = explore(lambda it: it.call(A._add_ili, [src, addmodel.Progress()], {}), contracts=contracts)
    name = 'wn._add._add_ili'
    cm = dict(prop=PROP, functions=(name,), source=source_span(A._add_ili), assumptions_used=('A-SQLITE',))
    for o in outs:
        pid = path_id(o)
        writes = [e for e in o.effects if c06.is_write(e)]
        tables = [e.extra['stmt'].table for e in writes]
        obs.append(Obligation(f'{name}:frame:{pid}', kind='effect', decided=tables == ['ili_statuses', 'ilis'],
                              detail=f'tables written: {tables} (only ili_statuses and ilis may change)', **cm))
        if tables != ['ili_statuses', 'ilis']:
            continue
        st_ev, ili_ev = writes
        st: P.Insert = st_ev.extra['stmt']
        up: P.Insert = ili_ev.extra['stmt']
        obs.append(Obligation(f'{name}:statuses:or-ignore:{pid}', kind='sql', decided=st.or_action == 'IGNORE',
                              detail='status names are added with INSERT OR IGNORE (existing names keep their rowid)',
                              **cm))
        # upsert shape
        sets = dict((c, e) for c, e in (up.do_update or []))
        shape_ok = (up.conflict_target == ['id'] and set(sets) == {'status_rowid', 'definition'} and
                    all(isinstance(e, P.Col) and e.table == 'excluded' and e.name == c for c, e in sets.items()) and
                    up.do_update_where is None and up.or_action is None and not up.do_nothing)
        obs.append(Obligation(f'{name}:upsert:shape:{pid}', kind='sql', decided=bool(shape_ok),
                              detail=f'ON CONFLICT({up.conflict_target}) DO UPDATE SET {sorted(sets)} '
                                     f'WHERE {"present" if up.do_update_where is not None else "absent"}: must update '
                                     f'exactly status_rowid and definition of the existing row, unconditionally', **cm))
        # row image of the upsert per listed ILI
        try:
            table, conflict, rows, side = addchecks.insert_image(world, ili_ev, 0)
        except Exception as exc:
            obs.append(Obligation(f'{name}:upsert:bind:{pid}', kind='sql', decided=False, detail=str(exc), **cm))
            continue
        for binders, guard, elem, _ in rows.leaves():
            cons = [b.constraint for b in binders]
            asm = list(o.pc) + cons + [z_bool(guard)] + side + lit_axioms()
            # the generic listed row: the element of the ili_rows stub at that index
            idx = binders[-1].var if binders else None
            from contracts.C06 import ili_record
            info = ili_record('ili_rows', (idx,)) if idx is not None else None
            if info is None:
                continue
            from vc.sqlvc.encode import Encoder, Params
            enc = Encoder(world.db, Params())
            status = info.slots['status']
            status_v = SV('str', z3.If(z_bool(status.present), status.value.z, LITS.lit('active')))
            want_status = enc.lookup('ili_statuses', 'rowid', [('status', status_v)])
            defn = info.slots['definition']
            want_def = SV('str', defn.value.z, z3.Not(z_bool(defn.present)))
            goal = z_and(z_bool(famcmp.value_eq(elem.d['id'], info.slots['ili'].value)),
                         z_bool(famcmp.value_eq(elem.d['status_rowid'], want_status)),
                         z_bool(famcmp.value_eq(elem.d['definition'], want_def)),
                         elem.d['metadata'].none if elem.d['metadata'].none is not None else z3.BoolVal(False))
            obs.append(Obligation(f'{name}:upsert:row:{pid}', kind='post', assumptions=asm + enc.side, goal=goal,
                                  detail='each listed ILI gets the file\'s status (default active) and definition; '
                                         'metadata of a new row is NULL', **cm))
        # the status names inserted are those of the file (default 'active')
        try:
            table, conflict, rows, side = addchecks.insert_image(world, st_ev, 0)
            leaves = list(rows.leaves())
            obs.append(Obligation(f'{name}:statuses:image:{pid}', kind='post', decided=len(leaves) == 1,
                                  detail='one status row per distinct status of the file', **cm))
        except Exception as exc:
            obs.append(Obligation(f'{name}:statuses:bind:{pid}', kind='sql', decided=False, detail=str(exc), **cm))
    return obs


def lemmas() -> list:
    """Abstract ILI table: id -> (present, status, definition); a file F: id -> (listed, status, definition); lexicon
    set L: id -> used.  upsert(F): listed ids get F's values, others unchanged.  add(L): unknown used ids become
    present with ('presupposed', ildef); known ones unchanged (INSERT OR IGNORE)."""
    Id = z3.DeclareSort('IliId')
    i = z3.Const('i', Id)
    listed = z3.Function('listed', Id, z3.BoolSort())
    fstat = z3.Function('file_status', Id, UStr)
    fdef = z3.Function('file_def', Id, UStr)
    used = z3.Function('used_by_lexicons', Id, z3.BoolSort())
    ldef = z3.Function('lexicon_ili_def', Id, UStr)
    PRE = LITS.lit('presupposed')

    def state(tag):
        return (z3.Function('present' + tag, Id, z3.BoolSort()), z3.Function('status' + tag, Id, UStr),
                z3.Function('definition' + tag, Id, UStr))

    def upsert(s0, s1):
        p0, st0, d0 = s0
        p1, st1, d1 = s1
        return z3.ForAll([i], z3.And(p1(i) == z3.Or(p0(i), listed(i)),
                                     st1(i) == z3.If(listed(i), fstat(i), st0(i)),
                                     d1(i) == z3.If(listed(i), fdef(i), d0(i))))

    def addlex(s0, s1):
        p0, st0, d0 = s0
        p1, st1, d1 = s1
        new = lambda x: z3.And(used(x), z3.Not(p0(x)))
        return z3.ForAll([i], z3.And(p1(i) == z3.Or(p0(i), used(i)),
                                     st1(i) == z3.If(new(i), PRE, st0(i)),
                                     d1(i) == z3.If(new(i), ldef(i), d0(i))))

    def same(sa, sb, only_listed=False):
        pa, sta, da = sa
        pb, stb, db = sb
        body = z3.And(pa(i) == pb(i), z3.Implies(pa(i), z3.And(sta(i) == stb(i), da(i) == db(i))))
        return z3.ForAll([i], z3.Implies(listed(i), body) if only_listed else body)
    s0, s1, s2, t1, t2 = state('0'), state('1'), state('2'), state('a'), state('b')
    obs = [
        Obligation('wn._add._add_ili:lemma:idempotent', PROP, 'lemma', [upsert(s0, s1), upsert(s1, s2)],
                   same(s1, s2), detail='loading the same index again changes nothing',
                   functions=('wn._add._add_ili',)),
        Obligation('wn._add._add_ili:lemma:order-independent', PROP, 'lemma',
                   [upsert(s0, s1), addlex(s1, s2), addlex(s0, t1), upsert(t1, t2)], same(s2, t2, only_listed=True),
                   detail='status and definition of every listed ILI are the same whether the index is loaded before '
                          'or after the lexicons', functions=('wn._add._add_ili', 'wn._add._insert_synsets')),
        Obligation('wn._add._add_ili:lemma:listed-authoritative', PROP, 'lemma', [upsert(s0, s1)],
                   z3.ForAll([i], z3.Implies(listed(i), z3.And(s1[0](i), s1[1](i) == fstat(i), s1[2](i) == fdef(i)))),
                   detail='every listed ILI exists afterwards with the file\'s status and definition (presupposed ones '
                          'become authoritative)', functions=('wn._add._add_ili',)),
    ]
    return obs


def bounded_files(sess: Session):
    cases, bad = 0, []
    tmp = tempfile.mkdtemp(prefix='wnverif_ili_')
    try:
        headers = [['ili', 'status', 'definition'], ['ILI', 'Status', 'Definition'], ['ILI', 'STATUS', 'DEFINITION'],
                   ['ili', 'definition'], ['ili'], ['ili', 'status', 'definition', 'extra'], ['ILI', 'status']]
        rowsets = [[], [['i1', 'active', 'a def']], [['i1', 'deprecated', ''], ['i2', 'provisional', 'x y']],
                   [['i1']], [['i1', 'other', 'd', 'more']],
                   # the file is plain tab-separated text, not CSV: quote characters are data
                   [['i1', 'active', '"quoted" definition'], ['i2', 'active', '"unbalanced quote at the start'],
                    ['i3', 'active', 'plain'], ['i4', 'active', 'ends with a quote"']],
                   [['i1', 'active', "it's; a, b"], ['i2', 'active', 'back\\slash and  two  spaces']],
                   # only \n and \r\n end a row: other "line boundary" characters of str.splitlines() are data
                   [['i1', 'active', 'a\x0bb\x0cc'], ['i2', 'active', 'd\x1ce\u2028f\u0085g\u2029h'], ['i3', 'active', 'plain']]]
        for header, rows, nl, final_nl in itertools.product(headers, rowsets, ('\n', '\r\n'), (True, False)):
            if not rows and not final_nl:
                continue
            path = os.path.join(tmp, 'ili.tsv')
            with open(path, 'w', newline='', encoding='utf-8') as fh:
                # the last row with or without a terminating line end
                fh.write(nl.join(['\t'.join(header)] + ['\t'.join(r) for r in rows]) + (nl if final_nl else ''))
            cases += 1
            got = list(ILI.load(path))
            want = [dict(zip([h.lower() for h in header], r)) for r in rows]
            if got != want or not ILI.is_ili(path):
                bad.append({'header': header, 'rows': rows, 'got': got, 'want': want})
        for content, expect in ((b'', False), (b'id\tx\n', False), (b'ili\n', True), (b'ILI\tX\n', True),
                                (b'<?xml', False)):
            path = os.path.join(tmp, 'f')
            open(path, 'wb').write(content)
            cases += 1
            if ILI.is_ili(path) != expect:
                bad.append({'content': content, 'is_ili': ILI.is_ili(path)})
        # the index through wn.add as plain, gzip and xz file (small and > 64 KiB): same ilis table
        import gzip
        import lzma
        import sqlite3
        import shutil as _sh
        import wn as _wn
        old = _wn.config.data_directory
        try:
            for n_rows in (3, 4000):
                rows = [['ili', 'status', 'definition']] + [[f'i{k}', 'active', f'definition number {k} of the index']
                                                            for k in range(n_rows)]
                plain = os.path.join(tmp, f'cili{n_rows}.tsv')
                with open(plain, 'w', newline='') as fh:
                    fh.write(''.join('\t'.join(r) + '\n' for r in rows))
                dumps = {}
                for suffix, opener in (('', None), ('.gz', gzip.open), ('.xz', lzma.open)):
                    path = plain + suffix
                    if opener:
                        with open(plain, 'rb') as src_, opener(path, 'wb') as dst_:
                            _sh.copyfileobj(src_, dst_)
                    d = os.path.join(tmp, f'db{n_rows}{suffix or ".plain"}')
                    os.makedirs(d)
                    _wn.config.data_directory = d
                    cases += 1
                    try:
                        _wn.add(path, progress_handler=None)
                        con = sqlite3.connect(_wn.config.database_path)
                        dumps[suffix] = con.execute('SELECT id, status_rowid, definition FROM ilis ORDER BY id').fetchall()
                        con.close()
                    except Exception as exc:   # noqa: BLE001
                        dumps[suffix] = f'{type(exc).__name__}: {exc}'
                if len(dumps['']) != n_rows or any(v != dumps[''] for v in dumps.values()):
                    bad.append({'rows': n_rows, 'routes': {k: (len(v) if isinstance(v, list) else v)
                                                            for k, v in dumps.items()}})
        finally:
            _wn.config.data_directory = old
    finally:
        import shutil
        shutil.rmtree(tmp, ignore_errors=True)
    sess.add_bounded('wn._ili.load / is_ili', '7 header variants (case, missing/extra columns) x 7 row sets (incl. quote characters) x 2 line '
                     'endings; 5 signature cases', cases, 'generated files', not bad)
    if bad:
        sess.violation_direct('wn._ili.load:columns', 'the index file is not read column by column (header names '
                              'lower-cased, rows zipped with the header)', {'witness': repr(bad[0])[:1500]}, True,
                              functions=('wn._ili.load',))


def run(sess: Session):
    sess.assume('A-SQLITE', 'A-TXN', 'A-ENGINE')
    sess.trust('SQLite upsert: ON CONFLICT(id) DO UPDATE keeps the existing row (rowid, other columns) and assigns the '
               'listed columns from the excluded row', 'vc/pyvc, vc/sqlvc')
    for part, fn in (('add_ili', add_ili_obligations), ('lemmas', lemmas)):
        try:
            for ob in fn():
                sess.check(ob)
        except Unsupported as exc:
            sess.unsupported(f'C19:{part}', str(exc))
    addchecks.run_row_images(sess, PROP, only={'_insert_synsets'})
    querychecks.run_result_checks(sess, PROP, {'_find_existing_ilis', 'find_proposed_ilis'})
    coreflows.run_flows(sess, PROP, {'Synset_ili', 'ILI_metadata', 'Wordnet_ili', 'Wordnet_ilis'})
    # typestate of _add_ili (one transaction) is C06's obligation; repeated here for the frame
    world = World()
    contracts = c06.stub_contracts(world)
    src = SV('obj', z3.Const('ilifile', __import__('vc.pyvc.values', fromlist=['Obj']).Obj))
    for o in explore(lambda it: it.call(A._add_ili, [src, addmodel.Progress()], {}), contracts=contracts):
        for ob in c06.typestate_obligations('wn._add._add_ili', o, A._add_ili):
            ob.prop = PROP
            sess.check(ob)
    bounded_files(sess)
