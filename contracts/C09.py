"""C09 - word-form search follows the documented exact / normalized / lemmatized procedure.

  helper      wn._core._find_helper against the documented procedure (docs/guides/lemmatization.rst) for every
              combination of entity class x form given x lemmatizer {none, proposes nothing, proposes generic
              (pos, forms) entries} x normalizer {none, given}: same query calls (forms, pos, normalized flag,
              scope, search_all_forms), pass 2 only if pass 1 found nothing, order-preserving de-duplication   pyvc
  queries     find_entries / find_senses / find_synsets return exactly the entities having a form f with
              (f.form in Q or (normalized and f.normalized_form in Q)) and (search_all_forms or f.rank = 0),
              pos and scope honoured                                                                       sqlvc
  storage     _insert_forms stores normalized_form = NULL iff normalize(form) == form (row image)        pyvc+sqlvc
  lemma       with that storage rule the SQL condition is equivalent to  f = q or normalize(f) = q           z3
  bounded     the de-duplication idiom summarised by the engine (A-DEDUP) executed natively on all short lists
"""
from __future__ import annotations

import z3

import wn._core as core
from vc.core import Obligation, Session, Unsupported
from vc.pyvc.values import UStr
from contracts import coreflows, querychecks, addchecks

PROP = 'C09'


def storage_lemma() -> list:
    form, q = z3.Consts('form q', UStr)
    nf = z3.Const('normalized_form', UStr)
    nf_null = z3.Bool('normalized_form.null')
    normalized = z3.Bool('normalized')
    norm = z3.Function('normalize_form', UStr, UStr)
    # storage rule (proved as row image of _insert_forms)
    rule = [nf_null == (norm(form) == form), z3.Implies(z3.Not(nf_null), nf == norm(form))]
    sql = z3.Or(form == q, z3.And(normalized, z3.Not(nf_null), nf == q))
    doc = z3.Or(form == q, z3.And(normalized, norm(form) == q))
    return [Obligation('wn._queries.find_*:form-condition:lemma', PROP, 'lemma', rule, sql == doc,
                       detail='(form = q OR normalized_form = q) <=> (form = q or normalize(form) = q) under the '
                              'storage rule normalized_form IS NULL <=> normalize(form) = form',
                       functions=('wn._add._insert_forms', 'wn._queries.find_entries'))]


def dedup_bounded(sess: Session):
    """A-DEDUP: execute the real de-duplication code of _find_helper natively on all lists over 3 values, len <= 5.
    The code is located on the AST: the last top-level `for` loop of _find_helper over the collected results (with
    the accumulators initialised just before it), or the module-level helper that _find_helper's final `return`
    hands the results to."""
    import ast, inspect, textwrap, itertools
    src = textwrap.dedent(inspect.getsource(core._find_helper))
    fn = ast.parse(src).body[0]
    runner = None
    last = fn.body[-1]
    if isinstance(last, ast.Return) and isinstance(last.value, ast.Call) and isinstance(last.value.func, ast.Name) \
            and len(last.value.args) == 1 and hasattr(core, last.value.func.id):
        helper = getattr(core, last.value.func.id)
        runner = lambda xs: helper(list(xs))
        where = f'wn._core.{last.value.func.id}'
    else:
        loops = [k for k, n in enumerate(fn.body) if isinstance(n, ast.For)]
        if loops and isinstance(last, ast.Return) and isinstance(last.value, ast.Name):
            k = loops[-1]
            loop = fn.body[k]
            inits = []
            for st in fn.body[:k][::-1]:
                if isinstance(st, (ast.Assign, ast.AnnAssign)) and st.value is not None and (
                        isinstance(st.value, (ast.List, ast.Set, ast.Dict)) or
                        (isinstance(st.value, ast.Call) and isinstance(st.value.func, ast.Name) and
                         st.value.func.id in ('set', 'list', 'dict'))):
                    inits.insert(0, st)
                else:
                    break
            if isinstance(loop.iter, ast.Name) and inits:
                mod = ast.Module(body=inits + [loop], type_ignores=[])
                code = compile(ast.fix_missing_locations(mod), '<_find_helper loop>', 'exec')
                src_name, out_name = loop.iter.id, last.value.id

                def runner(xs, code=code, src_name=src_name, out_name=out_name):
                    env = {src_name: list(xs)}
                    exec(code, env)
                    return env[out_name]
                where = 'wn._core._find_helper (final loop)'
    if runner is None:
        raise Unsupported('C09: the de-duplication code of _find_helper was not recognised')
    cases, bad = 0, []
    for n in range(6):
        for xs in itertools.product('abc', repeat=n):
            cases += 1
            got = runner(xs)
            want = list(dict.fromkeys(xs))
            if list(got) != want:
                bad.append({'results': xs, 'got': got, 'want': want})
    sess.add_bounded(f'{where} (de-duplication)', 'all lists over 3 values, length <= 5', cases,
                     'native execution of the located code', not bad)
    if bad:
        sess.violation_direct('wn._core._find_helper:dedup', 'results are not de-duplicated in first-occurrence order',
                              {'witness': bad[0]}, True, functions=('wn._core._find_helper',))


def run(sess: Session):
    sess.assume('A-SQLITE', 'A-UNI', 'A-ENGINE', 'A-DEDUP')
    sess.trust('vc/pyvc, vc/sqlvc', 'normalize_form / the lemmatizer are uninterpreted functions (A-UNI)')
    try:
        for ob in coreflows.find_helper_obligations(PROP):
            sess.check(ob)
    except Unsupported as exc:
        sess.unsupported('wn._core._find_helper:flow', str(exc))
    coreflows.run_flows(sess, PROP, {'Wordnet_word', 'Wordnet_synset', 'Wordnet_sense'})
    querychecks.run_result_checks(sess, PROP, {'find_entries', 'find_senses', 'find_synsets'})
    for ob in storage_lemma():
        sess.check(ob)
    # storage rule: row image of _insert_forms (and the other inserts it depends on)
    from vc.pyvc.dbmodel import World
    world = World()
    res, outs = addchecks.explore_checked(world)
    for out in outs:
        for ev in out.effects:
            if ev.kind == 'contract' and ev.extra['fn'] == '_insert_forms':
                for ob in addchecks.contract_obligations(world, PROP, out, ev):
                    sess.check(ob)
    try:
        dedup_bounded(sess)
    except Unsupported as exc:
        sess.unsupported('wn._core._find_helper:dedup', str(exc))
