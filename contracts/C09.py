"""C09 - word-form search follows the documented exact / normalized / lemmatized procedure.

  helper      wn._core._find_helper against the documented procedure (docs/guides/lemmatization.rst) for every
              combination of entity class x form given x lemmatizer {none, proposes nothing, proposes generic
              (pos, forms) entries} x normalizer {none, given}: same query calls (forms, pos, normalized flag,
              scope, search_all_forms), pass 2 only if pass 1 found nothing, order-preserving de-duplication   pyvc
  queries     find_entries / find_senses / find_synsets return exactly the entities having a form f with
              (f.form in Q or (normalized and f.normalized_form in Q)) and (search_all_forms or f.rank = 0),
              pos and scope honoured                                                                       sqlvc
  storage     _insert_forms stores normalized_form = NULL iff normalize(form) == form (row image)        pyvc+sqlvc
  lemma       with that storage rule the SQL condition is equivalent to  f = q or normalize(f) = q           z3
  bounded     the de-duplication idiom summarised by the engine (A-DEDUP) executed natively on all short lists
"""
from __future__ import annotations

import z3

import wn._core as core
from vc.core import Obligation, Session, Unsupported
from vc.pyvc.values import UStr
from contracts import coreflows, querychecks, addchecks

PROP = 'C09'


def storage_lemma() -> list:
    form, q = z3.Consts('form q', UStr)
    nf = z3.Const('normalized_form', UStr)
    nf_null = z3.Bool('normalized_form.null')
    normalized = z3.Bool('normalized')
    norm = z3.Function('normalize_form', UStr, UStr)
    # storage rule (proved as row image of _insert_forms)
    rule = [nf_null == (norm(form) == form), z3.Implies(z3.Not(nf_null), nf == norm(form))]
    sql = z3.Or(form == q, z3.And(normalized, z3.Not(nf_null), nf == q))
    doc = z3.Or(form == q, z3.And(normalized, norm(form) == q))
    return [Obligation('wn._queries.find_*:form-condition:lemma', PROP, 'lemma', rule, sql == doc,
                       detail='(form = q OR normalized_form = q) <=> (form = q or normalize(form) = q) under the '
                              'storage rule normalized_form IS NULL <=> normalize(form) = form',
                       functions=('wn._add._insert_forms', 'wn._queries.find_entries'))]


def dedup_bounded(sess: Session):
    """A-DEDUP: the real _find_helper executed natively with stub collaborators (a wordnet object holding a lemmatizer
    that proposes several (pos, forms) groups, a query function returning prepared rows, a result class): for all
    small configurations the result is the concatenation of the query results in group order without repetitions,
    first occurrence kept."""
    import itertools

    class Ent:
        def __init__(self, key, _wordnet=None):
            self.key = key

        def __eq__(self, other):
            return isinstance(other, Ent) and self.key == other.key

        def __hash__(self):
            return hash(self.key)

    class W:
        def __init__(self, groups):
            self._lexicon_ids = (1,)
            self._search_all_forms = True
            self._normalizer = None
            self.lemmatizer = (lambda form, pos: groups) if groups else None

    cases, bad = 0, []
    universe = 'abc'
    # two lemmatizer groups, each finding 0..3 entities out of {a, b, c} in some order (non-adjacent repeats included)
    seqs = [p for n in range(4) for p in itertools.permutations(universe, n)]
    for r1 in seqs:
        for r2 in seqs:
            groups = {'n': {'x'}, 'v': {'y'}}
            rows = {'n': [(k,) for k in r1], 'v': [(k,) for k in r2]}

            def query(pos=None, forms=None, rows=rows, **kw):
                return list(rows.get(pos, []))
            try:
                got = [e.key for e in core._find_helper(W(groups), Ent, query, 'q', None)]
            except Exception as exc:   # noqa: BLE001
                raise Unsupported(f'C09: _find_helper could not be run with stub collaborators: '
                                  f'{type(exc).__name__}: {exc}')
            cases += 1
            want = list(dict.fromkeys(list(r1) + list(r2)))
            if got != want:
                bad.append({'group results': [r1, r2], 'got': got, 'want': want})
    # a lemmatizer that proposes parts of speech without any form proposes no (pos, form) pair: the query itself is
    # searched (the query function must never be asked with an empty form collection, which means "no form filter")
    for groups in ({'n': set()}, {'n': set(), 'v': []}, {'n': set(), 'v': {'y'}}):
        asked = []

        def query(pos=None, forms=None, asked=asked, **kw):
            asked.append((pos, sorted(forms) if forms is not None else None))
            return []
        try:
            core._find_helper(W(groups), Ent, query, 'q', 'a')
        except Exception as exc:   # noqa: BLE001
            raise Unsupported(f'C09: _find_helper could not be run with stub collaborators: {type(exc).__name__}: {exc}')
        cases += 1
        want = [(p, sorted(f)) for p, f in groups.items() if f] or [('a', ['q'])]
        if asked != want:
            bad.append({'lemmatizer proposes': repr(groups), 'queries made': asked, 'expected': want})
    sess.add_bounded('wn._core._find_helper (union over lemmatizer groups without duplicates)',
                     'two (pos, forms) groups x all ordered selections of <= 3 entities each', cases,
                     'native execution of the real function with stub wordnet/query/result class', not bad)
    if bad:
        sess.violation_direct('wn._core._find_helper:dedup', 'the union over the proposed (pos, form) pairs contains '
                              'duplicates or loses the first-occurrence order',
                              {'witness': bad[0]}, True, functions=('wn._core._find_helper',))


def normalize_bounded(sess: Session):
    """The default normalizer (used when forms are stored and when a query is normalised): lower-case, NFKD,
    combining marks dropped - nothing more (so that only case / diacritic variants are identified)."""
    import unicodedata
    from wn._util import normalize_form
    samples = ['Straße', 'STRASSE', 'Maße', 'Masse', 'ÅNGSTRÖM', 'ǅ', 'ﬁn', 'İstanbul', 'ΣΊΣΥΦΟΣ', 'σίσυφος', 'ς',
               'résumé', 'RÉSUMÉ', 'naïve', 'São Paulo', 'ａｂｃ', '①', 'I', 'ı', 'ǆ', 'ß', 'ẞ', 'ŉ', 'multi word Form',
               'x\u0301', '東京', 'Ünïcödé', '',
               # marks that are not diacritics (combining class 0): Devanagari / Thai vowel signs stay
               'कुल', 'कल', 'अंत', 'กิน', 'กัน']
    # ... and every single code point (surrogates aside), alone and after a base letter
    samples += [chr(c) for c in range(0x110000) if not 0xD800 <= c <= 0xDFFF]
    samples += ['a' + chr(c) for c in range(0x300, 0x3100)]
    bad = []
    for s_ in samples:
        want = ''.join(c for c in unicodedata.normalize('NFKD', s_.lower()) if not unicodedata.combining(c))
        got = normalize_form(s_)
        if got != want:
            bad.append({'form': s_, 'got': got, 'documented': want})
    sess.add_bounded('wn._util.normalize_form', f'{len(samples)} forms (case, diacritics, special case foldings, '
                     'compatibility characters, non-Latin; every single code point, a + every code point of U+0300..U+30FF)', len(samples), 'comparison with the documented '
                     'definition', not bad)
    if bad:
        sess.violation_direct('wn._util.normalize_form:definition', 'forms that differ by more than case/diacritics are '
                              'identified (or variants are not)', {'witness': bad[:3]}, True,
                              functions=('wn._util.normalize_form',))


def run(sess: Session):
    sess.assume('A-SQLITE', 'A-UNI', 'A-ENGINE', 'A-DEDUP')
    sess.trust('vc/pyvc, vc/sqlvc', 'normalize_form / the lemmatizer are uninterpreted functions (A-UNI)')
    try:
        for ob in coreflows.find_helper_obligations(PROP):
            sess.check(ob)
    except Unsupported as exc:
        sess.unsupported('wn._core._find_helper:flow', str(exc))
    coreflows.run_flows(sess, PROP, {'Wordnet_word', 'Wordnet_synset', 'Wordnet_sense'})
    querychecks.run_result_checks(sess, PROP, {'find_entries', 'find_senses', 'find_synsets'})
    for ob in storage_lemma():
        sess.check(ob)
    # storage rule: row image of _insert_forms (and the other inserts it depends on)
    from vc.pyvc.dbmodel import World
    world = World()
    res, outs = addchecks.explore_checked(world)
    for out in outs:
        for ev in out.effects:
            if ev.kind == 'contract' and ev.extra['fn'] == '_insert_forms':
                for ob in addchecks.contract_obligations(world, PROP, out, ev):
                    sess.check(ob)
    try:
        dedup_bounded(sess)
    except Unsupported as exc:
        sess.unsupported('wn._core._find_helper:dedup', str(exc))
    normalize_bounded(sess)
