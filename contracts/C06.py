"""C06 - a failed add or remove leaves the database exactly as it was.

Ghost transaction state over the effect log of the symbolically executed real functions (every path = every
argument shape; loops over lexicons/entries/... are generic iterations, so the log covers any number of them):

  txn:writes-inside      every INSERT/UPDATE/DELETE is executed between `with conn:` enter and exit of ONE
                         connection (A-TXN: exit on exception = rollback, on normal exit = commit)
  txn:no-commit          no commit / rollback / executescript / close / second connection inside the operation
  txn:single-block       all writes of one add (resp. of the removal of one lexicon with its extensions) are in
                         one and the same `with conn:` block
  txn:callbacks          every call into caller-supplied code (progress handler) happens before the first write
                         or inside the transaction - so an exception raised there rolls everything back
  txn:no-swallow         no `except` clause on the call path swallows an exception (static scan of the real
                         functions' ASTs)
  frame:no-write-before  _add_lmf / add_lexical_resource / _precheck perform no write outside
                         _add_lexical_resource (rejection of a malformed file happens before any write)
"""
from __future__ import annotations

import ast
import inspect
import textwrap

import z3

import wn
import wn._add as A
import wn.lmf as lmf
import wn._ili as _ili
import wn.project
from vc.core import Obligation, Session, Unsupported
from vc.pyvc.values import SV, SObj, SRec, SList, mk, fresh_name, UStr
from vc.pyvc.interp import explore, Event, SymMethod, AbstractFn, MList, source_span
from vc.pyvc.dbmodel import World
from vc.pyvc import shapes
from vc.sqlvc import parse as P
from contracts import addmodel
from contracts.common import path_id

PROP = 'C06'
WRITE = (P.Insert, P.Update, P.Delete)


def is_write(ev: Event) -> bool:
    return ev.kind in ('execute', 'executemany') and (isinstance(ev.extra.get('stmt'), WRITE)
                                                      or ev.extra.get('leading_with'))


def typestate_obligations(name: str, out, fn, single_block: bool = True, known_close: bool = False,
                          multi=None) -> list:
    """Obligations over one path's effect log."""
    pid = path_id(out)
    depth = 0
    blocks = 0
    first_write_seen = False
    bad_outside, bad_events, callbacks_after = [], [], []
    conns = set()
    write_blocks = set()
    loop_of_block = {}
    for ev in out.effects:
        if ev.kind == 'connect':
            conns.add(id(ev.obj))
        elif ev.kind == 'enter_txn':
            depth += 1
            blocks += 1
            loop_of_block[blocks] = tuple(id(b.var) for b in ev.binders)
        elif ev.kind == 'exit_txn':
            if depth > 1:
                # `with conn:` blocks do not nest: leaving the inner one commits (or rolls back) the whole
                # transaction of the connection, including what the enclosing block has written so far
                bad_events.append('commit by the exit of a nested `with conn` block')
            depth -= 1
        elif ev.kind in ('commit', 'rollback', 'executescript', 'close'):
            bad_events.append(ev.kind)
        elif is_write(ev):
            first_write_seen = True
            if ev.extra.get('leading_with'):
                # Python's sqlite3 (default isolation_level) opens the implicit transaction only before statements
                # that START with INSERT / UPDATE / DELETE / REPLACE: a CTE-prefixed write runs in autocommit mode
                # and is committed at once, `with conn:` notwithstanding (A-TXN does not cover it)
                bad_events.append('write statement starting with WITH: no implicit BEGIN, committed immediately')
            if depth != 1:
                bad_outside.append(_sql(ev))
            write_blocks.add(blocks)
        elif ev.kind == 'progress':
            if first_write_seen and depth == 0:
                callbacks_after.append(ev.extra['method'])
    common = dict(prop=PROP, kind='effect', functions=(name,), source=source_span(fn),
                  assumptions_used=('A-TXN',))
    obs = [
        Obligation(f'{name}:txn:writes-inside:{pid}', decided=not bad_outside,
                   detail=f'writes outside a transaction block: {bad_outside}' if bad_outside else
                   'every write is inside `with conn:`', **common),
        Obligation(f'{name}:txn:no-commit:{pid}', decided=not bad_events and len(conns) <= 1,
                   detail=f'events {bad_events}, {len(conns)} connections' if bad_events or len(conns) > 1 else
                   'no commit/rollback/executescript/close, one connection', **common),
    ]
    if single_block:
        # all writes belong to the same `with` block; when the block is inside a loop (remove), to one block
        # per iteration: the block's position in the log is the same
        ok = len(write_blocks) <= 1
        obs.append(Obligation(f'{name}:txn:single-block:{pid}', decided=ok, finding=multi,
                              detail=f'writes spread over {len(write_blocks)} transaction blocks' if not ok else
                              'one transaction block', **common))
    ok = not callbacks_after
    obs.append(Obligation(f'{name}:txn:callbacks:{pid}', decided=ok,
                          finding='K11' if known_close and set(callbacks_after) <= {'close'} else multi,
                          detail=f'progress.{callbacks_after} is called after the transaction has committed: an '
                                 f'exception raised there makes the call fail although the data stays' if not ok
                          else 'every progress callback precedes the first write or is inside the transaction',
                          **common))
    return obs


def _sql(ev):
    return ''.join(p if isinstance(p, str) else '<params>' for p in (ev.sql or []))[:60].strip()


def swallow_scan(fns) -> list:
    """except-clauses that do not re-raise, in the given functions."""
    bad = []
    for fn in fns:
        tree = ast.parse(textwrap.dedent(inspect.getsource(fn)))
        for node in ast.walk(tree):
            if isinstance(node, ast.Try):
                for h in node.handlers:
                    last = h.body[-1] if h.body else None
                    reraises = isinstance(last, ast.Raise)
                    if not reraises:
                        bad.append(f'{fn.__module__}.{fn.__qualname__}: except at line {h.lineno}')
    return bad


class Pkg(SObj):
    def __init__(self, k):
        super().__init__(wn.project.Package, name=f'pkg{k}')
        self.attrs['type'] = mk('str', f'pkg{k}.type', optional=True)

    def vc_getattr(self, it, name, node):
        if name == 'resource_file':
            return SymMethod(lambda i, a, kw, n: SV('obj', z3.Const(self.name + '.file', __import__(
                'vc.pyvc.values', fromlist=['Obj']).Obj)), 'resource_file')
        return NotImplemented


def stub_contracts(world: World) -> dict:
    c = world.contracts()
    c[A._batch] = addmodel.batch_contract
    c[A._sum_counts] = lambda it, a, k, n: SV('int', z3.Int(fresh_name('sum_counts')))
    c[A._collect_frames] = addmodel.collect_frames_contract
    import wn._util
    spec_f = z3.Function('specifier', UStr, UStr, UStr)
    c[wn._util.format_lexicon_specifier] = lambda it, a, k, n: SV('str', spec_f(a[0].z, a[1].z))
    norm_f = z3.Function('normalize_form', UStr, UStr)
    c[wn._util.normalize_form] = lambda it, a, k, n: SV('str', norm_f(a[0].z))
    # file-level functions: read-only by contract (they open files for reading only - C07), results abstract
    c[lmf.scan_lexicons] = lambda it, a, k, n: SList('scaninfo', lambda p, idx: shapes.sym_record(
        [lmf.ScanInfo], p, tuple(idx)))
    c[lmf.load] = lambda it, a, k, n: addmodel.resource('loaded')
    c[_ili.load] = lambda it, a, k, n: SList('ili_rows', lambda p, idx: ili_record(p, idx))
    c[wn.project.iterpackages] = lambda it, a, k, n: MList([Pkg(1)])
    # remove(): the lexicons matched by the specifier (C08 decides which) and their extensions, abstractly
    import wn._queries as Q
    from contracts.coreflows import Stubs
    st = Stubs()
    c[Q.find_lexicons] = st.make_handler('find_lexicons', Q.find_lexicons)
    c[Q.get_lexicon_extensions] = st.make_handler('get_lexicon_extensions', Q.get_lexicon_extensions)
    c[Q.get_lexicon] = lambda it, a, k, n: tuple(
        SV('int' if j == 0 else 'str', z3.Function(f'get_lexicon.{j}', z3.IntSort(),
                                                   z3.IntSort() if j == 0 else UStr)(a[0].z)) for j in range(10))
    return c


def ili_record(path, idx):
    r = SRec(path)
    from vc.pyvc.values import Slot, SORTS
    for key, req in (('ili', True), ('status', False), ('definition', False)):
        f = z3.Function(f'{path}.{key}', *[i.sort() for i in idx], UStr)
        pres = True if req else z3.Function(f'{path}.{key}.present', *[i.sort() for i in idx], z3.BoolSort())(*idx)
        r.slots[key] = Slot(pres, SV('str', f(*idx)))
    return r


def progress_class():
    """progress_handler argument: a class whose instances are the caller's handlers."""
    def make(it, args, kwargs, node):
        p = addmodel.Progress()
        it.ctx.effects.append(Event('progress', node=node, extra={'method': '__init__'}, pc_len=len(it.ctx.pc)))
        return p
    return AbstractFn('progress_handler', make)


def run(sess: Session):
    sess.assume('A-TXN', 'A-SQLITE', 'A-ENGINE')
    sess.trust('sqlite3 legacy transaction control: `with conn` commits on normal exit and rolls back on '
               'exception; implicit BEGIN before INSERT/UPDATE/DELETE; statements are atomic (A-TXN)',
               'vc/pyvc symbolic execution (A-ENGINE)')
    world = World()
    contracts = stub_contracts(world)

    def go(name, fn, args, kwargs, **kw):
        try:
            outs = explore(lambda it: it.call(fn, list(args), dict(kwargs)), contracts=dict(contracts))
        except Unsupported as exc:
            sess.unsupported(f'{name}:txn', str(exc), 'effect')
            return []
        for o in outs:
            for ob in typestate_obligations(name, o, fn, **kw):
                sess.check(ob)
        return outs

    # 1. the core: one resource, any number of lexicons
    res = addmodel.resource()
    outs = go('wn._add._add_lexical_resource', A._add_lexical_resource,
              [res, addmodel.SkipMap(), addmodel.Progress()], {})
    # A-TXN presupposes a rollback journal: no PRAGMA may switch it off (journal_mode OFF makes ROLLBACK undefined)
    for o in outs:
        for e in o.effects:
            st = e.extra.get('stmt') if e.extra else None
            if isinstance(st, P.Pragma) and str(st.name).lower() == 'journal_mode':
                val = str(st.value).strip('\'"').upper()
                sess.check(Obligation(f'wn._add._add_lexical_resource:txn:journal_mode:{path_id(o)}', PROP, 'sql',
                                      decided=val in ('MEMORY', 'DELETE', 'TRUNCATE', 'PERSIST', 'WAL'),
                                      detail=f'PRAGMA journal_mode = {val}: a rollback journal must exist for the '
                                             'transaction to be undone',
                                      functions=('wn._add._add_lexical_resource',),
                                      source=source_span(A._add_lexical_resource)))
    # 2. public entry points (callbacks after the commit are reported here)
    src = SV('obj', z3.Const('source', __import__('vc.pyvc.values', fromlist=['Obj']).Obj))
    go('wn._add.add', A.add, [src, progress_class()], {}, known_close=True)
    # a source holding several packages (collection): recorded finding K12 - one transaction per package
    contracts[wn.project.iterpackages] = lambda it, a, k, n: MList([Pkg(1), Pkg(2)])
    go('wn._add.add[two packages]', A.add, [src, progress_class()], {}, known_close=True, multi='K12')
    contracts[wn.project.iterpackages] = lambda it, a, k, n: MList([Pkg(1)])
    go('wn._add.add_lexical_resource', A.add_lexical_resource, [addmodel.resource('inmem'), progress_class()], {},
       known_close=True)
    # 3. ILI files
    go('wn._add._add_ili', A._add_ili, [SV('obj', z3.Const('ilifile', __import__(
        'vc.pyvc.values', fromlist=['Obj']).Obj)), addmodel.Progress()], {})
    # 4. remove: per matched lexicon one block containing the deletes of its extensions and of itself
    go('wn._add.remove', A.remove, [mk('str', 'lexicon'), progress_class()], {}, known_close=True)
    # 5. nothing on the path swallows an exception
    fns = [A.add, A._add_lmf, A.add_lexical_resource, A._add_lexical_resource, A._precheck, A._add_ili, A.remove,
           A._insert_lexicon, A._insert_synsets, A._insert_entries, A._insert_forms, A._insert_senses,
           A._insert_sense_relations, A._insert_synset_relations, A._insert_examples, A._update_lookup_tables]
    bad = swallow_scan(fns)
    sess.check(Obligation('wn._add:txn:no-swallow', PROP, 'static', decided=not bad,
                          detail='; '.join(bad) or 'no except clause without re-raise on the add/remove paths',
                          functions=tuple(f'{f.__module__}.{f.__qualname__}' for f in fns)))
