"""C10 - navigation between words, senses and synsets is referentially faithful.

  identity     __eq__/__hash__/__lt__ of the entity classes: same stored row <=> equal, equal => same hash     pyvc
  flows        Sense.word/synset, Word.senses/synsets/derived_words, Synset.senses/words/lemmas/translate,
               Sense.translate, Wordnet.word/synset/sense: prescribed query calls and result construction      pyvc
  queries      get_entry_senses / get_synset_members / find_entries / find_synsets / find_senses return exactly
               the specified families in the specified order                                                   sqlvc
  referential  lemmas over the proved query contracts: sense.word() denotes senses.entry_rowid, sense.synset()
               denotes senses.synset_rowid; the sense is in word.senses() / synset.senses(); translate() =
               exactly the synsets of the target sharing the ILI, none for absent/proposed ILI; symmetry         z3
"""
from __future__ import annotations

import z3

import wn._core as core
import wn._queries as Q
from vc.core import Obligation, Session, Unsupported
from vc.pyvc.values import SV, SObj, SList, mk, z_and, z_or, z_not, z_bool, LITS
from vc.pyvc.interp import explore, source_span
from vc.pyvc.dbmodel import World
from vc.pyvc import famcmp
from vc.pyvc.symbols import scalar_list
from vc.sqlvc.schema import load_schema
from vc.sqlvc.encode import DB, seq_has
from contracts import coreflows, querychecks, spec_queries as SQ
from contracts.common import lit_axioms

PROP = 'C10'

FLOWS = {'Sense__iter_sense_synset_relations', 'Sense__iter_sense_relations', 'Sense_word', 'Sense_synset', 'Word_senses', 'Word_synsets', 'Word_derived_words', 'Synset_senses',
         'Synset_words', 'Synset_lemmas', 'Synset_translate', 'Sense_translate', 'Word_translate', 'Wordnet_word', 'Wordnet_synset',
         'Wordnet_sense'}
QUERIES = {'get_entry_senses', 'get_synset_members', 'find_entries', 'find_synsets', 'find_senses'}


# ---------------------------------------------------------------------------------------------
# identity

def entity(cls, name, w):
    o = coreflows.make_self(cls, w, name)
    return o


def identity_obligations() -> list:
    from vc.pyvc.builtins_sym import HashVal
    obs = []
    w = coreflows.make_wordnet('W')

    def run(fn):
        return explore(fn, contracts={}, packages=('wn',))
    for cls in (core.Word, core.Sense, core.Synset, core.Lexicon, core.ILI):
        a, b = entity(cls, 'a', w), entity(cls, 'b', w)
        name = f'wn._core.{cls.__name__}'
        common = dict(prop=PROP, kind='post', functions=(name + '.__eq__', name + '.__hash__'),
                      source=source_span(core._DatabaseEntity.__eq__))
        same_row = a.attrs['_id'].z == b.attrs['_id'].z
        if cls is core.ILI:
            # an ILI object denotes a row of `ilis` (id given) or of `proposed_ilis` (id None): two tables, two
            # rowid sequences - the same stored entity means the same table and the same rowid
            same_row = z3.And(same_row, a.attrs['id'].none == b.attrs['id'].none)
        # construction invariant (from the query contracts): the attributes are functions of the rowid
        inv = []
        for k in a.attrs:
            if k in ('_id', '_wordnet') or not isinstance(a.attrs[k], SV):
                continue
            x, y = a.attrs[k], b.attrs[k]
            e = x.z == y.z
            if x.none is not None:
                e = z3.And(x.none == y.none, z3.Implies(z3.Not(x.none), e))
            inv.append(z3.Implies(same_row, e))
        stored = [a.attrs['_id'].z != 0, b.attrs['_id'].z != 0]
        for o in run(lambda it: it.truth(it.compare(__import__('ast').Eq(), a, b))):
            t = o.value
            obs.append(Obligation(f'{name}.__eq__:same-row-iff-equal', assumptions=list(o.pc) + stored,
                                  goal=z_bool(t) == same_row,
                                  detail='two objects of the class are equal iff they denote the same row', **common))
        # hash consistency
        from vc.pyvc.builtins_sym import b_hash
        outs = run(lambda it: (b_hash(it, [a], {}, None), b_hash(it, [b], {}, None)))
        for o in outs:
            ha, hb = o.value
            if not (isinstance(ha, HashVal) and isinstance(hb, HashVal)) or len(ha.comps) != len(hb.comps):
                obs.append(Obligation(f'{name}.__hash__:consistent', decided=False,
                                      detail='hash is not a function of a tuple of attributes', **common))
                continue
            eqs = z_and(*[z_bool(famcmp.value_eq(x, y)) for x, y in zip(ha.comps, hb.comps)])
            obs.append(Obligation(f'{name}.__hash__:consistent', assumptions=list(o.pc) + stored + inv + [same_row],
                                  goal=eqs, detail='equal objects hash alike (hash components are functions of the '
                                                   'row)', **common))
        # different classes are never equal
    a, b = entity(core.Sense, 'a', w), entity(core.Synset, 'b', w)
    for o in run(lambda it: it.truth(it.compare(__import__('ast').Eq(), a, b))):
        obs.append(Obligation('wn._core._DatabaseEntity.__eq__:different-kinds-unequal', PROP, 'post',
                              assumptions=list(o.pc) + [a.attrs['_id'].z == b.attrs['_id'].z],
                              goal=z_not(z_bool(o.value)), detail='a sense and a synset with the same rowid are '
                              'different entities', functions=('wn._core._DatabaseEntity.__eq__',)))
    # Relation identity: (name, source, target, lexicon, dc:type)
    ra, rb = SObj(core.Relation, name='ra'), SObj(core.Relation, name='rb')
    for r, n in ((ra, 'ra'), (rb, 'rb')):
        for k in ('name', 'source_id', 'target_id', '_lexicon'):
            r.attrs[k] = mk('str', f'{n}.{k}')
        r.attrs['_metadata'] = RelMeta(n)
    for o in run(lambda it: it.truth(it.compare(__import__('ast').Eq(), ra, rb))):
        want = z_and(*[ra.attrs[k].z == rb.attrs[k].z for k in ('name', 'source_id', 'target_id', '_lexicon')],
                     z_bool(famcmp.value_eq(ra.attrs['_metadata'].subtype, rb.attrs['_metadata'].subtype)))
        obs.append(Obligation('wn._core.Relation.__eq__:identity', PROP, 'post', assumptions=list(o.pc),
                              goal=z_bool(o.value) == want,
                              detail='relations are equal iff name, source, target, lexicon and dc:type agree',
                              functions=('wn._core.Relation.__eq__', 'wn._core.Relation.subtype')))
    return obs


class RelMeta(SObj):
    """Relation._metadata: only .get('type') is used by identity."""

    def __init__(self, n):
        super().__init__(type('Metadata', (), {}), name=n + '._metadata')
        self.subtype = mk('str', n + '.dc_type', optional=True)

    def vc_getattr(self, it, name, node):
        from vc.pyvc.interp import SymMethod
        if name == 'get':
            def get(i, a, k, nd):
                if a and a[0] == 'type':
                    return self.subtype
                raise Unsupported('metadata key other than type')
            return SymMethod(get, 'get')
        return NotImplemented


# ---------------------------------------------------------------------------------------------
# referential lemmas over the query contracts

def referential_obligations(schema) -> list:
    db = DB(schema)
    obs = []
    S = scalar_list('S', 'int')
    in_s = seq_has(S, 'int')
    s = z3.Int('s')        # a stored sense row, obtained from the Wordnet (so owned by the scope: C04)
    fk = db.fk_axioms({'senses', 'entries', 'synsets', 'lexicons', 'ilis', 'lexfiles'})
    base = fk + [db.in_('senses')(s), in_s(db.col('senses', 'lexicon_rowid')(s)), S.length > 0] + lit_axioms()
    for what, table, fkcol, finding in (('word', 'entries', 'entry_rowid', 'K2'), ('synset', 'synsets', 'synset_rowid', 'K2')):
        target = db.col('senses', fkcol)(s)
        ident = db.col(table, 'id')(target)
        r = z3.Int('r')        # what Wordnet.word(id) returns: the first (least rowid) row with that id in scope
        cand = lambda x: z3.And(db.in_(table)(x), db.col(table, 'id')(x) == ident,
                                in_s(db.col(table, 'lexicon_rowid')(x)))
        x = z3.Int('x')
        first = z3.And(cand(r), z3.ForAll([x], z3.Implies(cand(x), r <= x)))
        uniq = z3.ForAll([x, r], z3.Implies(z3.And(
            db.in_(table)(x), db.in_(table)(r), db.col(table, 'id')(x) == db.col(table, 'id')(r),
            in_s(db.col(table, 'lexicon_rowid')(x)), in_s(db.col(table, 'lexicon_rowid')(r))), x == r))
        obs.append(Obligation(
            f'wn._core.Sense.{what}:referential', PROP, 'lemma', assumptions=base + [first], goal=r == target,
            finding=finding, restricted=[uniq, in_s(db.col(table, 'lexicon_rowid')(target))],
            detail=f'sense.{what}() (first {table} row with the sense\'s {what} id in the scope, by the contracts of '
                   f'Wordnet.{what} and find_{"entries" if what == "word" else "synsets"}) is the row senses.{fkcol} '
                   f'refers to', functions=(f'wn._core.Sense.{what}', f'wn._core.Wordnet.{what}'),
            model_vars=[s, r, target]))
        # found whenever the referenced row is in scope
        obs.append(Obligation(
            f'wn._core.Sense.{what}:found', PROP, 'lemma',
            assumptions=base + [in_s(db.col(table, 'lexicon_rowid')(target))],
            goal=z3.Exists([r], cand(r)), detail=f'the {what} of a sense is found when its lexicon is in scope',
            functions=(f'wn._core.Sense.{what}',)))
        # inverse: the sense is among the senses of that word / synset (same scope)
        fam_guard = z3.And(db.col('senses', fkcol)(s) == target, in_s(db.col('senses', 'lexicon_rowid')(s)))
        obs.append(Obligation(
            f'wn._core.{"Word" if what == "word" else "Synset"}.senses:inverse', PROP, 'lemma', assumptions=base,
            goal=fam_guard, detail=f'the sense satisfies the membership condition of {what}.senses() '
                                   f'(contract of get_{"entry_senses" if what == "word" else "synset_members"})',
            functions=(f'wn._queries.get_{"entry_senses" if what == "word" else "synset_members"}',)))
    # translate: symmetry and "exactly the synsets sharing the ILI"
    a, b = z3.Int('a'), z3.Int('b')
    La, Lb = scalar_list('La', 'int'), scalar_list('Lb', 'int')

    def ili(x):
        return SQ.ili_id(db, SQ.Row(db, 'synsets', term=x))

    def translates(x, y, target):
        ix, iy = ili(x), ili(y)
        return z3.And(db.in_('synsets')(y), z3.Not(ix.none), z3.Not(iy.none), ix.z == iy.z,
                      seq_has(target, 'int')(db.col('synsets', 'lexicon_rowid')(y)))
    asm = fk + [db.in_('synsets')(a), db.in_('synsets')(b), seq_has(La, 'int')(db.col('synsets', 'lexicon_rowid')(a)),
                seq_has(Lb, 'int')(db.col('synsets', 'lexicon_rowid')(b))]
    obs.append(Obligation('wn._core.Synset.translate:symmetric', PROP, 'lemma', assumptions=asm,
                          goal=translates(a, b, Lb) == translates(b, a, La),
                          detail='b in a.translate(lexicon of b) <=> a in b.translate(lexicon of a)',
                          functions=('wn._core.Synset.translate', 'wn._queries.find_synsets')))
    obs.append(Obligation('wn._core.Synset.translate:none-without-ili', PROP, 'lemma',
                          assumptions=asm + [ili(a).none], goal=z3.Not(translates(a, b, Lb)),
                          detail='a synset without (or with only a proposed) ILI translates to nothing',
                          functions=('wn._core.Synset.translate',)))
    return obs


def run(sess: Session):
    sess.assume('A-SQLITE', 'A-ENGINE', 'A-ORDER-FIRST')
    sess.trust('vc/pyvc, vc/sqlvc', 'Python data model: tuples of equal components hash alike')
    schema = load_schema()
    for part, fn in (('identity', identity_obligations), ('referential', lambda: referential_obligations(schema))):
        try:
            for ob in fn():
                sess.check(ob)
        except Unsupported as exc:
            sess.unsupported(f'C10:{part}', str(exc))
    coreflows.run_flows(sess, PROP, FLOWS)
    querychecks.run_result_checks(sess, PROP, QUERIES)
