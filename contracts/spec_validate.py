"""Sidecar predicates of the 18 checks of wn/validate.py, transcribed from the table in the module docstring (and
the check's one-line description): CODE(lex, ids, k) is True iff the item with key k must be reported.

Helpers: occurs(k, xs): k is an element of xs;  twice(k, xs): k occurs at two different positions of xs.
"""
from collections import Counter
from wn.constants import SENSE_RELATIONS, SENSE_SYNSET_RELATIONS, SYNSET_RELATIONS, REVERSE_RELATIONS


def build_ids(lex):
    # as documented for the `ids` argument: identifiers of entries, senses and synsets with their counts
    return {
        'entry': Counter(e['id'] for e in lex.get('entries', [])),
        'sense': Counter(s['id'] for e in lex.get('entries', []) for s in e.get('senses', [])),
        'synset': Counter(ss['id'] for ss in lex.get('synsets', [])),
    }


def entries(lex): return lex.get('entries', [])
def synsets(lex): return lex.get('synsets', [])
def senses(e): return e.get('senses', [])


def occurs(k, xs):
    return any(x == k for x in xs)


def twice(k, xs):
    return any(a == k and b == k for i, a in enumerate(xs) for j, b in enumerate(xs) if i != j)


def E101(lex, ids, k):
    """ID is not unique within the lexicon"""
    sources = [
        [lex['id']],
        [f['id'] for e in entries(lex) for f in e.get('forms', []) if f.get('id')],
        [sb['id'] for sb in lex.get('frames', []) if sb.get('id')],
        [sb['id'] for e in entries(lex) for sb in e.get('frames', []) if sb.get('id')],     # entry-level frames
        [e['id'] for e in entries(lex)],
        [s['id'] for e in entries(lex) for s in senses(e)],
        [ss['id'] for ss in synsets(lex)],
    ]
    same = any(TWICE(k, src) for src in sources)
    cross = any(occurs(k, sources[i]) and occurs(k, sources[j]) for i in range(7) for j in range(7) if i < j)
    return same or cross


def W201(lex, ids, k):
    """Lexical entry has no senses"""
    return any(e['id'] == k and not senses(e) for e in entries(lex))


def W202(lex, ids, k):
    """Redundant sense between lexical entry and synset"""
    return any(s['id'] == k and TWICE(s['synset'], [t['synset'] for t in senses(e)])
               for e in entries(lex) for s in senses(e))


def W203(lex, ids, k):
    """Redundant lexical entry with the same lemma and synset (keyed by the lemma): two DIFFERENT entries with the
    lemma k that both have a sense in one synset (two senses of a single entry in a synset are W202, not W203)"""
    es = entries(lex)
    return any(e1['lemma']['writtenForm'] == k and e2['lemma']['writtenForm'] == k
               and any(s1['synset'] == s2['synset'] for s1 in senses(e1) for s2 in senses(e2))
               for i, e1 in enumerate(es) for j, e2 in enumerate(es) if i != j)


def E204(lex, ids, k):
    """Synset of sense is missing"""
    return any(s['id'] == k and not occurs(s['synset'], [ss['id'] for ss in synsets(lex)])
               for e in entries(lex) for s in senses(e))


def W301(lex, ids, k):
    """Synset is empty (not associated with any lexical entries)"""
    return any(ss['id'] == k and not occurs(ss['id'], [s['synset'] for e in entries(lex) for s in senses(e)])
               for ss in synsets(lex))


def W302(lex, ids, k):
    """ILI is repeated across synsets"""
    ilis = [ss['ili'] for ss in synsets(lex) if ss['ili'] and ss['ili'] != 'in']
    return any(ss['id'] == k and TWICE(ss['ili'], ilis) for ss in synsets(lex))


def W303(lex, ids, k):
    """Proposed ILI is missing a definition"""
    return any(ss['id'] == k and ss['ili'] == 'in' and not ss.get('ili_definition') for ss in synsets(lex))


def W304(lex, ids, k):
    """Existing ILI has a spurious definition"""
    return any(ss['id'] == k and ss['ili'] and ss['ili'] != 'in' and ss.get('ili_definition')
               for ss in synsets(lex))


def W305(lex, ids, k):
    """Synset has a blank definition"""
    return any(ss['id'] == k and any(d['text'].strip() == '' for d in ss.get('definitions', []))
               for ss in synsets(lex))


def W306(lex, ids, k):
    """Synset has a blank example"""
    return any(ss['id'] == k and any(x['text'].strip() == '' for x in ss.get('examples', []))
               for ss in synsets(lex))


def W307(lex, ids, k):
    """Synset repeats an existing definition"""
    texts = [d['text'] for ss in synsets(lex) for d in ss.get('definitions', [])]
    return any(ss['id'] == k and any(TWICE(d['text'], texts) for d in ss.get('definitions', []))
               for ss in synsets(lex))


def sense_ids(lex): return [s['id'] for e in entries(lex) for s in senses(e)]
def synset_ids(lex): return [ss['id'] for ss in synsets(lex)]


def E401(lex, ids, k):
    """Relation target is missing or invalid"""
    a = any(s['id'] == k and not occurs(r['target'], sense_ids(lex)) and not occurs(r['target'], synset_ids(lex))
            for e in entries(lex) for s in senses(e) for r in s.get('relations', []))
    b = any(ss['id'] == k and not occurs(r['target'], synset_ids(lex))
            for ss in synsets(lex) for r in ss.get('relations', []))
    return a or b


def W402(lex, ids, k):
    """Relation type is invalid for the source and target"""
    a = any(s['id'] == k and ((occurs(r['target'], sense_ids(lex)) and r['relType'] not in SENSE_RELATIONS)
                              or (occurs(r['target'], synset_ids(lex)) and r['relType'] not in SENSE_SYNSET_RELATIONS))
            for e in entries(lex) for s in senses(e) for r in s.get('relations', []))
    b = any(ss['id'] == k and r['relType'] not in SYNSET_RELATIONS
            for ss in synsets(lex) for r in ss.get('relations', []))
    return a or b


def W502(lex, ids, k):
    """Relation is a self-loop"""
    a = any(s['id'] == k and r['target'] == s['id']
            for e in entries(lex) for s in senses(e) for r in s.get('relations', []))
    b = any(ss['id'] == k and r['target'] == ss['id'] for ss in synsets(lex) for r in ss.get('relations', []))
    return a or b


def W501(lex, ids, k):
    """Synset's part-of-speech is different from its hypernym's"""
    return any(ss['id'] == k and r['relType'] == 'hypernym' and
               any(t['id'] == r['target'] and t.get('partOfSpeech') != ss.get('partOfSpeech') for t in synsets(lex))
               for ss in synsets(lex) for r in ss.get('relations', []))
