"""C11 - relation queries return exactly the declared relations; closures terminate.

  queries    get_synset_relations / get_sense_relations / get_sense_synset_relations return exactly the relation
             rows with source in the given set, type in the requested set (all if none or '*'), relation row and
             target in scope, with type name, defining lexicon specifier, metadata and target columns          sqlvc
  storage    _insert_synset_relations / _insert_sense_relations store one row per declared relation, sense
             relations split by the kind of their target (row images)                                    pyvc+sqlvc
  flows      Synset/Sense._iter_*relations: prescribed query call, Relation(name, own id, target id, lexicon,
             metadata), target object with the receiver's Wordnet                                             pyvc
  identity   Relation.__eq__/__hash__: (name, source, target, lexicon, dc:type)                               pyvc
  map-keys   relation_map(): pairs of _iter_relations have pairwise distinct keys (else the dict loses one)     z3
  bounded    relations() / get_related() / relation_map() / get_related_synsets() on all short pair lists; closure
             and relation_paths on every digraph with <= 4 nodes (exactness + termination)        bounded stand-in
"""
from __future__ import annotations

import itertools

import z3

import wn
import wn._core as core
from vc.core import Obligation, Session, Unsupported
from vc.pyvc.values import SV, SObj, Seq, Lit, Loop, z_and, z_or, z_not, z_bool
from vc.pyvc.interp import explore, MList, source_span
from vc.pyvc import famcmp
from contracts import coreflows, querychecks, addchecks, spec_core
from contracts.common import lit_axioms

PROP = 'C11'


def map_key_obligations() -> list:
    """relation_map() = dict(_iter_relations()): it reports every pair iff the Relation keys are pairwise distinct."""
    obs = []
    w = coreflows.make_wordnet('W')
    selfv = coreflows.make_self(core.Synset, w)
    args = (SV('str', z3.Const('t0', __import__('vc.pyvc.values', fromlist=['UStr']).UStr)),)
    for part, spec, finding in (('expanded', spec_core.Synset__iter_expanded_relations, 'K10'),):
        stubs = coreflows.Stubs()
        contracts = coreflows.build_contracts(stubs, None, None)
        outs = explore(lambda it: it.call_function(spec, [selfv, args], {}), contracts=contracts,
                       packages=('wn', 'contracts.spec_core'))
        for o in outs:
            if o.kind != 'return':
                continue
            leaves = list(o.value.as_seq().leaves()) if isinstance(o.value, MList) else []
            for k, (binders, guard, elem, _) in enumerate(leaves):
                if len(binders) < 2:
                    continue          # one pair per relation row: nothing can collide
                sub = [(b.var, z3.Int(str(b.var) + "'")) for b in binders]
                cons = [b.constraint for b in binders]
                cons2 = [z3.substitute(c, *sub) for c in cons]
                g2 = z3.substitute(z_bool(guard), *sub)
                same_relation_row = binders[0].var == sub[0][1]
                # K10: at most one synset of the scope per ILI = the inner list has at most one element
                inner = binders[1].constraint
                restricted = None
                if z3.is_and(inner) and inner.num_args() == 2 and z3.is_lt(inner.arg(1)):
                    restricted = [inner.arg(1).arg(1) <= 1]
                obs.append(Obligation(
                    f'wn._core.Synset.relation_map:keys-distinct:{part}#{k}', PROP, 'lemma',
                    assumptions=list(o.pc) + cons + cons2 + [z_bool(guard), g2, same_relation_row] + lit_axioms(),
                    goal=z_and(*[a == b for a, b in sub[1:]]), finding=finding, restricted=restricted,
                    detail='one expand relation yields at most one (relation, target) pair - otherwise '
                           'relation_map(), a dict keyed by the relation, silently drops all but one target',
                    functions=('wn._core.Synset.relation_map', 'wn._core.Synset._iter_expanded_relations')))
    return obs


def bounded_relation_views(sess: Session):
    """relations(), get_related(), relation_map(), get_related_synsets() over every list of <= 3 (relation, target)
    pairs drawn from 2 names x 2 targets x 2 dc:types, on the real methods (the _iter_* generators, whose
    contracts are proved above, are replaced by the list)."""
    cases, bad = 0, []
    w = type('W', (), {'_default_mode': False, '_expanded_ids': (), '_lexicon_ids': (1,)})()
    targets = [core.Synset(f't{i}', 'n', None, 1, 10 + i, w) for i in range(2)]
    stargets = [core.Sense(f's{i}', 'e', 'ss', 1, 20 + i, w) for i in range(2)]
    # parallel relations: same name and target, different dc:type and / or other metadata (dc:source)
    rels = [core.Relation(n, 'src', t.id, 'lex:1', metadata={k: v for k, v in (('type', d), ('source', m)) if v})
            for n in ('hypernym', 'similar') for t in targets for d in (None, 'x') for m in (None, 'survey')]
    merged = []          # known finding K26: declared relations that differ only in metadata other than dc:type

    class S(core.Synset):
        __slots__ = ('pairs',)

        def _iter_relations(self, *args):
            return iter([(r, t) for r, t in self.pairs if not args or r.name in args])

    class Se(core.Sense):
        __slots__ = ('pairs', 'spairs')

        def _iter_sense_relations(self, *args):
            return iter([(r, t) for r, t in self.pairs if not args or r.name in args])

        def _iter_sense_synset_relations(self, *args):
            return iter([(r, t) for r, t in self.spairs if not args or r.name in args])
    universe = [(r, t) for r in rels for t in targets if r.target_id == t.id]
    for n in range(4):
        for combo in itertools.product(universe, repeat=n):
            ss = S('src', 'n', None, 1, 1, w)
            ss.pairs = list(combo)
            cases += 1
            want_rel = {}
            for r, t in combo:
                want_rel.setdefault(r.name, [])
                if t not in want_rel[r.name]:
                    want_rel[r.name].append(t)
            got = ss.relations()
            if got != want_rel or list(got) != list(want_rel):
                bad.append(('relations', [(r.name, t.id) for r, t in combo], got))
            want_related = list(dict.fromkeys(t for _, t in combo))
            if ss.get_related() != want_related:
                bad.append(('get_related', [(r.name, t.id) for r, t in combo], ss.get_related()))
            for typ in ('hypernym', 'similar'):
                if ss.get_related(typ) != list(dict.fromkeys(t for r, t in combo if r.name == typ)):
                    bad.append(('get_related(type)', typ, [(r.name, t.id) for r, t in combo]))
            rm = ss.relation_map()
            # one entry per declared relation row: rows that differ in anything (name, target, any metadata) stay
            # distinct (identical rows are one row: the queries are SELECT DISTINCT)
            declared = {(r.name, r.source_id, r.target_id, r._lexicon, tuple(sorted(r.metadata().items())))
                        for r, _ in combo}
            code_keys = {(r.name, r.source_id, r.target_id, r._lexicon, r.subtype) for r, _ in combo}
            if len(rm) != len(declared):
                if len(rm) == len(code_keys):
                    merged.append([(r.name, t.id, r.metadata()) for r, t in combo])
                else:
                    bad.append(('relation_map', [(r.name, t.id, r.metadata()) for r, t in combo], len(rm)))
            se = Se('src', 'e', 'ss', 1, 1, w)
            se.pairs = [(r, stargets[int(t.id[1])]) for r, t in combo]
            se.spairs = list(combo)
            if se.get_related() != list(dict.fromkeys(t for _, t in se.pairs)) or \
                    se.get_related_synsets() != want_related:
                bad.append(('Sense.get_related/_synsets', [(r.name, t.id) for r, t in combo]))
            srel = se.relations()
            if list(srel) != list(want_rel):
                bad.append(('Sense.relations', [(r.name, t.id) for r, t in combo]))
    if merged:
        sess.violation_direct('wn._core.relation_map:parallel-relations', 'relation_map() has fewer entries than declared '
                              'relations: relations that differ only in metadata other than dc:type share one key',
                              {'witness': repr(merged[0])[:1500], 'cases': len(merged)}, True, finding='K26',
                              functions=('wn._core.Synset.relation_map', 'wn._core.Relation.__eq__',
                                         'wn._core.Relation.__hash__'))
    sess.add_bounded('wn._core.Synset/Sense.relations|get_related|relation_map|get_related_synsets',
                     'all lists of <= 3 pairs over 2 names x 2 targets x 2 dc:types x 2 dc:source values', cases,
                     'small-scope enumeration on the real methods', not bad)
    if bad:
        sess.violation_direct('wn._core.relations-views:bounded', f'{bad[0][0]} differs from its contract',
                              {'witness': repr(bad[0])[:2000]}, True, functions=('wn._core.Synset.relations',))


def bounded_graphs(sess: Session):
    from bounded import graphs as G
    n = 4
    cases, fails = G.sweep('paths', n)
    sess.add_bounded('wn._core._Relatable.relation_paths / closure',
                     f'every labelled digraph with <= {n} nodes (self-loops, cycles), every start node, every end '
                     f'node', cases, 'small-scope enumeration on the real methods (stub get_related = adjacency)',
                     not fails)
    report_graph_failures(sess, fails, PROP)
    if sess.tier == 'thorough':
        for nn in (5, 6, 7):
            cases, fails = G.sample('paths', nn, 3000, seed=sess.seed)
            sess.add_bounded('wn._core._Relatable.relation_paths / closure (larger graphs)',
                             f'{cases} random digraphs with {nn} nodes (seed {sess.seed}; half of them acyclic)', cases,
                             'random sampling on the real methods', not fails)
            report_graph_failures(sess, fails, PROP)


def report_graph_failures(sess, fails, prop, known=None):
    seen = set()
    for clause, witness in fails:
        if clause in seen:
            continue
        seen.add(clause)
        sess.violation_direct(f'graph:{clause}', f'{clause} differs from its graph-theoretic definition',
                              {'witness': witness, 'count_of_failing_cases': sum(1 for c, _ in fails if c == clause)},
                              True, finding=(known or {}).get(clause),
                              functions=('wn._core._Relatable.relation_paths', 'wn._core._Relatable.closure'))


def run(sess: Session):
    sess.assume('A-SQLITE', 'A-ENGINE', 'A-MATH')
    sess.trust('vc/pyvc, vc/sqlvc', 'termination of the path enumerators beyond the bound: A-MATH (a DFS whose paths '
               'are simple terminates on a finite graph)')
    querychecks.run_result_checks(sess, PROP, {'get_synset_relations', 'get_sense_relations',
                                               'get_sense_synset_relations'})
    coreflows.run_flows(sess, PROP, {'Synset__iter_local_relations', 'Synset__iter_relations',
                                     'Synset__iter_expanded_relations', 'Sense__iter_sense_relations',
                                     'Sense__iter_sense_synset_relations'})
    addchecks.run_row_images(sess, PROP, only={'_insert_synset_relations', '_insert_sense_relations', '_update_lookup_tables',
                                                '_insert_lexicon'})
    from contracts import C10
    try:
        for ob in C10.identity_obligations():
            if 'Relation' in ob.name:
                ob.prop = PROP
                sess.check(ob)
        for ob in map_key_obligations():
            sess.check(ob)
    except Unsupported as exc:
        sess.unsupported('C11:identity/map-keys', str(exc))
    sense_relation_split(sess)
    bounded_relation_views(sess)
    bounded_graphs(sess)
    # closure() / get_related through inferred placeholders (real database with an expand lexicon; shared with C12)
    from contracts import C12 as _c12
    _c12.expand_bounded(sess)


def sense_relation_split(sess: Session):
    """_insert_sense_relations: target in sense ids -> sense_relations; in synset ids -> sense_synset_relations;
    neither -> wn.Error before any of these inserts.  (Worklist over Python sets: executed symbolically with the
    two id sets as uninterpreted predicates.)"""
    from vc.pyvc.dbmodel import World
    from contracts import addmodel
    import wn._add as A
    from vc.sqlvc import parse as P
    world = World()
    res, outs = addmodel.explore_add(world)
    for out in outs:
        evs = [e for e in out.effects if e.kind == 'executemany' and isinstance(e.extra.get('stmt'), P.Insert)
               and e.extra['stmt'].table in ('sense_relations', 'sense_synset_relations')]
        tables = [e.extra['stmt'].table for e in evs]
        sess.check(Obligation('wn._add._insert_sense_relations:split:tables', PROP, 'effect',
                              decided=tables == ['sense_relations', 'sense_synset_relations'],
                              detail=f'inserts into {tables}', functions=('wn._add._insert_sense_relations',)))
        errs = [m for m in out.may_raise if getattr(m[0], '__name__', '') == 'Error']
        sess.check(Obligation('wn._add._insert_sense_relations:split:reject-unknown-target', PROP, 'effect',
                              decided=len(errs) >= 1,
                              detail='a relation whose target is neither a sense nor a synset of the lexicon raises '
                                     'wn.Error', functions=('wn._add._insert_sense_relations',)))
