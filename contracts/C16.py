"""C16 - results are a function of database content and arguments only.

  order contract   every function of the wn package (AST re-read on every run): no value whose ORDER comes from iterating
                   a set (hash order; seed dependent for str and for the entity classes) reaches a return / yield /
                   index / first-element / tie-breaking sink (conservative taint analysis, vc/ordercheck.py); the sites
                   the analysis reports must be exactly the reviewed ones listed here with their justification   static
  purity contract  no function stores into module-level mutable state except the registered connection pool: a read
                   call cannot change a later result through process state                                     static
  entity order     _DatabaseEntity.__lt__/__eq__/__hash__ use (entity type, rowid) only: sorted() over entities is a
                   function of database content (symbolic execution + z3)                                       pyvc
  bounded          a battery over every query / taxonomy / similarity / IC / validate / dump / export call on a generated
                   database, run in subprocesses with different PYTHONHASHSEED values and twice in one process with
                   other read-only calls in between; transcripts compared byte for byte                       bounded
"""
from __future__ import annotations

import z3

import wn._core as core
from vc.core import Obligation, Session, Unsupported, REPO
from vc import ordercheck

PROP = 'C16'

# reviewed sites: key -> why the hash order cannot reach an observable result
ACCEPTED_ORDER = {
    "wn._core:_LexiconElement._get_lexicon_ids:return-of-hash-ordered-value":
        'a set of ints (lexicon rowids): hash(int) is not randomised, the iteration order is a function of the values; '
        'the tuple is only used as an IN (...) scope of queries',
    "wn._db:_check_schema_compatibility:join-of-hash-ordered-collection":
        'text of the error raised for an incompatible database file, not an API result',
}
ACCEPTED_ORDER.update({
    "wn.taxonomy:_shortest_hyp_paths:stable-sort-with-key-over-hash-ordered-collection (ties)":
        'sorted(common, key=_synset_sort_key): the key (rowid, ILI) is different for different synsets of one Wordnet '
        '(real synsets differ in rowid, inferred placeholders share rowid 0 and differ in ILI) - no ties',
    "wn.taxonomy:common_hypernyms:stable-sort-with-key-over-hash-ordered-collection (ties)":
        'sorted(common, key=_synset_sort_key): see _shortest_hyp_paths',
})
ACCEPTED_STATE = {
    'wn._db:connect:module-state-write:pool': 'connection pool keyed by database path (infrastructure, no query result '
                                              'depends on it: C04/C09 prove results are functions of the database)',
}


def static_obligations() -> list:
    obs = []
    order, state, stats = ordercheck.analyse(str(REPO))
    cm = dict(prop=PROP, assumptions_used=('A-ORDER-STATIC',))
    obs.append(Obligation('wn:order-contract:coverage', kind='static', decided=stats['functions'] > 300,
                          detail=f"{stats['functions']} functions of {stats['modules']} modules analysed",
                          functions=('wn.*',), **cm))
    seen = set()
    for s in order:
        k = f'{s.module}:{s.function}:{s.kind}'
        seen.add(k)
        ok = k in ACCEPTED_ORDER
        obs.append(Obligation(f'{s.module}.{s.function}:order:{s.kind}', kind='static', decided=ok,
                              detail=(f'reviewed: {ACCEPTED_ORDER[k]}' if ok else
                                      f'line {s.lineno}: `{s.text}` - the iteration order of a set (hash order, differs '
                                      'between processes) reaches this result'),
                              functions=(f'{s.module}.{s.function}',), source=f'{s.module}:{s.lineno}', **cm))
    for s in state:
        k = f'{s.module}:{s.function}:{s.kind}:{s.text}'
        ok = k in ACCEPTED_STATE
        obs.append(Obligation(f'{s.module}.{s.function}:purity:{s.text}', kind='static', decided=ok,
                              detail=(f'reviewed: {ACCEPTED_STATE[k]}' if ok else
                                      f'line {s.lineno}: writes module-level state `{s.text}` ({s.kind}): a call can '
                                      'change the result of a later call'),
                              functions=(f'{s.module}.{s.function}',), source=f'{s.module}:{s.lineno}', **cm))
    # one obligation per function family that passed (evidence of what was decided)
    clean = stats['functions'] - len({(s.module, s.function) for s in order + state})
    obs.append(Obligation('wn:order+purity-contract:clean-functions', kind='static', decided=True,
                          detail=f'{clean} functions have no order sink and no module-state write', functions=('wn.*',),
                          **cm))
    return obs


def entity_order_obligations() -> list:
    """__eq__/__lt__/__hash__ of _DatabaseEntity depend on (_ENTITY_TYPE, _id) only."""
    from vc.pyvc.interp import explore, source_span
    from vc.pyvc.values import SV, SObj, mk
    obs = []
    cm = dict(prop=PROP, functions=('wn._core._DatabaseEntity.__lt__', 'wn._core._DatabaseEntity.__eq__',
                                    'wn._core._DatabaseEntity.__hash__'), source=source_span(core._DatabaseEntity.__lt__),
              assumptions_used=())
    for cls in (core.Synset, core.Sense, core.Word):
        a = SObj(cls, {'_id': mk('int', 'a_id'), 'id': mk('str', 'a_name'), '_lexid': mk('int', 'a_lex')}, name='a')
        b = SObj(cls, {'_id': mk('int', 'b_id'), 'id': mk('str', 'b_name'), '_lexid': mk('int', 'b_lex')}, name='b')
        for meth, want in (('__lt__', lambda: a.attrs['_id'].z < b.attrs['_id'].z),
                           ('__eq__', lambda: a.attrs['_id'].z == b.attrs['_id'].z)):
            fn = getattr(core._DatabaseEntity, meth)
            try:
                outs = explore(lambda it: it.call_function(fn, [a, b], {}), packages=('wn',))
            except Unsupported as exc:
                obs.append(('unsupported', f'wn._core.{cls.__name__}.{meth}', str(exc)))
                continue
            for n, o in enumerate(outs):
                v = o.value if o.kind == 'return' else None
                vz = v.z if isinstance(v, SV) else (z3.BoolVal(bool(v)) if isinstance(v, bool) else None)
                if vz is None:
                    obs.append(Obligation(f'wn._core.{cls.__name__}.{meth}:p{n}', kind='post', decided=False,
                                          detail=f'result {v!r}', **cm))
                    continue
                obs.append(Obligation(f'wn._core.{cls.__name__}.{meth}:p{n}', kind='post', assumptions=list(o.pc),
                                      goal=vz == want(),
                                      detail=f'{meth} of two {cls.__name__} objects is decided by the rowids alone', **cm))
    return obs


def sort_key_obligations() -> list:
    """wn.taxonomy._synset_sort_key: two synsets with the same key have the same rowid AND the same ILI - the
    justification of the two reviewed `sorted(common, key=_synset_sort_key)` sites (no ties between different synsets of
    one Wordnet: stored synsets differ in rowid, inferred ones share rowid 0 and differ in ILI)."""
    import wn.taxonomy as T
    from vc.pyvc.interp import explore, source_span
    from vc.pyvc.values import SV, SObj, mk
    from vc.pyvc import famcmp
    fn = getattr(T, '_synset_sort_key', None)
    cm = dict(prop=PROP, functions=('wn.taxonomy._synset_sort_key',), assumptions_used=())
    if fn is None:
        return [Obligation('wn.taxonomy._synset_sort_key:exists', kind='static', decided=False,
                           detail='the key function of the reviewed sorted() sites is gone', **cm)]
    objs = []
    for n in ('a', 'b'):
        objs.append(SObj(core.Synset, {'_id': mk('int', f'{n}_id'), 'id': mk('str', f'{n}_name'),
                                       '_ili': mk('str', f'{n}_ili', optional=True), '_lexid': mk('int', f'{n}_lex'),
                                       'pos': mk('str', f'{n}_pos')}, name=n))
    a, b = objs
    obs = []
    outs = explore(lambda it: (it.call_function(fn, [a], {}), it.call_function(fn, [b], {})), packages=('wn',))
    for k, o in enumerate(outs):
        if o.kind != 'return':
            obs.append(Obligation(f'wn.taxonomy._synset_sort_key:no-raise:p{k}', kind='post', decided=False,
                                  detail='the key function raises', **cm))
            continue
        ka, kb = o.value
        try:
            same_key = z_boolv(famcmp.value_eq(ka, kb))
        except Exception as exc:   # noqa: BLE001
            obs.append(Obligation(f'wn.taxonomy._synset_sort_key:shape:p{k}', kind='post', decided=False,
                                  detail=f'keys cannot be compared: {exc}', **cm))
            continue
        ia, ib = a.attrs['_ili'], b.attrs['_ili']
        from contracts.common import LITS
        empty = LITS.lit('')
        # no ILI is None or '' (both mean "none"): compared as the empty string
        same_ili = z3.If(ia.none, empty, ia.z) == z3.If(ib.none, empty, ib.z)
        obs.append(Obligation(f'wn.taxonomy._synset_sort_key:separates:p{k}', kind='post',
                              assumptions=list(o.pc) + [same_key], vacuity=False,     # a path pair may be infeasible
                              goal=z3.And(a.attrs['_id'].z == b.attrs['_id'].z, same_ili),
                              detail='equal sort keys => same rowid and same ILI (no ties between different synsets)',
                              source=source_span(fn), **cm))
    return obs


def z_boolv(x):
    return x if z3.is_expr(x) else z3.BoolVal(bool(x))


def run(sess: Session):
    sess.assume('A-ORDER-STATIC', 'the order analysis is per function and flow-insensitive; it follows sets through '
                                  'local names, annotations, module constants and annotated return types, not through '
                                  'un-annotated parameters or object attributes; hash(int) and the hashes of tuples of '
                                  'ints are not randomised; dict preserves insertion order')
    for ob in static_obligations():
        sess.check(ob)
    try:
        for ob in sort_key_obligations():
            sess.check(ob)
    except Unsupported as exc:
        sess.unsupported('wn.taxonomy._synset_sort_key', str(exc))
    try:
        for ob in entity_order_obligations():
            if isinstance(ob, tuple):
                sess.unsupported(ob[1], ob[2])
            else:
                sess.check(ob)
    except Unsupported as exc:
        sess.unsupported('wn._core._DatabaseEntity:order', str(exc))
    bounded(sess)
    sess.level = 'other'
    sess.explanation = ('order-insensitivity and purity contracts decided by a conservative static analysis of every '
                        'function (reviewed exceptions listed with reasons); observable determinism itself only by the '
                        'hash-seed / repetition battery (bounded)')


def bounded(sess: Session):
    from bounded import determinism as D
    seeds = list(range(4)) if sess.tier != 'thorough' else list(range(16))
    seeds = [s + 97 * sess.seed for s in seeds] if sess.seed else seeds
    cases, problems = D.sweep(seeds)
    for k, p in enumerate(problems[:4]):
        sess.violation_direct(f'wn:bounded:determinism#{k}', p[:1500], {'kind': 'determinism', 'seeds': seeds},
                              reproduced=True, functions=('wn',))
    sess.add_bounded('public API battery (queries, relations, taxonomy, similarity, IC, validate, dump, export)',
                     f'{len(seeds)} PYTHONHASHSEED values x 2 runs per process on a generated taxonomy + full lexicon',
                     cases, 'subprocess transcripts compared byte for byte', ok=not problems)
