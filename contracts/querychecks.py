"""Result characterisation of the query functions of wn/_queries.py against contracts/spec_queries.py."""
from __future__ import annotations

import itertools

import z3

import wn._queries as Q
from vc.core import Obligation, Session, Unsupported
from vc.pyvc.values import SV, Seq, Lit, Loop, z_and, z_or, z_not, z_bool, val_eq
from vc.pyvc.dbmodel import World, SqlResult
from vc.pyvc.interp import source_span, MList
from vc.pyvc import famcmp
from vc.sqlvc.schema import load_schema
from contracts import spec_queries as SQ
from contracts import sqlchecks
from contracts.common import sym_args_for, fn_name, path_id, lit_axioms, all_leaves

# function -> list of fixed-argument variants
FUNCS = [
    (Q.get_entry_senses, [{}]),
    (Q.get_synset_members, [{}]),
    (Q.find_senses, [{}]),
    (Q.get_synsets_for_ilis, [{}]),
    (Q.get_synset_relations, [{}]),
    (Q.get_sense_relations, [{}]),
    (Q.get_sense_synset_relations, [{}]),
    (Q.get_definitions, [{}]),
    (Q.get_examples, [{'table': 'senses'}, {'table': 'synsets'}]),
    (Q.get_sense_counts, [{}]),
    (Q.get_syntactic_behaviours, [{}]),
    (Q.get_form_tags, [{}]),
    (Q.get_form_pronunciations, [{}]),
    (Q.get_lexicon_dependencies, [{}]),
    (Q.find_proposed_ilis, [{}]),
    (Q.find_synsets, [{}]),
    (Q._find_existing_ilis, [{}]),
    (Q.find_entries, [{}]),
]


def proj_equal(code_elem, spec_proj):
    code = code_elem if isinstance(code_elem, tuple) else (code_elem,)
    if len(code) != len(spec_proj):
        return False
    return z_and(*[z_bool(val_eq(c, s)) for c, s in zip(code, spec_proj)])


def witness_candidates(db, table, spec_rows):
    """Row terms of `table` reachable from the specification's rows through foreign keys (depth <= 2)."""
    cands = []
    frontier = list(spec_rows)
    seen = set()
    for depth in range(3):
        nxt = []
        for r in frontier:
            key = (r.table, r.var.get_id())
            if key in seen:
                continue
            seen.add(key)
            if r.table == table:
                cands.append(r.var)
            for fk in db.schema.table(r.table).fks:
                nxt.append(r.ref(fk.column))
        frontier = nxt
    return cands


def result_obligations(fn, fixed, prop: str, schema, pre_fn=None) -> list:
    world = World(schema)
    db = world.db
    args = sym_args_for(fn, fixed)
    name = fn_name(fn) + (':' + ','.join(f'{k}={v}' for k, v in fixed.items()) if fixed else '')
    pre = pre_fn(args) if pre_fn else []
    outs = sqlchecks.explore_query(fn, args, world, pre=pre)
    spec_fn = getattr(SQ, 'spec_' + fn.__name__)
    obs = []
    common = dict(prop=prop, kind='sql', functions=(fn_name(fn),), source=source_span(fn),
                  assumptions_used=('A-SQLITE',))
    for ev, err in world.bind_errors:
        obs.append(Obligation(f'{name}:bind-map', decided=False, detail=err, **common))
    for o in outs:
        pid = path_id(o)
        if o.kind == 'raise':
            continue
        leaves = all_leaves(o.value)
        if len(leaves) != 1:
            obs.append(Obligation(f'{name}:result:shape:{pid}', decided=False,
                                  detail=f'{len(leaves)} result sources, 1 specified', **common))
            continue
        binders, guard, elem, loops = leaves[0]
        spec = spec_fn(db, args)
        if getattr(spec, 'inner', None):
            obs += grouped_obligations(name, pid, o, db, schema, binders, guard, elem, loops, spec, common)
            continue
        fk = db.fk_axioms(sqlchecks.close_tables(schema, sqlchecks.tables_of([o]) | {r.table for r in spec.binders}))
        base = list(o.pc) + lit_axioms() + fk
        cons = [b.constraint for b in binders]
        spec_present = [r.present for r in spec.binders]
        # soundness: witnesses for the spec rows among the code's rows of the same table
        code_by_table = {}
        for b in binders:
            if b.key and b.key[0] == 'table':
                code_by_table.setdefault(b.key[1], []).append(b.var)
        options = []
        for r in spec.binders:
            options.append(code_by_table.get(r.table, []))
        sound_goals = []
        for combo in itertools.product(*options):
            subst = [(r.var, w) for r, w in zip(spec.binders, combo)]
            sg = z3.substitute(z_and(*spec_present, z_bool(spec.guard)), *subst) if subst else z_and(
                *spec_present, z_bool(spec.guard))
            sp = tuple(famcmp.subst_value(x, subst) for x in spec.proj)
            sound_goals.append(z_and(sg, z_bool(proj_equal(elem, sp))))
        obs.append(Obligation(f'{name}:result:sound:{pid}', assumptions=base + cons + [z_bool(guard)],
                              goal=z_or(*sound_goals) if sound_goals else z3.BoolVal(False),
                              detail='every returned row is a row of the specified family with the specified '
                                     'columns', **common))
        # completeness: witnesses for the code's rows by following foreign keys from the spec rows
        cand_lists = []
        for b in binders:
            if b.key and b.key[0] == 'table':
                cand_lists.append(witness_candidates(db, b.key[1], spec.binders))
            else:
                cand_lists.append([])
        comp_goals = []
        free = [b.var for b, c in zip(binders, cand_lists) if not c]      # rows to be found by the solver
        bound = [(b, c) for b, c in zip(binders, cand_lists) if c]
        for combo in itertools.islice(itertools.product(*[c for _, c in bound]), 64):
            subst = [(b.var, w) for (b, _), w in zip(bound, combo)]
            cg = z3.substitute(z_and(*cons, z_bool(guard)), *subst) if subst else z_and(*cons, z_bool(guard))
            ce = famcmp.subst_value(elem, subst)
            body = z_and(cg, z_bool(proj_equal(ce, spec.proj)))
            comp_goals.append(z3.Exists(free, body) if free else body)
        obs.append(Obligation(f'{name}:result:complete:{pid}',
                              assumptions=base + spec_present + [z_bool(spec.guard)],
                              goal=z_or(*comp_goals) if comp_goals else z3.BoolVal(False),
                              detail='every row of the specified family is returned', **common))
        # order
        code_order = None
        for lp in loops:
            if lp.order:
                code_order = lp.order
        if spec.order is None:
            pass        # the order of this query is not part of its contract
        elif bool(code_order) != bool(spec.order):
            obs.append(Obligation(f'{name}:result:order:{pid}', decided=False,
                                  detail=f'ORDER BY {"present" if code_order else "absent"} but '
                                         f'{"required" if spec.order else "not specified"}', **common))
        elif code_order:
            if len(code_order) != len(spec.order):
                obs.append(Obligation(f'{name}:result:order:{pid}', decided=False,
                                      detail='different number of sort keys', **common))
            else:
                subst = []
                for r in spec.binders:
                    ws = code_by_table.get(r.table, [])
                    if ws:
                        subst.append((r.var, ws[0]))
                goals = []
                for (ck, cd), (sk, sd) in zip(code_order, spec.order):
                    sk2 = famcmp.subst_value(sk, subst)
                    goals.append(z_and(z_bool(val_eq(ck, sk2)), cd == sd))
                obs.append(Obligation(f'{name}:result:order:{pid}', assumptions=base + cons + [z_bool(guard)],
                                      goal=z_and(*goals), detail='same sort keys', **common))
        # duplicates: either DISTINCT on both sides, or the joined rows are determined by the spec rows
        seqv = o.value.seq if isinstance(o.value, SqlResult) else None
        code_distinct = bool(getattr(seqv, 'distinct', False)) if seqv is not None else _distinct_of(o)
        if not spec.distinct and not code_distinct:
            # two code tuples with the same spec-row witnesses are the same tuple
            subst2 = [(b.var, z3.Int(str(b.var) + "'")) for b in binders]
            g2 = z3.substitute(z_and(*cons, z_bool(guard)), *subst2)
            same_spec = []
            for r in spec.binders:
                for w in code_by_table.get(r.table, [])[:1]:
                    same_spec.append(w == z3.substitute(w, *subst2))
            obs.append(Obligation(f'{name}:result:no-duplicates:{pid}',
                                  assumptions=base + cons + [z_bool(guard), g2] + same_spec,
                                  goal=z_and(*[b.var == z3.substitute(b.var, *subst2) for b in binders]),
                                  detail='one result row per specified row', **common))
        elif spec.distinct != code_distinct:
            obs.append(Obligation(f'{name}:result:distinct:{pid}', decided=False,
                                  detail=f'DISTINCT {"used" if code_distinct else "missing"}', **common))
    return obs


def grouped_obligations(name, pid, o, db, schema, binders, guard, elem, loops, spec, common) -> list:
    """Result built with itertools.groupby over an ordered SELECT (find_entries): one tuple per group, one
    component being the list of the group's rows."""
    obs = []
    outer = loops[0]
    key = getattr(outer, 'grouped_by', None)
    if key is None:
        return [Obligation(f'{name}:result:shape:{pid}', decided=False, detail='result is not grouped', **common)]
    fk = db.fk_axioms(sqlchecks.close_tables(schema, sqlchecks.tables_of([o]) | {r.table for r in spec.binders}))
    base = list(o.pc) + lit_axioms() + fk + [SQ.lemma_axiom(db)]
    cons = [b.constraint for b in binders]
    srow = spec.binders[0]
    code_e = [b.var for b in binders if b.key and b.key[1] == srow.table][0]
    code_other = [b for b in binders if not b.var.eq(code_e)]
    sub_s2c = [(srow.var, code_e)]
    scal_idx = [i for i in range(len(spec.proj)) if i not in spec.inner]
    code_scal = tuple(elem[i] for i in scal_idx)
    spec_scal = tuple(spec.proj[i] for i in scal_idx)
    # sound
    sg = z3.substitute(z_and(srow.present, z_bool(spec.guard)), *sub_s2c)
    sp = tuple(famcmp.subst_value(x, sub_s2c) for x in spec_scal)
    obs.append(Obligation(f'{name}:result:sound:{pid}', assumptions=base + cons + [z_bool(guard)],
                          goal=z_and(sg, z_bool(proj_equal(code_scal, sp))),
                          detail='every returned entity satisfies the specified condition, columns as specified',
                          **common))
    # complete: the group's representative row exists (every entry has a lemma form)
    wit = spec.group_witness(srow.var)
    subst = [(code_e, srow.var)] + [(b.var, wit) for b in code_other]
    cg = z3.substitute(z_and(*cons, z_bool(guard)), *subst)
    ce = tuple(famcmp.subst_value(x, subst) for x in code_scal)
    obs.append(Obligation(f'{name}:result:complete:{pid}', assumptions=base + [srow.present, z_bool(spec.guard)],
                          goal=z_and(cg, z_bool(proj_equal(ce, spec_scal))),
                          detail='every entity satisfying the specified condition is returned', **common))
    # contiguity of groups: the leading sort key and the group key determine each other
    order = outer.order or []
    if not order:
        obs.append(Obligation(f'{name}:result:group-contiguity:{pid}', decided=False,
                              detail='itertools.groupby over a SELECT without ORDER BY: rows of one entity need not '
                                     'be adjacent', **common))
    else:
        sub2 = [(b.var, z3.Int(str(b.var) + "'")) for b in binders]
        k0 = order[0][0]
        k0b = famcmp.subst_value(k0, sub2)
        keyb = famcmp.subst_value(key, sub2)
        g2 = z3.substitute(z_and(*cons, z_bool(guard)), *sub2)
        from vc.pyvc.values import val_eq
        obs.append(Obligation(f'{name}:result:group-contiguity:{pid}',
                              assumptions=base + cons + [z_bool(guard), g2],
                              goal=z_bool(val_eq(k0, k0b)) == z_bool(val_eq(key, keyb)),
                              detail='rows with equal group key are adjacent in the ORDER BY order', **common))
    # inner lists
    for idx, ispec in spec.inner.items():
        inner_val = elem[idx]
        ileaves = list(inner_val.as_seq().leaves()) if isinstance(inner_val, MList) else list(inner_val.leaves())
        if len(ileaves) != 1:
            obs.append(Obligation(f'{name}:result:inner{idx}:shape:{pid}', decided=False, **common))
            continue
        ib, ig, ie, iloops = ileaves[0]
        irow = ispec.binders[0]
        icode = [b.var for b in ib if b.key and b.key[1] == irow.table]
        icons = [b.constraint for b in ib]
        outer_asm = base + cons + [z_bool(guard)]
        ispec_guard = z3.substitute(z_and(irow.present, z_bool(ispec.guard)), *sub_s2c)
        ispec_proj = tuple(famcmp.subst_value(x, sub_s2c) for x in ispec.proj)
        s1 = [(irow.var, icode[0])] if icode else []
        obs.append(Obligation(f'{name}:result:inner{idx}:sound:{pid}', assumptions=outer_asm + icons + [z_bool(ig)],
                              goal=z_and(z3.substitute(ispec_guard, *s1),
                                         z_bool(proj_equal(ie, tuple(famcmp.subst_value(x, s1) for x in ispec_proj)))),
                              detail='every listed form belongs to the entity', **common))
        # complete: inner code binders: the entry binder := outer entry, the form binder := spec form row
        s2 = []
        for b in ib:
            if b.key and b.key[1] == irow.table:
                s2.append((b.var, irow.var))
            elif b.key and b.key[1] == srow.table:
                s2.append((b.var, code_e))
        obs.append(Obligation(f'{name}:result:inner{idx}:complete:{pid}', assumptions=outer_asm + [ispec_guard],
                              goal=z_and(z3.substitute(z_and(*icons, z_bool(ig)), *s2),
                                         z_bool(proj_equal(famcmp.subst_value(ie, s2), ispec_proj))),
                              detail='every form of the entity is listed', **common))
        # inner order: the last sort key is the specified one, the earlier ones are constant within a group
        iorder = iloops[0].order or []
        ok = bool(iorder) and bool(ispec.order)
        if not ok:
            obs.append(Obligation(f'{name}:result:inner{idx}:order:{pid}', decided=False,
                                  detail='forms are not returned in a specified order', **common))
        else:
            from vc.pyvc.values import val_eq
            last_k, last_d = iorder[-1]
            sk, sd = ispec.order[0]
            sk2 = famcmp.subst_value(famcmp.subst_value(sk, sub_s2c), s1)
            obs.append(Obligation(f'{name}:result:inner{idx}:order:{pid}',
                                  assumptions=outer_asm + icons + [z_bool(ig)],
                                  goal=z_and(z_bool(val_eq(last_k, sk2)), last_d == sd),
                                  detail='forms in rank (document) order, lemma first', **common))
            form_vars = [b.var for b in ib if b.key and b.key[1] == irow.table]
            from vc.pyvc.interp import contains_binder
            dep = any(contains_binder(k, form_vars) for k, _ in iorder[:-1])
            obs.append(Obligation(f'{name}:result:inner{idx}:order-prefix:{pid}', decided=not dep,
                                  detail='leading sort keys do not depend on the form row', **common))
    return obs


def _distinct_of(o):
    for ev in o.effects:
        s = ev.extra.get('seq') if ev.kind == 'execute' else None
        if s is not None:
            return bool(s.distinct)
    return False


def run_result_checks(sess: Session, prop: str, only=None):
    schema = load_schema()
    for fn, variants in FUNCS:
        if only is not None and fn.__name__ not in only:
            continue
        for fixed in variants:
            pre_fn = None
            if fn in (Q.find_senses, Q.find_synsets, Q.find_entries):
                from vc.pyvc.values import truthy
                pre_fn = lambda a: [z3.Not(z3.And(truthy(a['id']), a['forms'].length > 0))]
            try:
                for ob in result_obligations(fn, fixed, prop, schema, pre_fn):
                    sess.check(ob)
            except Unsupported as exc:
                sess.unsupported(f'{fn_name(fn)}:result', str(exc), 'sql')
