"""C13 - taxonomy functions agree with graph-theoretic definitions on any hypernym graph.

The functions of wn/taxonomy.py are worklists over mutable dicts/sets fed by the path enumerator
_Relatable.relation_paths; within this engine their agreement with the graph-theoretic definitions is decided by a
BOUNDED stand-in: the real functions on every labelled digraph (self-loops, cycles, diamonds, several roots,
disconnected parts) with <= 3 nodes (quick) / <= 4 nodes (thorough; relation_paths and closure always with 4), every
ordered pair, simulate_root in {False, True}: hypernym_paths = the maximal simple chains, min/max_depth, roots, leaves,
common_hypernyms = intersection of ancestor-or-self sets, shortest_path (genuine, ends at b, empty iff a is b, length =
min over common c of dist(a,c)+dist(b,c), symmetric length, wn.Error iff nothing shared unless simulate_root),
lowest_common_hypernyms / taxonomy_depth (exact on graphs without a cycle of length >= 2: known finding K4),
termination.
Deductive pieces (pyvc): _synsets_for_pos (a/s merge), roots/leaves (filter on hypernyms()/hyponyms()), the
delegation of the Synset methods to wn.taxonomy, the relation types of hypernyms()/hyponyms().
"""
from __future__ import annotations

import z3

import wn
import wn._core as core
import wn.taxonomy as T
from vc.core import Obligation, Session, Unsupported
from vc.pyvc.values import SV, SObj, SList, mk, LITS, UStr, z_and, z_or, z_bool
from vc.pyvc.interp import explore, source_span, SymMethod, MList, Lit, Loop, Event
from contracts.common import lit_axioms, path_id

PROP = 'C13'


class WN(SObj):
    def __init__(self):
        super().__init__(core.Wordnet, name='wordnet')
        self.calls = []

    def vc_getattr(self, it, name, node):
        if name == 'synsets':
            def synsets(i, a, k, nd):
                pos = k.get('pos', a[1] if len(a) > 1 else None)
                self.calls.append(pos)
                key = pos if isinstance(pos, (str, type(None))) else 'P'
                lst = SList(f'synsets[{key}]', lambda p, idx: SObj(core.Synset, name=f'{p}@{idx}'))
                out = MList()
                i.list_extend(out, lst)
                return out
            return SymMethod(synsets, 'synsets')
        return NotImplemented


def pos_merge_obligations() -> list:
    """_synsets_for_pos: the synsets of pos; for a (resp. s) followed by those of s (resp. a); None = all."""
    obs = []
    name = 'wn.taxonomy._synsets_for_pos'
    for pos, want in ((None, [None]), ('n', ['n']), ('v', ['v']), ('r', ['r']), ('a', ['a', 's']), ('s', ['s', 'a'])):
        w = WN()
        outs = explore(lambda it: it.call(T._synsets_for_pos, [w, pos], {}), contracts={}, packages=('wn',))
        for o in outs:
            srcs = []
            if o.kind == 'return' and isinstance(o.value, MList):
                for n in o.value.nodes:
                    if isinstance(n, Loop):
                        srcs.append(n.binders[0].origin)
            exp = [f'synsets[{p}]' for p in want]
            obs.append(Obligation(f'{name}:inventory:pos={pos}', PROP, 'post', decided=srcs == exp,
                                  detail=f'synsets taken from {srcs} (expected {exp})', functions=(name,),
                                  source=source_span(T._synsets_for_pos)))
    return obs


def delegation_obligations() -> list:
    """Synset.hypernym_paths/min_depth/... delegate to wn.taxonomy with the same arguments; hypernyms()/hyponyms()
    traverse exactly (instance_)hypernym / (instance_)hyponym."""
    obs = []
    recorded = []

    def rec(name):
        def h(it, args, kwargs, node):
            recorded.append((name, list(args), dict(kwargs)))
            return SV('obj', z3.Const('ret_' + name, __import__('vc.pyvc.values', fromlist=['Obj']).Obj))
        return h
    w = SObj(core.Wordnet, name='W')
    for meth, target, nargs in (('hypernym_paths', T.hypernym_paths, 0), ('min_depth', T.min_depth, 0),
                                ('max_depth', T.max_depth, 0), ('shortest_path', T.shortest_path, 1),
                                ('common_hypernyms', T.common_hypernyms, 1),
                                ('lowest_common_hypernyms', T.lowest_common_hypernyms, 1)):
        selfv = SObj(core.Synset, name='self')
        other = SObj(core.Synset, name='other')
        sr = mk('bool', 'simulate_root')
        recorded.clear()
        args = [selfv] + ([other] if nargs else [])
        outs = explore(lambda it: it.call_function(core.Synset.__dict__[meth], args, {'simulate_root': sr}),
                       contracts={target: rec(target.__name__)}, packages=('wn',))
        ok = len(outs) == 1 and outs[0].kind == 'return' and len(recorded) == 1 and \
            recorded[0][1][0] is selfv and (not nargs or recorded[0][1][1] is other) and \
            recorded[0][2].get('simulate_root', recorded[0][1][-1] if len(recorded[0][1]) > 1 + nargs else None) is sr
        obs.append(Obligation(f'wn._core.Synset.{meth}:delegates', PROP, 'post', decided=bool(ok),
                              detail=f'calls wn.taxonomy.{target.__name__}(self{", other" if nargs else ""}, '
                                     f'simulate_root=simulate_root): {recorded[:1]!r}'[:300],
                              functions=(f'wn._core.Synset.{meth}',)))
    for meth, want in (('hypernyms', ('hypernym', 'instance_hypernym')), ('hyponyms', ('hyponym', 'instance_hyponym')),
                       ('holonyms', ('holonym', 'holo_location', 'holo_member', 'holo_part', 'holo_portion',
                                     'holo_substance')),
                       ('meronyms', ('meronym', 'mero_location', 'mero_member', 'mero_part', 'mero_portion',
                                     'mero_substance'))):
        selfv = SObj(core.Synset, name='self')
        recorded.clear()
        outs = explore(lambda it: it.call_function(core.Synset.__dict__[meth], [selfv], {}),
                       contracts={core.Synset.get_related: rec('get_related')}, packages=('wn',))
        ok = len(recorded) == 1 and tuple(recorded[0][1][1:]) == want
        obs.append(Obligation(f'wn._core.Synset.{meth}:relation-types', PROP, 'post', decided=bool(ok),
                              detail=f'get_related{tuple(recorded[0][1][1:]) if recorded else ()} (expected {want})',
                              functions=(f'wn._core.Synset.{meth}',)))
    # _hypernym_paths uses exactly hypernym + instance_hypernym
    return obs


K4_CLAUSES = {'lowest_common_hypernyms': 'K4', 'taxonomy_depth': 'K4'}


def bounded(sess: Session):
    from bounded import graphs as G
    from contracts.C11 import report_graph_failures
    cases, fails = G.sweep('paths', 4)
    sess.add_bounded('wn._core._Relatable.relation_paths / closure', 'every labelled digraph with <= 4 nodes x every '
                     'start x every end', cases, 'small-scope enumeration on the real methods', not fails)
    report_graph_failures(sess, fails, PROP)
    n = 4 if sess.tier == 'thorough' else 3
    cases, fails = G.sweep('taxonomy', n)
    sess.add_bounded('wn.taxonomy.*', f'every labelled digraph with <= {n} nodes x every ordered pair x simulate_root; '
                     f'lowest_common_hypernyms / taxonomy_depth on graphs without a cycle of length >= 2', cases,
                     'small-scope enumeration on the real functions', not fails)
    report_graph_failures(sess, fails, PROP)
    cases, fails = G.targeted('taxonomy')
    sess.add_bounded('wn.taxonomy.* (several lowest common hypernyms, unsorted hypernym lists)', f'{cases} hand-picked '
                     'graphs x all ordered pairs x simulate_root', cases, 'native execution', not fails)
    report_graph_failures(sess, fails, PROP)
    if sess.tier == 'thorough':
        for kind in ('paths', 'taxonomy'):
            for nn in (5, 6, 7):
                cases, fails = G.sample(kind, nn, 3000, seed=sess.seed)
                sess.add_bounded(f'wn.taxonomy / relation_paths ({kind}, larger graphs)',
                                 f'{cases} random digraphs with {nn} nodes (seed {sess.seed}; half of them acyclic)',
                                 cases, 'random sampling on the real functions', not fails)
                report_graph_failures(sess, fails, PROP)
    # K4: the recorded deviation on graphs with a cycle of length >= 2 (still reported, as a known finding)
    g = ((1,), (2,), (0,), (0,))      # 0->1->2->0 with tail 3->0
    nodes, w = G.build(g)
    td = T.taxonomy_depth(w, 'n')
    longest = max((len(p) for i in range(4) for p in G.maximal_simple_paths(g, i)), default=0)
    if td != longest:
        sess.violation_direct('wn.taxonomy.taxonomy_depth:cyclic', f'taxonomy_depth = {td}, longest chain = {longest}',
                              {'graph': g}, True, finding='K4', functions=('wn.taxonomy.taxonomy_depth',))


def placeholder_walks(sess: Session):
    """Hypernym walks that START at a synset inferred through an expand lexicon (a placeholder handed out by
    hypernyms()): on a real database (lexicon u expanded by the taxonomy lexicon t of bounded/determinism.py)
    hypernym_paths(p) against a brute-force enumeration of the maximal simple chains over p.hypernyms()."""
    import os
    import shutil
    import tempfile
    import wn
    from bounded import determinism as D
    work = tempfile.mkdtemp(prefix='wnph13')
    old = wn.config.data_directory
    wrong, cases = [], 0
    try:
        D.build(work)
        wn.config.data_directory = os.path.join(work, 'data')
        w = wn.Wordnet('u:1', expand='t:1')
        key = lambda x: (x.id, x._ili)      # noqa: E731

        def chains(x, seen):
            nxt = [h for h in x.get_related('hypernym', 'instance_hypernym') if key(h) not in seen]
            if not nxt:
                return [[]]
            return [[h] + c for h in nxt for c in chains(h, seen | {key(h)})]
        placeholders = {}
        for s in w.synsets():
            for h in s.closure('hypernym', 'instance_hypernym'):
                if h.id == '*INFERRED*':
                    placeholders[key(h)] = h
        # walks that START at stored synsets and run through several different inferred synsets: exact
        stored_bad = []
        for spec in ('u:1', 'w:1'):
            wx = wn.Wordnet(spec, expand='t:1')
            sss = wx.synsets()
            anc = {}
            for s in sss:
                cases += 1
                want = sorted([key(x) for x in c] for c in chains(s, {key(s)}) if c)
                got = sorted([key(x) for x in c] for c in T.hypernym_paths(s))
                if got != want:
                    stored_bad.append({'wordnet': spec, 'start': key(s), 'hypernym_paths': got, 'chains': want})
                dist = {key(s): 0}
                for c in chains(s, {key(s)}):
                    for d, x in enumerate(c, 1):
                        dist[key(x)] = min(dist.get(key(x), d), d)
                anc[key(s)] = dist
            for a in sss:
                for b in sss:
                    cases += 1
                    common = set(anc[key(a)]) & set(anc[key(b)])
                    try:
                        got_c = sorted(key(x) for x in T.common_hypernyms(a, b))
                    except wn.Error as exc:
                        got_c = f'wn.Error: {exc}'
                    if got_c != sorted(common):
                        stored_bad.append({'wordnet': spec, 'pair': (key(a), key(b)), 'common_hypernyms': got_c,
                                           'expected': sorted(common)})
                    if common:
                        want_len = min(anc[key(a)][c] + anc[key(b)][c] for c in common)
                        try:
                            got_len = len(T.shortest_path(a, b))
                        except wn.Error as exc:
                            got_len = f'wn.Error: {exc}'
                        if got_len != want_len:
                            stored_bad.append({'wordnet': spec, 'pair': (key(a), key(b)), 'shortest_path length': got_len,
                                               'expected': want_len})
        if stored_bad:
            sess.violation_direct('wn.taxonomy:through-inferred-synsets', 'hypernym_paths / common_hypernyms / '
                                  'shortest_path of stored synsets whose ancestors are inferred differ from the '
                                  'definitions', {'witness': stored_bad[0], 'cases': len(stored_bad)}, True,
                                  functions=('wn.taxonomy.hypernym_paths', 'wn.taxonomy._shortest_hyp_paths',
                                             'wn._core._Relatable.relation_paths'))
        for k, p in sorted(placeholders.items()):
            cases += 1
            want = sorted([key(x) for x in c] for c in chains(p, {key(p)}) if c)
            got = sorted([key(x) for x in c] for c in T.hypernym_paths(p))
            if got != want:
                wrong.append({'start': k, 'hypernym_paths': got, 'maximal simple chains': want})
    finally:
        wn.config.data_directory = old
        shutil.rmtree(work, ignore_errors=True)
    sess.add_bounded('wn.taxonomy.hypernym_paths started at an inferred synset', f'{cases} placeholders of lexicon u '
                     'expanded by the 11-synset taxonomy lexicon', cases, 'native execution against brute force',
                     ok=True, note='deviations are known finding K22')
    if wrong:
        sess.violation_direct('wn.taxonomy.hypernym_paths:from-inferred-synset', 'hypernym_paths of an inferred synset '
                              'differs from the maximal simple hypernym chains', {'witness': wrong[0], 'cases': len(wrong)},
                              True, finding='K22', functions=('wn._core._Relatable.relation_paths',
                                                              'wn._core._DatabaseEntity.__eq__'))


def run(sess: Session):
    # hypernym walks are built on Synset._iter_*relations and get_synset_relations: the synsets they hand out must
    # carry their own lexicon / ILI / Wordnet (sets of synsets and their hashes depend on it)
    from contracts import coreflows as _cf, querychecks as _qc
    _cf.run_flows(sess, PROP, {'Synset__iter_local_relations', 'Synset__iter_expanded_relations',
                               'Synset__iter_relations'})     # shared_relation_contracts
    _qc.run_result_checks(sess, PROP, {'get_synset_relations'})
    from contracts import C12 as _c12
    for _ob in _c12.placeholder_identity_obligations():
        _ob.prop = PROP          # seen-sets / path sets of synsets rely on it to keep inferred placeholders apart
        sess.check(_ob)
    sess.level = 'exploration'
    sess.explanation = ('bounded stand-in (exhaustive small-scope enumeration on the real functions) for the graph '
                        'algorithms; deductive obligations only for the non-worklist pieces')
    sess.assume('A-MATH', 'A-ENGINE')
    sess.trust('stub Synset.get_related = adjacency of the graph (its SQL side is C11)')
    for part, fn in (('pos-merge', pos_merge_obligations), ('delegation', delegation_obligations)):
        try:
            for ob in fn():
                sess.check(ob)
        except Unsupported as exc:
            sess.unsupported(f'C13:{part}', str(exc))
    bounded(sess)
    placeholder_walks(sess)
