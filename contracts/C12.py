"""C12 - relations borrowed through expand lexicons are mapped by ILI as documented.

  iter       Synset._iter_relations: own relations first (only for a stored synset), expanded ones only with an
             ILI and a non-empty expand set                                                                  pyvc
  expanded   Synset._iter_expanded_relations against the documented mapping (docs/guides/interlingual.rst): sources =
             every synset of E sharing the ILI except the synset itself; per relation whose target has an ILI one
             result per synset of the scope carrying it, else one placeholder (*INFERRED*, that ILI, own lexid);
             targets without ILI dropped; the Relation keeps E's source id, target id and lexicon              pyvc
  queries    find_synsets(ili=...), get_synset_relations, get_synsets_for_ilis return exactly the specified rows sqlvc
  init       Wordnet.__init__: default mode, expand defaults (declared installed dependencies, warning)  pyvc
"""
from __future__ import annotations

from vc.core import Obligation, Session, Unsupported
from contracts import coreflows, querychecks

PROP = 'C12'


def run(sess: Session):
    sess.assume('A-SQLITE', 'A-ENGINE')
    sess.trust('vc/pyvc, vc/sqlvc')
    coreflows.run_flows(sess, PROP, {'Synset__iter_relations', 'Synset__iter_expanded_relations',
                                     'Synset__iter_local_relations'})
    querychecks.run_result_checks(sess, PROP, {'find_synsets', 'get_synset_relations', 'get_synsets_for_ilis',
                                               'get_lexicon_dependencies'})
    # which dependencies count as installed: provider_rowid links maintained by _insert_lexicon (INSERT with the
    # (id, version) look-up + UPDATE ... WHERE provider_id = id AND provider_version = version) and ON DELETE SET NULL
    from contracts import addchecks
    addchecks.run_row_images(sess, PROP, only={'_insert_lexicon'})
    from vc.sqlvc.schema import load_schema
    fk = [f for f in load_schema().table('lexicon_dependencies').fks if f.column == 'provider_rowid']
    sess.check(Obligation('wn/schema.sql:ddl:provider_rowid-set-null', PROP, 'static',
                          decided=bool(fk) and fk[0].on_delete == 'SET NULL' and fk[0].ref_table == 'lexicons',
                          detail='lexicon_dependencies.provider_rowid REFERENCES lexicons ON DELETE SET NULL',
                          functions=('wn/schema.sql',)))
    try:
        for ob in coreflows.wordnet_init_obligations(PROP):
            sess.check(ob)
    except Unsupported as exc:
        sess.unsupported('wn._core.Wordnet.__init__:flow', str(exc))
