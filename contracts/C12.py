"""C12 - relations borrowed through expand lexicons are mapped by ILI as documented.

  iter       Synset._iter_relations: own relations first (only for a stored synset), expanded ones only with an
             ILI and a non-empty expand set                                                                  pyvc
  expanded   Synset._iter_expanded_relations against the documented mapping (docs/guides/interlingual.rst): sources =
             every synset of E sharing the ILI except the synset itself; per relation whose target has an ILI one
             result per synset of the scope carrying it, else one placeholder (*INFERRED*, that ILI, own lexid);
             targets without ILI dropped; the Relation keeps E's source id, target id and lexicon              pyvc
  queries    find_synsets(ili=...), get_synset_relations, get_synsets_for_ilis return exactly the specified rows sqlvc
  init       Wordnet.__init__: default mode, expand defaults (declared installed dependencies, warning)  pyvc
"""
from __future__ import annotations

from vc.core import Obligation, Session, Unsupported
from contracts import coreflows, querychecks

PROP = 'C12'


def run(sess: Session):
    sess.assume('A-SQLITE', 'A-ENGINE')
    sess.trust('vc/pyvc, vc/sqlvc')
    coreflows.run_flows(sess, PROP, {'Synset__iter_relations', 'Synset__iter_expanded_relations',
                                     'Synset__iter_local_relations'})
    querychecks.run_result_checks(sess, PROP, {'find_synsets', 'get_synset_relations', 'get_synsets_for_ilis',
                                               'get_lexicon_dependencies'})
    # which dependencies count as installed: provider_rowid links maintained by _insert_lexicon (INSERT with the
    # (id, version) look-up + UPDATE ... WHERE provider_id = id AND provider_version = version) and ON DELETE SET NULL
    from contracts import addchecks
    addchecks.run_row_images(sess, PROP, only={'_insert_lexicon'})
    from vc.sqlvc.schema import load_schema
    fk = [f for f in load_schema().table('lexicon_dependencies').fks if f.column == 'provider_rowid']
    sess.check(Obligation('wn/schema.sql:ddl:provider_rowid-set-null', PROP, 'static',
                          decided=bool(fk) and fk[0].on_delete == 'SET NULL' and fk[0].ref_table == 'lexicons',
                          detail='lexicon_dependencies.provider_rowid REFERENCES lexicons ON DELETE SET NULL',
                          functions=('wn/schema.sql',)))
    for ob in placeholder_identity_obligations():
        sess.check(ob)
    expand_bounded(sess)
    # an explicit expand argument is a specifier list resolved by find_lexicons (token by token)
    from contracts import C08 as _c08
    try:
        for ob in _c08.deductive_obligations():
            ob.prop = PROP
            sess.check(ob)
    except Unsupported as exc:
        sess.unsupported('wn._queries.find_lexicons', str(exc))
    try:
        for ob in coreflows.wordnet_init_obligations(PROP):
            sess.check(ob)
    except Unsupported as exc:
        sess.unsupported('wn._core.Wordnet.__init__:flow', str(exc))


def placeholder_identity_obligations() -> list:
    """Borrowed relation targets without a counterpart in the lexicon are placeholder synsets that all carry the
    sentinel rowid (so they compare equal) and differ in their ILI: what keeps two of them apart in the dict/set
    based de-duplication of relations()/get_related()/paths is that Synset.__hash__ depends on the ILI."""
    import z3
    import wn._core as core
    from vc.pyvc.interp import explore, source_span
    from vc.pyvc.values import SObj, mk, SV
    from vc.pyvc.builtins_sym import HashVal
    from vc.pyvc import famcmp
    cm = dict(prop=PROP, functions=('wn._core.Synset.__hash__',), source=source_span(core.Synset.__hash__),
              assumptions_used=())
    a = SObj(core.Synset, {'_id': mk('int', 'rowid'), '_lexid': mk('int', 'lexid'), '_ili': mk('str', 'ili_a', True),
                           'id': mk('str', 'name')}, name='a')
    b = SObj(core.Synset, {'_id': mk('int', 'rowid'), '_lexid': mk('int', 'lexid'), '_ili': mk('str', 'ili_b', True),
                           'id': mk('str', 'name')}, name='b')
    obs = []
    outs_a = explore(lambda it: it.call_function(core.Synset.__hash__, [a], {}), packages=('wn',))
    outs_b = explore(lambda it: it.call_function(core.Synset.__hash__, [b], {}), packages=('wn',))
    ok = len(outs_a) == 1 and len(outs_b) == 1 and all(o.kind == 'return' and isinstance(o.value, HashVal)
                                                         for o in outs_a + outs_b)
    if not ok:
        return [Obligation('wn._core.Synset.__hash__:shape', kind='post', decided=False,
                           detail='__hash__ is not hash(<tuple of attributes>)', **cm)]
    ca, cb = outs_a[0].value.comps, outs_b[0].value.comps
    same = famcmp.value_eq(tuple(ca), tuple(cb))
    ia, ib = a.attrs['_ili'], b.attrs['_ili']
    differ = z3.Not(z3.Or(z3.And(ia.none, ib.none), z3.And(z3.Not(ia.none), z3.Not(ib.none), ia.z == ib.z)))
    from vc.pyvc.values import z_bool
    obs.append(Obligation('wn._core.Synset.__hash__:distinguishes-ili', kind='post', assumptions=[differ],
                          goal=z3.Not(z_bool(same)),
                          detail='two synsets with the same rowid and lexicon but different ILIs (inferred placeholders) '
                                 'must hash over different values, otherwise sets and dicts merge them', **cm))
    return obs


def _pub_ili(s):
    """The ILI a result carries, as the public API shows it (placeholders included)."""
    i = s.ili
    return i.id if i is not None else None


def expand_bounded(sess: Session):
    """Native stand-in: a lexicon L (five synsets linked to the taxonomy lexicon only through ILIs) expanded by the
    taxonomy lexicon of bounded/determinism.py - borrowed hypernyms/hyponyms against a reference computed from the
    source data: one result per (relation, target ILI); a target ILI without synset in L gives one placeholder per ILI
    (several placeholders must not be merged), expand='' borrows nothing."""
    import os
    import shutil
    import tempfile
    import wn
    from bounded import determinism as D
    work = tempfile.mkdtemp(prefix='wnexp12')
    old = wn.config.data_directory
    bad, cases = [], 0
    try:
        D.build(work)
        wn.config.data_directory = os.path.join(work, 'data')
        tax = D.taxonomy_lexicon()
        ili_of = {ss['id']: ss['ili'] for ss in tax['synsets']}
        rels = {ss['id']: [(r['relType'], r['target']) for r in ss.get('relations', [])] for ss in tax['synsets']}
        by_ili = {ss['ili']: ss['id'] for ss in tax['synsets']}
        local = {'i1': 'u-1', 'i3': 'u-2', 'i0': 'u-3', 'i5': 'u-4', 'i6': 'u-5'}
        w = wn.Wordnet('u:1', expand='t:1')
        w0 = wn.Wordnet('u:1', expand='')
        for ili, uid in local.items():
            src = by_ili[ili]
            for rel in ('hypernym', 'hyponym'):
                cases += 1
                want = sorted((local.get(ili_of[t], '*INFERRED*'), ili_of[t]) for r, t in rels[src] if r == rel)
                got = sorted((s.id, _pub_ili(s)) for s in w.synset(uid).get_related(rel))
                if got != want:
                    bad.append({'synset': uid, 'relation': rel, 'got': got, 'expected': want})
                got2 = sorted((s.id, _pub_ili(s)) for ss in [w.synset(uid)] for k, v in ss.relations(rel).items() for s in v)
                if got2 != want:
                    bad.append({'synset': uid, 'relation': rel, 'relations()': got2, 'expected': want})
                if w0.synset(uid).get_related(rel):
                    bad.append({'synset': uid, 'relation': rel, "expand=''": 'borrows relations'})
        # several placeholders in one result: the root concept's hyponyms c1 (i3) and c2 (i4) are both absent from v
        cases += 1
        wv = wn.Wordnet('v:1', expand='t:1')
        got = sorted((s.id, _pub_ili(s)) for s in wv.synset('v-1').hyponyms())
        want = [('*INFERRED*', 'i3'), ('*INFERRED*', 'i4')]
        if got != want:
            bad.append({'synset': 'v-1', 'relation': 'hyponym', 'got': got, 'expected': want})
        got = sorted((s.id, _pub_ili(s)) for s in wv.synset('v-1').get_related('hyponym'))
        if got != want:
            bad.append({'synset': 'v-1', 'get_related': got, 'expected': want})
        # closure() through placeholders = least fixed point of get_related (entities told apart by (id, ILI))
        for start in [w.synset(u) for u in local.values()] + [wv.synset('v-1')]:
            for rel in ('hypernym', 'hyponym'):
                cases += 1
                seen, todo = {}, list(start.get_related(rel))
                while todo:
                    x = todo.pop(0)
                    if (x.id, x._ili) not in seen:
                        seen[(x.id, x._ili)] = True
                        todo.extend(x.get_related(rel))
                got = sorted((x.id, x._ili) for x in start.closure(rel))
                if got != sorted(seen):
                    bad.append({'synset': start.id, 'closure': rel, 'got': got, 'reachable': sorted(seen)})
    finally:
        wn.config.data_directory = old
        shutil.rmtree(work, ignore_errors=True)
    sess.add_bounded('Synset.get_related / relations through an expand lexicon', '5 synsets x hypernym/hyponym over the '
                     '11-synset taxonomy lexicon (several inferred placeholders per result)', cases,
                     'native execution against a reference computed from the source data', not bad)
    if bad:
        sess.violation_direct('wn._core.Synset.get_related:expand:bounded', 'borrowed relations differ from the reference',
                              {'witness': bad[:3]}, True, functions=('wn._core.Synset.get_related',
                                                                     'wn._core.Synset._iter_expanded_relations',
                                                                     'wn._util.unique_list'))
