"""C14 - similarity metrics equal their formulas, are symmetric and bounded.

Deductive part (pyvc + z3 reals, for ALL graphs: the graph enters only through the contracts of the taxonomy
methods, which are C13's): each function of wn/similarity.py is executed symbolically with
    synset.shortest_path(other, sr)        -> wn.Error iff not conn(a,b,sr), else a path of length dist(a,b,sr)
    synset.lowest_common_hypernyms(o, sr)  -> the set LCS(a,b,sr) in an unspecified order (C16!), empty iff nothing common
    synset.max_depth()                     -> depth(c) >= 0
    information_content / Freq             -> IC from positive weights, weight <= total
    math.log                               -> strictly increasing, log 1 = 0 (A-FLOAT: reals)
with the C13 facts dist symmetric, dist = 0 iff same synset, LCS(a,b) = LCS(b,a), LCS(a,a) = {a}.
Obligations: value = documented formula; symmetry; bounds; self-similarity maximal (path, wup, lch);
wn.Error for incompatible parts of speech (a = s) and for missing common hypernyms; lch rejects max_depth <= 0;
no other exception (KeyError ...).
Bounded part: the same clauses on the real functions over every digraph with <= 3 (quick) / 4 (thorough) nodes.
"""
from __future__ import annotations

import math

import z3

import wn
import wn.similarity as S
import wn.ic as wnic
import wn._core as core
from vc.core import Obligation, Session, Unsupported
from vc.pyvc.values import SV, SObj, Sym, mk, z_and, z_or, z_not, z_bool, LITS, UStr, Obj, SeqBase
from vc.pyvc.interp import explore, PyRaise, SymMethod, source_span, AbstractFn
from vc.pyvc import interp as I
from contracts.common import lit_axioms, path_id

PROP = 'C14'

Node = z3.DeclareSort('Node')
dist = z3.Function('dist', Node, Node, z3.BoolSort(), z3.IntSort())
conn = z3.Function('conn', Node, Node, z3.BoolSort(), z3.BoolSort())
has_lcs = z3.Function('has_lcs', Node, Node, z3.BoolSort(), z3.BoolSort())
in_lcs = z3.Function('in_lcs', Node, Node, z3.BoolSort(), Node, z3.BoolSort())
depth = z3.Function('max_depth', Node, z3.IntSort())
weight = z3.Function('weight', UStr, Node, z3.RealSort())
total = z3.Function('total', UStr, z3.RealSort())
log = z3.Function('log', z3.RealSort(), z3.RealSort())
pos_of = z3.Function('pos', Node, UStr)
# the fixed total order in which lowest_common_hypernyms() lists its result: sorted by (rowid, ILI) - contract of
# wn.taxonomy._shortest_hyp_paths / _synset_sort_key (C13, C16); injective on the synsets of one Wordnet
rank = z3.Function('sort_rank', Node, z3.IntSort())
# common hypernyms (ancestors-or-self of both): contract of Synset.common_hypernyms (C13); the lowest ones are among them
in_common = z3.Function('in_common', Node, Node, z3.BoolSort(), Node, z3.BoolSort())


def collect_terms(formulas):
    """Node constants, Bool simulate_root terms, log arguments and pos terms occurring in the formulas."""
    nodes, srs, logs, poss = {}, {}, {}, {}
    seen = set()
    stack = list(formulas)
    while stack:
        x = stack.pop()
        if not z3.is_expr(x) or x.get_id() in seen:
            continue
        seen.add(x.get_id())
        if z3.is_quantifier(x):
            stack.append(x.body())
            continue
        if z3.is_app(x):
            d = x.decl()
            if x.sort() == Node and x.num_args() == 0 and d.kind() == z3.Z3_OP_UNINTERPRETED:
                nodes[x.get_id()] = x
            if d.name() in ('dist', 'conn', 'has_lcs', 'in_lcs', 'in_common') and x.num_args() >= 3 and not has_var(x.arg(2)):
                srs[x.arg(2).get_id()] = x.arg(2)
            if d.name() == 'log' and not has_var(x.arg(0)):
                logs[x.arg(0).get_id()] = x.arg(0)
            if d.name() in ('weight', 'total') and not has_var(x.arg(0)):
                poss[x.arg(0).get_id()] = x.arg(0)
            stack.extend(x.children())
    return list(nodes.values()), list(srs.values()), list(logs.values()), list(poss.values())


def has_var(t) -> bool:
    stack = [t]
    seen = set()
    while stack:
        x = stack.pop()
        if x.get_id() in seen:
            continue
        seen.add(x.get_id())
        if z3.is_var(x):
            return True
        if z3.is_app(x):
            stack.extend(x.children())
        elif z3.is_quantifier(x):
            return True
    return False


def graph_axioms(formulas=()):
    """Ground instances (for the terms of the obligation) of the C13 / C15 / A-FLOAT contracts."""
    nodes, srs, logs, poss = collect_terms(formulas)
    srs = srs or [z3.BoolVal(False)]
    out = [log(z3.RealVal(1)) == 0]
    for sr in srs:
        for a in nodes:
            out += [conn(a, a, sr), has_lcs(a, a, sr), dist(a, a, sr) == 0]
            for c in nodes:
                out.append(in_lcs(a, a, sr, c) == (c == a))
            for b in nodes:
                out += [dist(a, b, sr) >= 0, dist(a, b, sr) == dist(b, a, sr), conn(a, b, sr) == conn(b, a, sr),
                        z3.Implies(conn(a, b, sr), (dist(a, b, sr) == 0) == (a == b)),
                        has_lcs(a, b, sr) == has_lcs(b, a, sr)]
                for c in nodes:
                    sat, adj = LITS.lit('s'), LITS.lit('a')
                    npos = lambda x: z3.If(pos_of(x) == sat, adj, pos_of(x))
                    out += [z3.Implies(in_lcs(a, b, sr, c), in_common(a, b, sr, c)),
                            z3.Implies(in_common(a, b, sr, c), z3.And(has_lcs(a, b, sr), npos(c) == npos(a),
                                                                      conn(a, c, sr), conn(b, c, sr))),
                            in_common(a, b, sr, c) == in_common(b, a, sr, c),
                            z3.Implies(in_lcs(a, b, sr, c), npos(c) == npos(a)),
                            in_lcs(a, b, sr, c) == in_lcs(b, a, sr, c),
                            z3.Implies(in_lcs(a, b, sr, c), z3.And(conn(a, c, sr), conn(b, c, sr), has_lcs(a, b, sr),
                                                                   dist(a, c, sr) + dist(b, c, sr) >= dist(a, b, sr)))]
    for a in nodes:
        out.append(depth(a) >= 0)
        for b in nodes:
            if not a.eq(b):
                out.append(z3.Implies(a != b, rank(a) != rank(b)))
        for p in poss:
            out.append(z3.And(weight(p, a) > 0, weight(p, a) <= total(p)))
    # A-FLOAT: log strictly increasing on positive reals
    logs = logs + [z3.RealVal(1)]
    for x in logs:
        for y in logs:
            if not x.eq(y):
                out.append(z3.Implies(z3.And(x > 0, y > 0, x < y), log(x) < log(y)))
                out.append(z3.Implies(z3.And(x > 0, y > 0, x == y), log(x) == log(y)))
    return out


def with_axioms(ob: Obligation):
    """Add the ground contract instances; None if the path is infeasible under them (nothing to prove)."""
    ax = graph_axioms(list(ob.assumptions) + [ob.goal] + list(ob.restricted or []))
    ob.assumptions = list(ob.assumptions) + ax
    s = z3.Solver()
    s.set('timeout', 3000)
    s.add(*ob.assumptions)
    if s.check() == z3.unsat:
        return None
    return ob


def exists_over(formulas, body):
    """Exists c: body(c), proved with a witness among the Node constants of the path."""
    nodes, _, _, _ = collect_terms(formulas)
    return z_or(*[body(n) for n in nodes]) if nodes else z3.BoolVal(False)


class SynNode(SObj):
    """A synset of an arbitrary graph: identity + pos; taxonomy methods by contract."""

    def __init__(self, name):
        super().__init__(core.Synset, name=name)
        self.n = z3.Const(name, Node)
        self.attrs['pos'] = SV('str', pos_of(self.n))
        self.attrs['id'] = NodeId(self.n)

    def vc_getattr(self, it, name, node):
        me = self
        if name == 'shortest_path':
            def sp(i, a, k, nd):
                other = a[0]
                sr = _sr(k.get('simulate_root', a[1] if len(a) > 1 else False))
                c = conn(me.n, other.n, sr)
                if not i.ctx.branch(c):
                    raise PyRaise(wn.Error, ('no path',), nd)
                return PathVal(dist(me.n, other.n, sr))
            return SymMethod(sp, 'shortest_path')
        if name == 'lowest_common_hypernyms':
            def lch(i, a, k, nd):
                other = a[0]
                sr = _sr(k.get('simulate_root', a[1] if len(a) > 1 else False))
                return LCSList(me.n, other.n, sr)
            return SymMethod(lch, 'lowest_common_hypernyms')
        if name == 'common_hypernyms':
            def ch(i, a, k, nd):
                other = a[0]
                sr = _sr(k.get('simulate_root', a[1] if len(a) > 1 else False))
                return LCSList(me.n, other.n, sr, in_common)
            return SymMethod(ch, 'common_hypernyms')
        if name == 'max_depth':
            return SymMethod(lambda i, a, k, nd: SV('int', depth(me.n)), 'max_depth')
        return NotImplemented


class NodeId(SV):
    """synset.id : used only as a key of the weights table."""
    __slots__ = ('n',)

    def __init__(self, n):
        super().__init__('obj', z3.Const(str(n) + '.id', Obj))
        self.n = n


def _sr(v):
    if isinstance(v, SV):
        return v.z
    return z3.BoolVal(bool(v))


class PathVal(Sym):
    def __init__(self, length):
        self.length = length


class LCSList(SeqBase):
    """lowest_common_hypernyms(...): a non-ordered collection; [0] is SOME member (which one depends on set
    iteration order); max(key=f) is a member maximising f."""
    _k = 0

    def __init__(self, a, b, sr, pred=None):
        self.a, self.b, self.sr = a, b, sr
        self.pred = in_lcs if pred is None else pred           # in_lcs (lowest common hypernyms) or in_common (all common hypernyms)

    def __hash__(self):
        return id(self)

    def nonempty(self):
        return has_lcs(self.a, self.b, self.sr)

    def leaves(self):
        raise Unsupported('iteration over the lowest common hypernyms')

    def vc_truthy(self, it):
        return self.nonempty()

    def pick(self, it, tag):
        LCSList._k += 1
        s = SynNode(f'lcs{LCSList._k}_{tag}')
        it.ctx.assume(self.pred(self.a, self.b, self.sr, s.n))
        return s

    def vc_index(self, it, idx, node):
        if idx != 0:
            raise Unsupported('index other than 0 into the lowest common hypernyms')
        it.safety_check(self.nonempty(), IndexError, node, 'lowest common hypernyms is empty')
        s = self.pick(it, 'first')
        # the list is sorted: its first element is the member that comes first in the fixed order
        m = z3.Const(f'lcs_any{LCSList._k}', Node)
        it.ctx.assume(z3.ForAll([m], z3.Implies(self.pred(self.a, self.b, self.sr, m), rank(s.n) <= rank(m)),
                                patterns=[self.pred(self.a, self.b, self.sr, m)]))
        return s

    def vc_minmax(self, it, is_max, key, default, node):
        s = self.pick(it, 'argmax')
        m = SynNode('anyLCS')
        # the key function is only ever applied to members of the collection
        it.ctx.assume(self.pred(self.a, self.b, self.sr, m.n))
        kv = it.call(key, [s], {}, node)
        km = it.call(key, [m], {}, node)
        c = km.z <= kv.z if is_max else km.z >= kv.z
        it.ctx.assume(z3.ForAll([m.n], z3.Implies(self.pred(self.a, self.b, self.sr, m.n), c)))
        return s


def _getitem_hook():
    from vc.pyvc import builtins_sym as B
    orig = B.getitem

    def getitem(it, obj, idx, node):
        if isinstance(obj, LCSList):
            return obj.vc_index(it, idx, node)
        return orig(it, obj, idx, node)
    B.getitem = getitem
    orig_len = B.b_len

    def b_len(it, args, kw, node):
        if isinstance(args[0], PathVal):
            return SV('int', args[0].length)
        return orig_len(it, args, kw, node)
    B._TABLE[len] = b_len


_getitem_hook()


class FreqObj(SObj):
    """ic: Freq = {pos in n,v,a,r: {synset id or None: weight}} (contract of wn.ic._initialize / compute / load)."""

    def __init__(self):
        super().__init__(type('Freq', (), {}), name='ic')

    def vc_getitem(self, it, idx, node):
        p = idx if isinstance(idx, SV) else SV('str', LITS.lit(idx))
        ok = z_or(*[p.z == LITS.lit(x) for x in sorted(wnic.IC_PARTS_OF_SPEECH)])
        it.safety_check(ok, KeyError, node, 'ic[pos]: the weights table has entries for n, v, a, r only')
        return PosFreq(p)


class PosFreq(SObj):
    def __init__(self, p):
        super().__init__(type('PosFreq', (), {}), name='ic[pos]')
        self.p = p

    def vc_getitem(self, it, idx, node):
        if idx is None:
            return SV('real', total(self.p.z))
        if isinstance(idx, NodeId):
            return SV('real', weight(self.p.z, idx.n))
        raise Unsupported('weights table key')


def contracts():
    def h_log(it, args, kwargs, node):
        x = args[0]
        if not isinstance(x, SV):
            return math.log(x)
        z = z3.ToReal(x.z) if x.kind == 'int' else x.z
        it.safety_check(z > 0, ValueError, node, 'math domain error (log of a non-positive number)')
        return SV('real', log(z))
    return {math.log: h_log, 'math.log': h_log, wnic.log: h_log}


def explore_fn(fn, args, kwargs=None):
    return explore(lambda it: it.call(fn, list(args), dict(kwargs or {})), contracts=contracts(),
                   packages=('wn',))


def deductive_obligations() -> list:
    obs = []
    ax = []
    a, b = SynNode('a'), SynNode('b')
    sr = mk('bool', 'simulate_root')
    ADJ, SAT = LITS.lit('a'), LITS.lit('s')

    def norm(p):
        return z3.If(p == SAT, ADJ, p)
    compatible = norm(pos_of(a.n)) == norm(pos_of(b.n))
    # precondition of the information-content based metrics: parts of speech for which weights exist (n, v, a, r and
    # the satellite adjective s, counted as a); A-POS: a hypernym has the part of speech of its hyponym up to a/s
    ic_pos = [z_or(*[pos_of(x.n) == LITS.lit(p) for p in 'nvasr']) for x in (a, b)]
    base = ax + lit_axioms()
    cm = dict(prop=PROP, kind='post')

    def outcomes(fn, args):
        return explore_fn(fn, args)

    def raises_only(name, fn, outs, allowed_cond, base_override=None):
        """Every raising path raises wn.Error and only under `allowed_cond`; no other exception at all."""
        for o in outs:
            if o.kind != 'raise':
                continue
            pid = path_id(o)
            is_wn = isinstance(o.exc.exc_type, type) and issubclass(o.exc.exc_type, wn.Error)
            obs.append(Obligation(f'{name}:raises:{pid}', assumptions=(base_override or base) + list(o.pc),
                                  goal=allowed_cond if is_wn else z3.BoolVal(False),
                                  detail=f'{o.exc.exc_type.__name__} is raised only for incompatible parts of speech / '
                                         f'missing common hypernym' if is_wn else
                                  f'{o.exc.exc_type.__name__}: {o.exc.args_v}', functions=(name,),
                                  source=source_span(fn), **cm))
    # ---- path -------------------------------------------------------------------------------------------------
    name = 'wn.similarity.path'
    for x, y, tag in ((a, b, 'ab'),):
        outs = outcomes(S.path, [x, y, sr])
        raises_only(name, S.path, outs, z3.Not(compatible))
        for o in outs:
            if o.kind != 'return':
                continue
            pid = path_id(o)
            v = _real(o.value)
            c = conn(a.n, b.n, sr.z)
            d = dist(a.n, b.n, sr.z)
            want = z3.If(c, 1 / (z3.ToReal(d) + 1), z3.RealVal(0))
            pc = base + list(o.pc)
            obs.append(Obligation(f'{name}:formula:{pid}', assumptions=pc, goal=v == want,
                                  detail='1/(distance+1), 0 when unconnected', functions=(name,), **cm))
            obs.append(Obligation(f'{name}:bounds:{pid}', assumptions=pc,
                                  goal=z3.And(v >= 0, v <= 1, (v == 1) == (a.n == b.n)),
                                  detail='in [0,1], 1 exactly for identical synsets', functions=(name,), **cm))
            obs.append(Obligation(f'{name}:compatible-pos:{pid}', assumptions=pc, goal=compatible,
                                  detail='a value is returned only for compatible parts of speech', functions=(name,), **cm))
        # symmetry: pairs of paths of path(a,b) and path(b,a)
        outs2 = outcomes(S.path, [b, a, sr])
        symmetric(obs, name, outs, outs2, base)
    # ---- lch ---------------------------------------------------------------------------------------------------
    name = 'wn.similarity.lch'
    md = mk('int', 'max_depth_arg')
    outs = outcomes(S.lch, [a, b, md, sr])
    raises_only(name, S.lch, outs, z3.Or(z3.Not(compatible), z3.Not(conn(a.n, b.n, sr.z)), md.z <= 0))
    for o in outs:
        if o.kind != 'return':
            continue
        pid = path_id(o)
        v = _real(o.value)
        d = z3.ToReal(dist(a.n, b.n, sr.z))
        pc = base + list(o.pc)
        obs.append(Obligation(f'{name}:formula:{pid}', assumptions=pc, goal=v == -log((d + 1) / (2 * z3.ToReal(md.z))),
                              detail='-log((distance+1)/(2*max_depth))', functions=(name,), **cm))
        obs.append(Obligation(f'{name}:guards:{pid}', assumptions=pc,
                              goal=z3.And(compatible, conn(a.n, b.n, sr.z), md.z > 0),
                              detail='a value only for compatible pos, connected synsets, positive depth',
                              functions=(name,), **cm))
        # self-similarity maximal
        self_v = -log((z3.RealVal(0) + 1) / (2 * z3.ToReal(md.z)))
        obs.append(Obligation(f'{name}:self-maximal:{pid}', assumptions=pc, goal=v <= self_v,
                              detail='no pair scores higher than a synset with itself (log monotone)',
                              functions=(name,), **cm))
    symmetric(obs, name, outs, outcomes(S.lch, [b, a, md, sr]), base)
    # ---- wup ---------------------------------------------------------------------------------------------------
    name = 'wn.similarity.wup'
    outs = outcomes(S.wup, [a, b, sr])
    raises_only(name, S.wup, outs, z3.Or(z3.Not(compatible), z3.Not(has_lcs(a.n, b.n, sr.z))))
    for o in outs:
        if o.kind != 'return':
            continue
        pid = path_id(o)
        v = _real(o.value)
        pc = base + list(o.pc)
        formula = exists_over(pc, lambda c: z3.And(in_lcs(a.n, b.n, sr.z, c), v == (2 * (z3.ToReal(depth(c)) + 1)) / (
            z3.ToReal(dist(a.n, c, sr.z)) + z3.ToReal(dist(b.n, c, sr.z)) + 2 * (z3.ToReal(depth(c)) + 1))))
        obs.append(Obligation(f'{name}:formula:{pid}', assumptions=pc, goal=formula,
                              detail='2k/(i+j+2k) for a lowest common hypernym c, k = depth(c)+1', functions=(name,), **cm))
        obs.append(Obligation(f'{name}:bounds:{pid}', assumptions=pc,
                              goal=z3.And(v > 0, v <= 1, z3.Implies(a.n == b.n, v == 1)),
                              detail='in (0,1], 1 for identical synsets', functions=(name,), **cm))
    # symmetry of wup: both calls take the FIRST element of the same sorted list (fixed finding K14: before fbfe3f9 the
    # list was in set-iteration order and the value depended on which lowest common hypernym came first)
    outs2 = outcomes(S.wup, [b, a, sr])
    symmetric(obs, name, outs, outs2, base, finding='K14')
    # ---- res / jcn / lin ------------------------------------------------------------------------------------------
    freq = FreqObj()
    for fname in ('res', 'jcn', 'lin'):
        fn = getattr(S, fname)
        name = f'wn.similarity.{fname}'
        outs = outcomes(fn, [a, b, freq])
        base_ic = base + ic_pos
        saved_base = base
        base = base_ic
        raises_only(name, fn, outs, z3.Or(z3.Not(compatible), z3.Not(has_lcs(a.n, b.n, z3.BoolVal(False)))),
                    base_override=base_ic)
        P = norm(pos_of(a.n))

        def IC(n):
            return -log(weight(P, n) / total(P))
        for o in outs:
            if o.kind != 'return':
                continue
            pid = path_id(o)
            pc = base + list(o.pc)
            infinite = isinstance(o.value, float) and math.isinf(o.value)
            v = z3.RealVal(0) if infinite else _real(o.value)
            m = z3.Const('m', Node)
            # jcn / lin (docs): c0 = the lowest common hypernym with the highest information content WEIGHT
            best = lambda cc: z3.And(in_lcs(a.n, b.n, z3.BoolVal(False), cc), z3.ForAll(
                [m], z3.Implies(in_lcs(a.n, b.n, z3.BoolVal(False), m), weight(P, m) <= weight(P, cc))))
            # res (docs): the MAXIMUM information content over ALL common subsumers (the lowest ones - greatest depth -
            # need not contain it: fixed finding F32)
            most_informative = lambda cc: z3.And(in_common(a.n, b.n, z3.BoolVal(False), cc), z3.ForAll(
                [m], z3.Implies(in_common(a.n, b.n, z3.BoolVal(False), m), weight(P, m) >= weight(P, cc))))
            Ex = lambda body: exists_over(pc, body)
            fid, restr = None, None
            if fname == 'res':
                goal = Ex(lambda c: z3.And(most_informative(c), v == IC(c)))
                fid = 'K15'
                c1, c2 = z3.Consts('c1 c2', Node)
                restr = [z3.ForAll([c1, c2], z3.Implies(z3.And(in_lcs(a.n, b.n, z3.BoolVal(False), c1),
                                                              in_lcs(a.n, b.n, z3.BoolVal(False), c2)),
                                                       weight(P, c1) == weight(P, c2)))]
            elif fname == 'jcn':
                ica, icb = IC(a.n), IC(b.n)
                if infinite:
                    goal = Ex(lambda c: z3.And(best(c), z3.Not(z3.And(ica == 0, icb == 0, IC(c) == 0)),
                                               ica + icb == 2 * IC(c)))
                else:
                    goal = Ex(lambda c: z3.And(best(c), z3.If(
                        z3.And(ica == 0, icb == 0, IC(c) == 0), v == 0,
                        z3.And(ica + icb != 2 * IC(c), v == 1 / (ica + icb - 2 * IC(c))))))
            else:
                ica, icb = IC(a.n), IC(b.n)
                goal = Ex(lambda c: z3.And(best(c), z3.If(z3.Or(ica == 0, icb == 0), v == 0,
                                                          v == 2 * IC(c) / (ica + icb))))
            obs.append(Obligation(f'{name}:formula:{pid}', assumptions=pc, goal=goal, finding=fid, restricted=restr,
                                  detail='documented formula over the information content of the lowest common '
                                         'hypernym (res: maximum IC; jcn, lin: the one with the highest weight)',
                                  functions=(name, 'wn.ic.information_content'), **cm))
        symmetric(obs, name, outs, outcomes(fn, [b, a, freq]), base)
        base = saved_base
    # ---- _check_if_pos_compatible -----------------------------------------------------------------------------------
    p1, p2 = mk('str', 'pos1'), mk('str', 'pos2')
    for o in explore_fn(S._check_if_pos_compatible, [p1, p2]):
        comp = norm(p1.z) == norm(p2.z)
        obs.append(Obligation(f'wn.similarity._check_if_pos_compatible:{o.kind}:{path_id(o)}',
                              assumptions=list(o.pc) + lit_axioms(),
                              goal=comp if o.kind == 'return' else z3.Not(comp),
                              detail='wn.Error iff the parts of speech differ (a and s count as the same)',
                              functions=('wn.similarity._check_if_pos_compatible',), **cm))
    return obs


def _real(v):
    if isinstance(v, SV):
        return z3.ToReal(v.z) if v.kind == 'int' else v.z
    if isinstance(v, float) and math.isinf(v):
        raise Unsupported('infinite result')
    return z3.RealVal(repr(float(v)) if isinstance(v, float) else v)


def symmetric(obs, name, outs_ab, outs_ba, base, finding=None, restricted=None):
    for o1 in outs_ab:
        for o2 in outs_ba:
            pc = base + list(o1.pc) + list(o2.pc)
            s = z3.Solver()
            s.set('timeout', 3000)
            s.add(*pc)
            if s.check() == z3.unsat:
                continue
            pid = f'{path_id(o1)}/{path_id(o2)}'
            if o1.kind != o2.kind:
                obs.append(Obligation(f'{name}:symmetric:{pid}', PROP, 'post', assumptions=pc, goal=z3.BoolVal(False),
                                      detail='f(a,b) returns where f(b,a) raises', functions=(name,),
                                      finding=finding, restricted=restricted))
                continue
            if o1.kind == 'raise':
                continue
            inf1 = isinstance(o1.value, float) and math.isinf(o1.value)
            inf2 = isinstance(o2.value, float) and math.isinf(o2.value)
            if inf1 or inf2:
                obs.append(Obligation(f'{name}:symmetric:{pid}', PROP, 'post', assumptions=pc,
                                      goal=z3.BoolVal(inf1 == inf2), detail='f(a,b) == f(b,a) (infinite)',
                                      functions=(name,), finding=finding, restricted=restricted))
                continue
            v1, v2 = _real(o1.value), _real(o2.value)
            obs.append(Obligation(f'{name}:symmetric:{pid}', PROP, 'post', assumptions=pc, goal=v1 == v2,
                                  detail='f(a,b) == f(b,a)', functions=(name,), finding=finding,
                                  restricted=restricted))


def bounded(sess: Session):
    from bounded import graphs as G, simgraphs
    n = 4 if sess.tier == 'thorough' else 3
    cases, fails = G.sweep('similarity', n)
    sess.add_bounded('wn.similarity.path/wup/lch + taxonomy', f'every labelled digraph with <= {n} nodes x all ordered '
                     f'pairs x simulate_root', cases, 'small-scope enumeration on the real functions', not fails)
    c3, f3 = G.targeted('similarity')
    sess.add_bounded('wn.similarity.* (several lowest common hypernyms, unsorted hypernym lists)', f'{c3} hand-picked '
                     'graphs x all ordered pairs x simulate_root', c3, 'native execution', not f3)
    fails = list(fails) + list(f3)
    # res with two lowest common hypernyms of different weight: the maximum information content (smallest weight)
    import math
    nodes, w = G.build(((2, 3), (2, 3), (), ()))
    freq = {p: {None: 10.0} for p in 'nvar'}
    freq['n'].update({'ss0': 1.0, 'ss1': 1.0, 'ss2': 5.0, 'ss3': 2.0})
    got = S.res(nodes[0], nodes[1], freq)
    want = -math.log(2.0 / 10.0)
    ok = abs(got - want) < 1e-12 and abs(S.res(nodes[1], nodes[0], freq) - want) < 1e-12
    # ... and with a more informative common hypernym that is NOT among the lowest ones (c2 at depth 1, c1 at depth 2)
    nodes2, w2 = G.build(((2, 3), (2, 3), (6,), (7,), (2,), (7,), (7,), ()))
    freq2 = {p: {None: 40.0} for p in 'nvar'}
    freq2['n'].update({'ss0': 1.0, 'ss1': 1.0, 'ss2': 13.0, 'ss3': 3.0, 'ss4': 10.0, 'ss5': 5.0, 'ss6': 15.0, 'ss7': 20.0})
    got2 = S.res(nodes2[0], nodes2[1], freq2)
    want2 = -math.log(3.0 / 40.0)
    if abs(got2 - want2) >= 1e-12:
        ok = False
        got, want = got2, want2
    sess.add_bounded('wn.similarity.res (several lowest common hypernyms)', 'a 4-node graph (weights 5 and 2) and an '
                     '8-node graph whose most informative common hypernym is not a lowest one', 3,
                     'native execution against the documented maximum', ok)
    if not ok:
        sess.violation_direct('wn.similarity.res:maximum-ic', f'res = {got}, the maximum information content of the '
                              f'common subsumers is {want}', {'graph': '0,1 -> 2,3', 'weights': freq['n']}, True,
                              functions=('wn.similarity.res',))
    if sess.tier == 'thorough':
        for nn in (5, 6):
            c2, f2 = G.sample('similarity', nn, 2000, seed=sess.seed)
            sess.add_bounded('wn.similarity.* (larger graphs)', f'{c2} random digraphs with {nn} nodes (seed '
                             f'{sess.seed}; half of them acyclic) x all ordered pairs x simulate_root', c2,
                             'random sampling on the real functions', not f2)
            fails = list(fails) + list(f2)
    seen = set()
    for clause, witness in fails:
        if clause not in seen:
            seen.add(clause)
            sess.violation_direct(f'graph:{clause}', f'{clause} violated', {'witness': witness}, True,
                                  functions=('wn.similarity',))
    cases, fails = simgraphs.check_pos_compat()
    sess.add_bounded('wn.similarity (part-of-speech compatibility)', 'all 25 pos pairs over n,v,a,s,r', cases,
                     'enumeration', not fails)
    for clause, witness in fails[:1]:
        sess.violation_direct(f'similarity:{clause}', 'pos compatibility', {'witness': witness}, True)


def run(sess: Session):
    # hypernym walks are built on Synset._iter_*relations and get_synset_relations: the synsets they hand out must
    # carry their own lexicon / ILI / Wordnet (sets of synsets and their hashes depend on it)
    from contracts import coreflows as _cf, querychecks as _qc
    _cf.run_flows(sess, PROP, {'Synset__iter_local_relations', 'Synset__iter_expanded_relations',
                               'Synset__iter_relations'})     # shared_relation_contracts
    _qc.run_result_checks(sess, PROP, {'get_synset_relations'})
    from contracts import C12 as _c12
    for _ob in _c12.placeholder_identity_obligations():
        _ob.prop = PROP          # seen-sets / path sets of synsets rely on it to keep inferred placeholders apart
        sess.check(_ob)
    sess.assume('A-FLOAT', 'A-ENGINE', 'C13-contracts', 'C15-contracts')
    sess.trust('floats are reals, log strictly increasing (A-FLOAT)', 'the taxonomy contracts used here are the '
               'obligations of C13, the weight-table contract is C15')
    try:
        n_infeasible = 0
        for ob in deductive_obligations():
            ob2 = with_axioms(ob)
            if ob2 is None:
                n_infeasible += 1
                continue
            sess.check(ob2)
        sess.extra['paths_infeasible_under_contracts'] = n_infeasible
        # cover: the contract instances themselves are satisfiable (no vacuous proof base)
        a0, b0 = z3.Consts('a b', Node)
        cover = graph_axioms([dist(a0, b0, z3.Bool('sr')), in_lcs(a0, b0, z3.Bool('sr'), z3.Const('c', Node)),
                              log(weight(LITS.lit('n'), a0) / total(LITS.lit('n')))])
        s0 = z3.Solver()
        s0.add(*cover)
        if s0.check() != z3.sat:
            sess.errors.append('C14: the contract instances are not satisfiable (vacuous proof base)')
    except Unsupported as exc:
        sess.unsupported('wn.similarity:deductive', str(exc))
    bounded(sess)
