"""C07 - the way a resource is supplied does not change what gets stored.

  frame        symbolic execution of the real _add_lexical_resource (all _insert_* functions inlined): the log of stores
               into the caller's resource (every dict/record reachable from it) is empty on every path; the one
               callee kept abstract, _collect_frames, has its frame condition checked by the bounded stand-in  pyvc
  skip         every database write of _add_lexical_resource happens under `not skipmap[spec(lexicon)]`: a skipped
               lexicon (installed already, or extension without base) contributes nothing                  pyvc + z3
  _precheck    skipmap[format_lexicon_specifier(id, version)] <=> a lexicons row with that id and version exists, or
               the lexicon extends a base of which no row exists (the two SELECTs are the lexicons look-up by id and
               version; symbolic execution against the SQL model)                                   pyvc + sqlvc + z3
  routes       add(): one _add_lmf / _add_ili per package of iterpackages(source); _add_lmf and
               add_lexical_resource: both decide with _precheck over (id, version, extends) of every lexicon, return
               early iff ALL are skipped, and hand the loaded resource + that skipmap to the same
               _add_lexical_resource                                                                       pyvc + z3
  bounded      real files: xml, gz, xz, package directory with extra files, collection, tar / tar.gz / tar.xz of file,
               package and collection, in-memory; logical table dumps equal, second add changes nothing, inputs
               unchanged (hash / deep copy), extension without base adds nothing                        bounded
"""
from __future__ import annotations

import z3

import wn
import wn._add as A
from wn import lmf
from vc.core import Obligation, Session, Unsupported
from vc.pyvc.values import SV, SRec, SObj, SList, Slot, LITS, UStr, z_and, z_or, z_not, z_bool, mk
from vc.pyvc.interp import explore, source_span, MList, MDict, SymMethod
from vc.pyvc.dbmodel import World
from vc.pyvc import shapes
from vc.sqlvc import parse as P
from contracts import addmodel
from contracts import C06 as c06
from contracts.common import lit_axioms, path_id

PROP = 'C07'


def frame_and_skip_obligations() -> list:
    obs = []
    name = 'wn._add._add_lexical_resource'
    cm = dict(prop=PROP, functions=(name,), source=source_span(A._add_lexical_resource), assumptions_used=('A-SQLITE',))
    del shapes.MUTATION_LOG[:]
    world = World()
    res, outs = addmodel.explore_add(world)
    log = list(shapes.MUTATION_LOG)
    obs.append(Obligation(f'{name}:paths', kind='structure', decided=len(outs) > 0, detail=f'{len(outs)} paths', **cm))
    # frame: no store into the resource
    if not log:
        obs.append(Obligation(f'{name}:frame(resource)', kind='frame', decided=True,
                              detail='no statement of _add_lexical_resource or of the _insert_* functions stores into a '
                                     'record of the resource (store log empty on every path)', **cm))
    for k, entry in enumerate(log):
        recname, key, guard, binders, pc = entry[0], entry[1], entry[2], entry[3], entry[4]
        asm = list(pc) + [b.constraint for b in binders] + lit_axioms()
        obs.append(Obligation(f'{name}:frame(resource)#{k}:{recname}[{key!r}]', kind='frame', assumptions=asm,
                              goal=z3.Not(z_bool(guard)),
                              detail=f'the resource must not be modified: store into {recname}[{key!r}]', **cm))
    # skip: writes only for lexicons that are not skipped
    for o in outs:
        pid = path_id(o)
        if o.kind != 'return':
            continue
        skip_f = None
        n = 0
        for e in o.effects:
            if not c06.is_write(e):
                continue
            n += 1
            lexb = [b for b in e.binders if (getattr(b, 'key', None) or ('', ''))[1] == 'res.lexicons']
            table = getattr(e.extra.get('stmt'), 'table', '?')
            if not lexb:
                obs.append(Obligation(f'{name}:skip:{pid}:{table}#{n}', kind='effect', decided=False,
                                      detail=f'write to {table} outside the per-lexicon loop (not subject to the '
                                             'skip decision)', **cm))
                continue
            i = lexb[0].var
            lex = res.slots['lexicons'].value.at(i)
            spec = z3.Function('specifier', UStr, UStr, UStr)(lex.slots['id'].value.z, lex.slots['version'].value.z)
            skipped = z3.Function('skipmap', UStr, z3.BoolSort())(spec)
            asm = list(o.pc) + [b.constraint for b in e.binders] + [z_bool(e.guard)] + lit_axioms()
            obs.append(Obligation(f'{name}:skip:{pid}:{table}#{n}', kind='effect', assumptions=asm,
                                  goal=z3.Not(skipped), vacuity=(n == 1),
                                  detail=f'the write to {table} happens only for a lexicon that is not skipped', **cm))
    return obs


def precheck_obligations() -> list:
    obs = []
    name = 'wn._add._precheck'
    cm = dict(prop=PROP, functions=(name,), source=source_span(A._precheck), assumptions_used=('A-SQLITE',))
    world = World()
    contracts = c06.stub_contracts(world)
    spec_f = z3.Function('specifier', UStr, UStr, UStr)
    import wn._util
    contracts[wn._util.format_lexicon_specifier] = lambda it, a, k, n: SV('str', spec_f(a[0].z, a[1].z))
    contracts[A.format_lexicon_specifier] = contracts[wn._util.format_lexicon_specifier]

    def run(it):
        info = shapes.sym_record([lmf.ScanInfo], 'info')
        r = it.call(A._precheck, [MList([info]), addmodel.Progress()], {})
        return info, r
    outs = explore(run, contracts=contracts)
    obs.append(Obligation(f'{name}:paths', kind='structure', decided=len(outs) > 0, detail=f'{len(outs)} paths', **cm))
    for o in outs:
        pid = path_id(o)
        if o.kind != 'return':
            obs.append(Obligation(f'{name}:no-raise:{pid}', kind='safety', assumptions=list(o.pc) + lit_axioms(),
                                  goal=z3.BoolVal(False), detail=f'raises {o.exc.exc_type.__name__} {o.exc.args}',
                                  **cm))
            continue
        info, r = o.value
        writes = [e for e in o.effects if c06.is_write(e)]
        obs.append(Obligation(f'{name}:read-only:{pid}', kind='effect', decided=not writes,
                              detail='_precheck only reads', **cm))
        selects = [e for e in o.effects if e.kind == 'execute' and isinstance(e.extra.get('stmt'), P.Select)]
        # shape of the look-ups: SELECT ... FROM lexicons WHERE id = :id AND version = :version
        ok = True
        for e in selects:
            st = e.extra['stmt']
            conj = _conjuncts(st.where)
            cols = sorted(_eq_param(c) for c in conj)
            ok = ok and [f.source for f in st.frm] == ['lexicons'] and cols == [('id', 'id'), ('version', 'version')]
        obs.append(Obligation(f'{name}:lookup-shape:{pid}', kind='sql', decided=bool(ok and selects),
                              detail='the look-ups are SELECT FROM lexicons WHERE id = :id AND version = :version', **cm))
        key = spec_f(info.slots['id'].value.z, info.slots['version'].value.z)
        val = None
        if isinstance(r, MDict):
            # the stores into skipmap in program order (same key term): the last one executed wins
            from vc.pyvc.values import Lit, ite
            entries = [(True, k, v) for k, v in r.d.items()] + \
                      [(n.guard, n.elem[0], n.elem[1]) for n in r.nodes if isinstance(n, Lit)]
            if len(entries) == len(r.d) + len(r.nodes):
                for g, k, v in entries:
                    if isinstance(k, SV) and k.z.eq(key):
                        val = v if (val is None or g is True) else ite(z_bool(g), v, val)
        if val is None:
            obs.append(Obligation(f'{name}:key:{pid}', kind='post', decided=False,
                                  detail='skipmap has no entry for format_lexicon_specifier(id, version)', **cm))
            continue
        vz = val.z if isinstance(val, SV) else z3.BoolVal(bool(val))
        # what the path decided: rows found by the look-ups (their existence conditions are in the path condition)
        exists_self = _exists_row(world, info.slots['id'].value.z, info.slots['version'].value.z)
        ext = info.slots['extends']
        base = ext.value
        base_rec = base.rec if hasattr(base, 'rec') else base
        has_base = z3.And(z_bool(ext.present), z_bool(getattr(base, 'present', True)))
        exists_base = _exists_row(world, base_rec.slots['id'].value.z, base_rec.slots['version'].value.z)
        want = z3.Or(exists_self, z3.And(has_base, z3.Not(exists_base)))
        obs.append(Obligation(f'{name}:contract:{pid}', kind='post', assumptions=list(o.pc) + lit_axioms(),
                              goal=vz == want, timeout_ms=30000,
                              detail='skip <=> (id, version) installed, or extension whose base is not installed', **cm))
    return obs


def _exists_row(world, idz, verz):
    db = world.db
    r = z3.Int('r$lx')
    return z3.Exists([r], z3.And(db.in_('lexicons')(r), db.col('lexicons', 'id')(r) == idz,
                                 db.col('lexicons', 'version')(r) == verz))


def _conjuncts(e):
    if isinstance(e, P.Bin) and e.op.upper() == 'AND':
        return _conjuncts(e.left) + _conjuncts(e.right)
    return [e]


def _eq_param(e):
    if isinstance(e, P.Bin) and e.op in ('=', '=='):
        l, r = e.left, e.right
        if isinstance(l, P.Col) and isinstance(r, P.Param):
            return (l.name, getattr(r, 'name', None))
    return ('?', '?')


def route_replay(is_file, s1, s2):
    """The solver's model (which of the two lexicons of the source _precheck marks as skipped) as a history on the real
    code: the lexicons marked skipped are installed first, then the source with both lexicons is added through the
    route; a lexicon of the source that is not installed afterwards reproduces the violation."""
    def replay(res):
        import os, shutil, tempfile
        if res.z3model is None:
            return {'reproduced': False}
        skip = [z3.is_true(res.z3model.eval(v, model_completion=True)) for v in (s1, s2)]
        from bounded import lmfgen
        work = tempfile.mkdtemp(prefix='wnverif_route_replay_')
        old = wn.config.data_directory
        out = {'skipped (installed beforehand)': dict(zip(('aaa:1', 'bbb:1'), skip)),
               'call': 'wn.add(file with aaa:1 and bbb:1)' if is_file else
                       'wn.add_lexical_resource(lmf.load(file with aaa:1 and bbb:1))'}
        try:
            os.makedirs(os.path.join(work, 'data'))
            wn.config.data_directory = os.path.join(work, 'data')
            lexs = [lmfgen.minimal_lexicon('aaa'), lmfgen.minimal_lexicon('bbb')]
            both = os.path.join(work, 'both.xml')
            lmf.dump({'lmf_version': '1.0', 'lexicons': lexs}, both)
            for lx, sk in zip(lexs, skip):
                if sk:
                    one = os.path.join(work, lx['id'] + '.xml')
                    lmf.dump({'lmf_version': '1.0', 'lexicons': [lx]}, one)
                    wn.add(one, progress_handler=None)
            try:
                if is_file:
                    wn.add(both, progress_handler=None)
                else:
                    wn.add_lexical_resource(lmf.load(both, progress_handler=None), progress_handler=None)
            except Exception as exc:   # noqa: BLE001
                out['observed'] = f'{type(exc).__name__}: {exc}'
                out['reproduced'] = True
                return out
            have = sorted(lx.specifier() for lx in wn.lexicons())
            out['observed'] = f'installed afterwards: {have}'
            out['expected'] = "installed afterwards: ['aaa:1', 'bbb:1']"
            out['reproduced'] = have != ['aaa:1', 'bbb:1']
            return out
        finally:
            try:
                from wn import _db as wndb
                for c in list(wndb.pool.values()):
                    c.close()
                wndb.pool.clear()
            except Exception:   # noqa: BLE001
                pass
            wn.config.data_directory = old
            shutil.rmtree(work, ignore_errors=True)
    return replay


def route_obligations() -> list:
    obs = []
    # _add_lmf and add_lexical_resource
    s1, s2 = z3.Bools('skip1 skip2')

    class Skip(SObj):
        def __init__(self):
            super().__init__(type('SkipMap', (), {}), name='skipmap')

        def vc_getattr(self, it, name, node):
            if name == 'values':
                return SymMethod(lambda i, a, k, n: MList([SV('bool', s1), SV('bool', s2)]), 'values')
            return NotImplemented

    for fn, qual, is_file in ((A._add_lmf, 'wn._add._add_lmf', True),
                              (A.add_lexical_resource, 'wn._add.add_lexical_resource', False)):
        cm = dict(prop=PROP, functions=(qual,), source=source_span(fn), assumptions_used=())
        calls = []
        infos = MList([SRec('info1'), SRec('info2')])
        loaded = SRec('loaded', {'lexicons': Slot(True, MList([SRec('lex1'), SRec('lex2')]))})
        skip = Skip()

        def h(name, ret):
            def handler(it, args, kw, node, name=name, ret=ret):
                calls.append((name, list(args)))
                return ret
            return handler
        contracts = {'wn.lmf.scan_lexicons': h('scan_lexicons', infos), 'wn._add._precheck': h('_precheck', skip),
                     'wn.lmf.load': h('load', loaded), 'wn._add._add_lexical_resource': h('_add_lexical_resource', None)}

        class PH(SObj):
            def __init__(self):
                super().__init__(type('ProgressHandlerClass', (), {}), name='progress_handler')

        def ph_call(it, args, kw, node):
            return addmodel.Progress()

        def run(it, fn=fn, is_file=is_file):
            del calls[:]
            if is_file:
                it.call(fn, ['source', addmodel.Progress(), 'handler'], {})
            else:
                it.call(fn, [loaded, from_callable(ph_call)], {})
            return list(calls)
        outs = explore(run, contracts=contracts, packages=('wn',))
        for o in outs:
            pid = path_id(o)
            if o.kind != 'return':
                obs.append(Obligation(f'{qual}:route:{pid}', kind='structure', decided=False,
                                      detail=f'raises {o.exc.exc_type.__name__}', **cm))
                continue
            names = [c[0] for c in o.value]
            allskip = z3.And(s1, s2)
            asm = list(o.pc)
            if '_add_lexical_resource' in names:
                want = (['scan_lexicons', '_precheck', 'load', '_add_lexical_resource'] if is_file
                        else ['_precheck', '_add_lexical_resource'])
                c = dict((n_, a) for n_, a in o.value)
                pre_arg = c['_precheck'][0]
                ok = names == want and c['_add_lexical_resource'][0] is loaded and \
                    c['_add_lexical_resource'][1] is skip and \
                    (pre_arg is infos if is_file else pre_arg is loaded.slots['lexicons'].value)
                obs.append(Obligation(f'{qual}:route:{pid}:calls', kind='structure', decided=bool(ok),
                                      detail=f'calls {names}: _precheck over the lexicons of the source, then '
                                             '_add_lexical_resource(loaded resource, that skipmap)', **cm))
                obs.append(Obligation(f'{qual}:route:{pid}:not-all-skipped', kind='post', assumptions=asm,
                                      goal=z3.Not(allskip), replay=route_replay(is_file, s1, s2),
                                      detail='lexicons are added unless ALL lexicons of the source are skipped', **cm))
            else:
                obs.append(Obligation(f'{qual}:route:{pid}:early-return', kind='post', assumptions=asm, goal=allskip,
                                      replay=route_replay(is_file, s1, s2),
                                      detail='nothing is added only if ALL lexicons of the source are skipped', **cm))
    return obs


def from_callable(fn):
    from vc.pyvc.interp import AbstractFn
    return AbstractFn('progress_handler', fn)


def run(sess: Session):
    sess.assume('A-SQLITE', 'A-BATCH')
    for part, fn in (('frame+skip', frame_and_skip_obligations), ('_precheck', precheck_obligations),
                     ('routes', route_obligations)):
        try:
            for ob in fn():
                sess.check(ob)
        except Unsupported as exc:
            sess.unsupported(f'C07:{part}', str(exc))
    bounded(sess)
    sess.level = 'proof'
    sess.explanation = ('frame of the resource, skip guard of every write, the _precheck contract and the equivalence of '
                        'the file and in-memory entry points are decided for all resources/databases; package '
                        'detection, decompression and archive handling (wn.project) only by the bounded route sweep')


def bounded(sess: Session):
    from bounded import routes, add_bounded
    cases, problems = routes.sweep()
    for k, p in enumerate(problems[:5]):
        sess.violation_direct(f'wn.add:bounded:routes#{k}', p[:1200], {'kind': 'routes'}, reproduced=True,
                              functions=('wn._add.add', 'wn.project.iterpackages'))
    sess.add_bounded('wn.add / wn.add_lexical_resource / wn.project.iterpackages',
                     f'{cases} route x version cases: xml, gz, xz, package (+extra files), collection, tar/tar.gz/tar.xz '
                     'of file/package/collection, in-memory; repeated add; extension with/without base; partially '
                     'installed file', cases, 'native execution + table dumps + input hashes', ok=not problems)
    n, mutated, wrong = add_bounded.check_collect_frames()
    for m in mutated[:2]:
        sess.violation_direct('wn._add._collect_frames:frame(lexicon)', 'the lexicon passed in was modified',
                              {'kind': 'collect-frames', 'witness': repr(m)[:1500]}, reproduced=True,
                              functions=('wn._add._collect_frames',))
    sess.add_bounded('wn._add._collect_frames (frame condition)', 'all lexicons with <= 2 lexicon-level frames, <= 2 '
                     'senses, entry-level frames, every subcat subset', n, 'exhaustive small scope', ok=not mutated)
