"""C03 - exporting a database and re-importing it preserves the lexicons.

  flows      every _export_* function of wn/_export.py against its sidecar contract (contracts/spec_export.py): both are
             executed symbolically against the same stubs of the wn._queries functions (results = uninterpreted
             functions of the arguments, every call recorded) and of the other _export_* functions (modular: a callee
             is its contract); obligations: same calls with the same arguments (which rowid, which table, which
             scope), same result (every key, every column), per LMF version                         pyvc + z3
  export()   _precheck, version assertion, one _export_lexicon per lexicon in order, lmf.dump of the result  pyvc
  chain      what the queries return for a database produced by add: C01; what dump/load do with the resource: C02
  bounded    add -> export -> load -> re-add on generated lexicons, 4 source x 4 export versions, compared with the
             source and through the public API                                                      bounded
"""
from __future__ import annotations

import inspect

import z3

import wn
import wn._export as X
import wn._queries as Q
from wn._util import version_info
from vc.core import Obligation, Session, Unsupported
from vc.pyvc.values import SV, SObj, SList, SRec, Slot, LITS, UStr, SORTS, z_and, z_bool, mk
from vc.pyvc.interp import explore, source_span, MList, MDict, Event, SymMethod, PyRaise
from contracts import coreflows, spec_export
from contracts.coreflows import Stubs, arg_key, make_value, compare_outcomes
from contracts.common import lit_axioms

PROP = 'C03'
VERSIONS = ['1.0', '1.1', '1.2', '1.3']

EXTRA_ROWS = {
    'get_lexicon': ('int', 'str', 'str', 'str', 'str', 'str', 'str', 'str?', 'str?', 'str?'),
}

HELPERS = ['_export_tags', '_export_pronunciations', '_export_senses', '_export_metadata',
           '_export_sense_relations', '_export_examples', '_export_counts', '_export_definitions',
           '_export_synset_relations', '_export_ili_definition', '_export_syntactic_behaviours_1_0',
           '_export_syntactic_behaviours_1_1', '_export_lexical_entries', '_export_synsets', '_export_requires',
           '_export_lexicon']
OPTIONAL_RESULT = {'_export_ili_definition'}


def record_call(it, name, bound, node):
    it.ctx.effects.append(Event('call', guard=it.ctx.current_guard(), binders=list(it.ctx.all_binders()), node=node,
                                extra={'fn': name, 'args': bound}, pc_len=len(it.ctx.pc)))
    keyparts, parents = [], []
    for k, v in bound.items():
        kp, ts = arg_key(v)
        keyparts.append(f'{k}={kp}')
        parents.extend(ts)
    # results inside an iteration depend on the iteration (arguments such as the entry dict are not keys)
    for b in it.ctx.all_binders():
        if not any(b.var.eq(p) for p in parents):
            parents.append(b.var)
    return f'{name}[{";".join(keyparts)}]', tuple(parents)


def helper_stub(name):
    fn = getattr(X, name)
    sig = inspect.signature(fn)

    def handler(it, args, kwargs, node):
        ba = sig.bind(*args, **kwargs)
        ba.apply_defaults()
        base, parents = record_call(it, name, dict(ba.arguments), node)
        return make_value('obj?' if name in OPTIONAL_RESULT else 'obj', base, parents)
    return handler


def find_entries_stub(it, args, kwargs, node):
    sig = inspect.signature(Q.find_entries)
    ba = sig.bind(*args, **kwargs)
    ba.apply_defaults()
    base, parents = record_call(it, 'find_entries', dict(ba.arguments), node)

    def make_elem(path, idx):
        idx = tuple(idx)

        def make_form(fpath, fidx):
            fidx = tuple(fidx)
            return (make_value('str', f'{base}.form', fidx), make_value('str?', f'{base}.form.id', fidx),
                    make_value('str?', f'{base}.form.script', fidx), make_value('int', f'{base}.form.rowid', fidx))
        forms = SList(f'{base}.forms', make_form, idx)
        forms.min_length = 1
        return (make_value('str', f'{base}.0', idx), make_value('str', f'{base}.1', idx), forms,
                make_value('int', f'{base}.3', idx), make_value('int', f'{base}.4', idx))
    return SList(base, make_elem, parents)


def find_sbs_stub(it, args, kwargs, node):
    sig = inspect.signature(Q.find_syntactic_behaviours)
    ba = sig.bind(*args, **kwargs)
    ba.apply_defaults()
    base, parents = record_call(it, 'find_syntactic_behaviours', dict(ba.arguments), node)

    def make_elem(path, idx):
        idx = tuple(idx)
        sids = SList(f'{base}.sids', lambda p, i: make_value('str', f'{base}.sid', tuple(i)), idx)
        return (make_value('str?', f'{base}.0', idx), make_value('str', f'{base}.1', idx), sids)
    return SList(base, make_elem, parents)


def get_lexicon_stub(it, args, kwargs, node):
    base, parents = record_call(it, 'get_lexicon', {'rowid': args[0]}, node)
    return tuple(make_value(k, f'{base}.{j}', parents) for j, k in enumerate(EXTRA_ROWS['get_lexicon']))


def contracts_for(under_test: str) -> dict:
    stubs = Stubs()
    c = stubs.contracts()
    c[Q.find_entries] = find_entries_stub
    c[Q.find_syntactic_behaviours] = find_sbs_stub
    c[Q.get_lexicon] = get_lexicon_stub
    for h in HELPERS:
        if h != under_test:
            c[getattr(X, h)] = helper_stub(h)
    return c


class SbMap(SObj):
    """An arbitrary sense id -> [(frame id or None, frame text)] map."""

    def __init__(self):
        super().__init__(type('SBMap', (), {}), name='sbmap')
        self.has = z3.Function('sbmap.has', UStr, z3.BoolSort())

    def vc_contains(self, it, x, node):
        return self.has(x.z)

    def vc_getitem(self, it, idx, node):
        it.safety_check(self.has(idx.z), KeyError, node, 'sbmap[id]')
        return SList('sbmap.at', lambda p, i: (make_value('str?', 'sbmap.sbid', tuple(i)),
                                               make_value('str', 'sbmap.frame', tuple(i))), (idx.z,))

    def vc_getattr(self, it, name, node):
        if name == 'get':
            def get(i, a, k, n):
                raise Unsupported('sbmap.get')
            return SymMethod(get, 'sbmap.get')
        return NotImplemented


def lexicon_object(name='lexicon'):
    o = SObj(wn.Lexicon, name=name)
    for k, kind in (('_id', 'int'), ('id', 'str'), ('label', 'str'), ('language', 'str'), ('email', 'str'),
                    ('license', 'str'), ('version', 'str'), ('url', 'str?'), ('citation', 'str?'), ('logo', 'str?')):
        o.attrs[k] = make_value(kind, f'{name}.{k}', ())
    return o


def args_for(fn_name: str, version: str):
    v = version_info(version)
    rowid = mk('int', 'rowid')
    lexids = (mk('int', 'lexid'),)
    table = {'_export_metadata': [rowid, mk('str', 'table')]}
    if fn_name == '_export_metadata':
        return [[rowid, mk('str', 'table')]]
    if fn_name in ('_export_requires',):
        return [[rowid]]
    if fn_name in ('_export_tags', '_export_pronunciations', '_export_ili_definition'):
        return [[rowid]]
    if fn_name in ('_export_counts', '_export_definitions', '_export_sense_relations', '_export_synset_relations'):
        return [[rowid, lexids]]
    if fn_name == '_export_examples':
        return [[rowid, 'senses', lexids], [rowid, 'synsets', lexids]]
    if fn_name == '_export_syntactic_behaviours_1_1':
        return [[lexids]]
    if fn_name == '_export_senses':
        return [[rowid, lexids, SbMap(), v]]
    if fn_name == '_export_lexical_entries':
        return [[lexids, SbMap(), v]]
    if fn_name == '_export_synsets':
        return [[lexids, v]]
    if fn_name == '_export_lexicon':
        return [[lexicon_object(), v]]
    if fn_name == '_precheck':
        return [[MList([lexicon_object('lexA'), lexicon_object('lexB')])]]
    raise KeyError(fn_name)


VERSIONED = {'_export_senses', '_export_lexical_entries', '_export_synsets', '_export_lexicon'}
UNDER_TEST = ['_export_metadata', '_export_requires', '_export_tags', '_export_pronunciations', '_export_counts',
              '_export_examples', '_export_definitions', '_export_sense_relations', '_export_synset_relations',
              '_export_syntactic_behaviours_1_1', '_export_ili_definition', '_export_senses',
              '_export_lexical_entries', '_export_synsets', '_export_lexicon', '_precheck']


def flow_obligations(fn_name: str) -> list:
    real = getattr(X, fn_name)
    spec = getattr(spec_export, 'spec' + fn_name if fn_name.startswith('_export') else 'spec' + fn_name)
    obs = []
    for version in (VERSIONS if fn_name in VERSIONED else ['1.0']):
        for k, args in enumerate(args_for(fn_name, version)):
            outs = {}
            for which, fn in (('real', real), ('spec', spec)):
                outs[which] = explore(lambda it, fn=fn: it.call_function(fn, list(args), {}),
                                      contracts=contracts_for(fn_name),
                                      packages=('wn', 'contracts.spec_export'))
            tag = f'wn._export.{fn_name}' + (f'[{version}]' if fn_name in VERSIONED else '') + (f'#{k}' if k else '')
            for ob in compare_outcomes(PROP, tag, real, outs):
                ob.functions = (f'wn._export.{fn_name}',)
                obs.append(ob)
    return obs


def export_obligations() -> list:
    """export(): _precheck first, the version must be supported, one _export_lexicon per lexicon in order with the
    parsed version, the result handed to lmf.dump with lmf_version == version."""
    obs = []
    cm = dict(prop=PROP, functions=('wn._export.export',), source=source_span(X.export), assumptions_used=())
    for version in VERSIONS + ['2.0']:
        calls = []
        lexs = MList(['LEX1', 'LEX2'])

        def run(it):
            del calls[:]
            it.call_function(X.export, [lexs, 'dest', version], {})
            return list(calls)

        def precheck(it, args, kw, node):
            calls.append(('_precheck', args[0]))

        def export_lexicon(it, args, kw, node):
            calls.append(('_export_lexicon', args[0], tuple(args[1])))
            return f'exported({args[0]})'

        def dump(it, args, kw, node):
            calls.append(('dump', args[0], args[1]))
        outs = explore(run, contracts={X._precheck: precheck, X._export_lexicon: export_lexicon,
                                       'wn.lmf.dump': dump}, packages=('wn',), options={'record_dicts': True})
        ok = False
        detail = ''
        if version == '2.0':
            ok = all(o.kind == 'raise' for o in outs) and len(outs) == 1
            detail = f'unsupported version must be refused: {[o.kind for o in outs]}'
        elif len(outs) == 1 and outs[0].kind == 'return':
            c = outs[0].value
            vi = tuple(version_info(version))
            shape = [x[0] for x in c] == ['_precheck', '_export_lexicon', '_export_lexicon', 'dump']
            if shape:
                res = c[3][1]
                lv = res.slots['lmf_version'].value if isinstance(res, SRec) else None
                lx = res.slots['lexicons'].value if isinstance(res, SRec) else None
                ok = c[0][1] is lexs and c[1][1:] == ('LEX1', vi) and c[2][1:] == ('LEX2', vi) and lv == version and \
                    isinstance(lx, MList) and lx.is_concrete() and lx.items() == ['exported(LEX1)', 'exported(LEX2)'] \
                    and c[3][2] == 'dest'
            detail = f'calls {[(x[0],) + tuple(map(str, x[1:])) for x in c]}'
        obs.append(Obligation(f'wn._export.export[{version}]:structure', kind='structure', decided=bool(ok),
                              detail=detail, **cm))
    return obs


def run(sess: Session):
    sess.assume('A-SQLITE', 'the query functions return what their contracts (C01, C04, C09-C12) say; here they are '
                            'uninterpreted functions of their arguments')
    for fn in UNDER_TEST:
        try:
            obs = flow_obligations(fn)
        except Unsupported as exc:
            sess.unsupported(f'wn._export.{fn}:flow', str(exc))
            continue
        for ob in obs:
            sess.check(ob)
    for ob in export_obligations():
        sess.check(ob)
    bounded(sess)
    sess.level = 'proof'
    sess.explanation = ('every _export_* function equals its contract over the query results for all databases '
                        '(symbolic execution, z3); the chain add -> queries is C01, dump/load is C02; the end-to-end '
                        'round trip itself is only run on generated lexicons (bounded)')


def bounded(sess: Session):
    from bounded import export_roundtrip as R
    out = R.sweep()
    k17 = [r for r in out if r[3] and r[0] == '1.0' and r[1] != '1.0' and
           all(('sense-frame links' in p or p.startswith('K17-only:')) for p in r[3])]
    new = [r for r in out if r[3] and r not in k17]
    for src, exp, label, problems in new[:5]:
        sess.violation_direct(f'wn.export:bounded:{src}->{exp}:{label}', '; '.join(problems)[:1500],
                              {'kind': 'export-roundtrip', 'source_version': src, 'export_version': exp,
                               'case': label}, reproduced=True, functions=('wn._export.export',))
    if k17:
        src, exp, label, problems = k17[0]
        sess.violation_direct(f'wn.export:bounded:{src}->{exp}:{label}', '; '.join(problems)[:1500],
                              {'kind': 'export-roundtrip'}, reproduced=True, finding='K17',
                              functions=('wn._export.export',))
    for fid, problems in R.probes():
        if problems:
            sess.violation_direct(f'wn.export:bounded:probe:{fid}', '; '.join(problems)[:1500],
                                  {'kind': 'export-probe'}, reproduced=True, finding=fid,
                                  functions=('wn._export.export',))
    sess.add_bounded('wn.add + wn.export + wn.lmf.load (+ re-add)',
                     f'{len(out)} cases: 3 generated resources x 4 source versions x 4 export versions', len(out),
                     'native round trip + public API comparison', ok=not new)
