"""Call-site / data-flow obligations for wn/_core.py.

For every accessor M of spec_core: the real method body and the sidecar specification are both executed by
pyvc against the same stubs of the wn._queries functions (results are uninterpreted functions of the call
arguments) and against the *specifications* of the other accessors (modular: a callee is replaced by its
contract, never by its body).  Obligation M:flow = on every pair of compatible paths the same query calls are
made with the same arguments and the results are equal (objects compared attribute by attribute, including the
`_wordnet` each result carries).
"""
from __future__ import annotations

import inspect
import typing
from typing import Any, Optional

import z3

import wn
import wn._core as core
import wn._queries as Q
from vc.core import Obligation, Session, Unsupported
from vc.pyvc.values import (SV, SObj, SList, Seq, Lit, Loop, Binder, LITS, SORTS, UStr, Meta, z_and, z_or, z_not,
                            z_bool, mk, fresh_name, is_sym)
from vc.pyvc.interp import (explore, Outcome, MList, MDict, MSet, PyRaise, Event, SymMethod, ExcValue, source_span)
from vc.pyvc import famcmp
from contracts import spec_core
from contracts.common import lit_axioms

# result shapes of the query functions: tuple of kinds, '?' = optional; a str = scalar result
ROW_KINDS = {
    'get_entry_senses': ('str', 'str', 'str', 'int', 'int'),
    'get_synset_members': ('str', 'str', 'str', 'int', 'int'),
    'find_senses': ('str', 'str', 'str', 'int', 'int'),
    'find_entries': ('str', 'str', 'obj', 'int', 'int'),
    'find_synsets': ('str', 'str', 'str?', 'int', 'int'),
    'get_synsets_for_ilis': ('str', 'str', 'str?', 'int', 'int'),
    'get_synset_relations': ('str', 'str', 'meta?', 'int', 'str', 'str', 'str?', 'int', 'int'),
    'get_sense_synset_relations': ('str', 'str', 'meta?', 'int', 'str', 'str', 'str?', 'int', 'int'),
    'get_sense_relations': ('str', 'str', 'meta?', 'str', 'str', 'str', 'int', 'int'),
    'get_definitions': ('str', 'str?', 'str?', 'int'),
    'get_examples': ('str', 'str?', 'int'),
    'get_sense_counts': ('int', 'int'),
    'get_syntactic_behaviours': ('str',),
    'get_form_pronunciations': ('str', 'str?', 'str?', 'bool', 'str?'),
    'get_form_tags': ('str', 'str'),
    'find_ilis': ('str?', 'str', 'str?', 'int'),
    'find_proposed_ilis': ('str?', 'str', 'str?', 'int'),
    'find_lexicons': ('int', 'str', 'str', 'str', 'str', 'str', 'str', 'str?', 'str?', 'str?'),
    'get_lexicon_dependencies': ('str', 'str', 'str?', 'int?'),
    'get_lexicon_extension_bases': ('int',),
    'get_lexicon_extensions': ('int',),
}
SCALAR_KINDS = {
    'get_metadata': 'meta', 'get_lexicalized': 'bool', 'get_adjposition': 'str?', 'get_lexfile': 'str?',
    'get_modified': 'bool',
}
FLAT = {'get_syntactic_behaviours', 'get_lexicon_extension_bases', 'get_lexicon_extensions'}


def arg_key(v) -> tuple:
    """(name part, z3 parent terms) identifying an argument value."""
    if type(v).__name__ == 'JoinedTokens':
        from vc.pyvc.builtins_sym import canonical_map_id
        toks = v.tokens
        if isinstance(toks, list):
            parts = [arg_key(x) for x in toks]
            return ('join(' + ','.join(p[0] for p in parts) + ')', [t for p in parts for t in p[1]])
        return (f'join#{canonical_map_id(toks if isinstance(toks, Seq) else toks.as_seq())}', [])
    if isinstance(v, SV):
        terms = [v.z]
        if v.none is not None:
            terms.append(z3.If(v.none, 1, 0))
        return ('', terms)
    if v is None:
        return ('None', [])
    if isinstance(v, (str, int, bool, float)):
        return (repr(v), [])
    if isinstance(v, SList):
        return (f'<{v.name}>', list(v.parents))
    if isinstance(v, MSet) and not v.nodes:
        parts = [arg_key(x) for x in v.items]
        return ('{' + ','.join(p[0] for p in parts) + '}', [t for p in parts for t in p[1]])
    if isinstance(v, (tuple, MList)) and (not isinstance(v, MList) or v.is_concrete()):
        items = v if isinstance(v, tuple) else v.items()
        parts = [arg_key(x) for x in items]
        return ('(' + ','.join(p[0] for p in parts) + ')', [t for p in parts for t in p[1]])
    if isinstance(v, SObj):
        return (f'@{v.name}', [])
    if isinstance(v, Seq) or isinstance(v, MList):
        return (f'<seq {getattr(v, "label", "")}>', [])
    return (type(v).__name__, [])


def make_value(kind: str, name: str, parents: tuple):
    opt = kind.endswith('?')
    k = kind.rstrip('?')
    sorts = [p.sort() for p in parents]
    if parents:
        f = z3.Function(name, *sorts, SORTS[k])
        z = f(*parents)
        n = z3.Function(name + '.isNone', *sorts, z3.BoolSort())(*parents) if opt else None
    else:
        z = z3.Const(name, SORTS[k])
        n = z3.Bool(name + '.isNone') if opt else None
    return SV(k, z, n)


class Stubs:
    """Contracts (assumed at this level, proved in the SQL checks) of the wn._queries functions: the result is
    an uninterpreted function of the arguments; every call is recorded."""

    def __init__(self):
        self.calls: list = []

    def contracts(self) -> dict:
        out = {}
        for name in list(ROW_KINDS) + list(SCALAR_KINDS):
            fn = getattr(Q, name)
            out[fn] = self.make_handler(name, fn)
        return out

    def make_handler(self, name, fn):
        sig = inspect.signature(fn)

        def handler(it, args, kwargs, node):
            try:
                ba = sig.bind(*args, **kwargs)
            except TypeError as exc:
                raise PyRaise(TypeError, (str(exc),), node)
            ba.apply_defaults()
            bound = dict(ba.arguments)
            ev = Event('call', guard=it.ctx.current_guard(), binders=list(it.ctx.all_binders()), node=node,
                       extra={'fn': name, 'args': bound}, pc_len=len(it.ctx.pc))
            it.ctx.effects.append(ev)
            keyparts, parents = [], []
            for k, v in bound.items():
                kp, ts = arg_key(v)
                keyparts.append(f'{k}={kp}')
                parents.extend(ts)
            base = f'{name}[{";".join(keyparts)}]'
            if name in SCALAR_KINDS:
                return make_value(SCALAR_KINDS[name], base, tuple(parents))
            kinds = ROW_KINDS[name]

            def make_elem(path, idx, kinds=kinds, base=base):
                vals = tuple(make_value(k, f'{base}.{j}', tuple(idx)) for j, k in enumerate(kinds))
                return vals[0] if name in FLAT else vals
            return SList(base, make_elem, tuple(parents))
        return handler


def scope_contract():
    """_LexiconElement._get_lexicon_ids: by contract an opaque scope token per entity (checked separately)."""
    cache: dict = {}

    def handler(it, args, kwargs, node):
        selfv = args[0]
        key = id(selfv)
        if key not in cache:
            def make(path, idx):
                f = z3.Function(path + '.at', *([z3.IntSort()] * len(idx)), z3.IntSort())
                return SV('int', f(*idx))
            parents = ()
            nm = f'scope({getattr(selfv, "name", "?")})'
            lid = selfv.attrs.get('_lexid') if isinstance(selfv, SObj) else None
            rid = selfv.attrs.get('_id') if isinstance(selfv, SObj) else None
            ps = tuple(x.z for x in (lid, rid) if isinstance(x, SV))
            cache[key] = SList(f'scope[{type_name(selfv)}]', make, ps)
        return cache[key]
    return handler


def type_name(o):
    return getattr(getattr(o, 'cls', None), '__name__', type(o).__name__)


# ---------------------------------------------------------------------------------------------
# symbolic receivers

def make_wordnet(name='W') -> SObj:
    w = SObj(core.Wordnet, name=name)
    w.attrs['_lexicon_ids'] = SList(f'{name}._lexicon_ids', lambda p, idx: SV('int', z3.Function(
        p + '.at', z3.IntSort(), z3.IntSort())(*idx)))
    w.attrs['_expanded_ids'] = SList(f'{name}._expanded_ids', lambda p, idx: SV('int', z3.Function(
        p + '.at', z3.IntSort(), z3.IntSort())(*idx)))
    w.attrs['_default_mode'] = mk('bool', f'{name}._default_mode')
    w.attrs['_search_all_forms'] = mk('bool', f'{name}._search_all_forms')
    w.attrs['_lexicons'] = ()
    w.attrs['_expanded'] = ()
    return w


def make_self(cls, w: SObj, name='self') -> SObj:
    o = SObj(cls, name=name)
    n = name
    if cls is core.Wordnet:
        return w
    if cls in (core.Word, core.Sense, core.Synset):
        o.attrs['_id'] = mk('int', f'{n}._id')
        o.attrs['_lexid'] = mk('int', f'{n}._lexid')
        o.attrs['_wordnet'] = w
        o.attrs['id'] = mk('str', f'{n}.id')
    if cls is core.Word:
        o.attrs['pos'] = mk('str', f'{n}.pos')
        o.attrs['_forms'] = mk('obj', f'{n}._forms')
    if cls is core.Sense:
        o.attrs['_entry_id'] = mk('str', f'{n}._entry_id')
        o.attrs['_synset_id'] = mk('str', f'{n}._synset_id')
    if cls is core.Synset:
        o.attrs['pos'] = mk('str', f'{n}.pos')
        o.attrs['_ili'] = mk('str', f'{n}._ili', optional=True)
    if cls is core.Form:
        o.attrs['_id'] = mk('int', f'{n}._id')
        o.attrs['id'] = mk('str', f'{n}.id', optional=True)
        o.attrs['script'] = mk('str', f'{n}.script', optional=True)
    if cls in (core.Lexicon, core.ILI):
        o.attrs['_id'] = mk('int', f'{n}._id')
        if cls is core.ILI:
            o.attrs['status'] = mk('str', f'{n}.status')
            o.attrs['id'] = mk('str', f'{n}.id', optional=True)
    if cls is core.Count:
        o.attrs['_id'] = mk('int', f'{n}._id')
    return o


# (spec name, class, method, extra positional args (kind), extra kwargs)
FLOWS = [
    ('Word_senses', core.Word, 'senses', [], {}),
    ('Word_metadata', core.Word, 'metadata', [], {}),
    ('Word_synsets', core.Word, 'synsets', [], {}),
    ('Word_derived_words', core.Word, 'derived_words', [], {}),
    ('Form_pronunciations', core.Form, 'pronunciations', [], {}),
    ('Form_tags', core.Form, 'tags', [], {}),
    ('Sense_word', core.Sense, 'word', [], {}),
    ('Sense_synset', core.Sense, 'synset', [], {}),
    ('Sense_examples', core.Sense, 'examples', [], {}),
    ('Sense_lexicalized', core.Sense, 'lexicalized', [], {}),
    ('Sense_adjposition', core.Sense, 'adjposition', [], {}),
    ('Sense_frames', core.Sense, 'frames', [], {}),
    ('Sense_counts', core.Sense, 'counts', [], {}),
    ('Sense_metadata', core.Sense, 'metadata', [], {}),
    ('Sense__iter_sense_relations', core.Sense, '_iter_sense_relations', ['*str'], {}),
    ('Sense__iter_sense_synset_relations', core.Sense, '_iter_sense_synset_relations', ['*str'], {}),
    ('Sense_translate', core.Sense, 'translate', [], {'lexicon': 'str?', 'lang': 'str?'}),
    ('Word_translate', core.Word, 'translate', [], {'lexicon': 'str?', 'lang': 'str?'}),
    ('Synset_definition', core.Synset, 'definition', [], {}),
    ('Synset_examples', core.Synset, 'examples', [], {}),
    ('Synset_senses', core.Synset, 'senses', [], {}),
    ('Synset_lexicalized', core.Synset, 'lexicalized', [], {}),
    ('Synset_lexfile', core.Synset, 'lexfile', [], {}),
    ('Synset_metadata', core.Synset, 'metadata', [], {}),
    ('Synset_words', core.Synset, 'words', [], {}),
    ('Synset_lemmas', core.Synset, 'lemmas', [], {}),
    ('Synset_translate', core.Synset, 'translate', [], {'lexicon': 'str?', 'lang': 'str?'}),
    ('Synset__iter_local_relations', core.Synset, '_iter_local_relations', ['seq:str'], {}),
    ('Synset__iter_relations', core.Synset, '_iter_relations', ['*str'], {}),
    ('Synset__iter_expanded_relations', core.Synset, '_iter_expanded_relations', ['seq:str'], {}),
    ('Synset_ili', core.Synset, 'ili', [], {}),
    ('Wordnet_word', core.Wordnet, 'word', ['str'], {}),
    ('Wordnet_synset', core.Wordnet, 'synset', ['str'], {}),
    ('Wordnet_sense', core.Wordnet, 'sense', ['str'], {}),
    ('Wordnet_ili', core.Wordnet, 'ili', ['str'], {}),
    ('Wordnet_ilis', core.Wordnet, 'ilis', [], {'status': 'str?'}),
    ('Lexicon_metadata', core.Lexicon, 'metadata', [], {}),
    ('Lexicon_modified', core.Lexicon, 'modified', [], {}),
    ('Count_metadata', core.Count, 'metadata', [], {}),
    ('ILI_metadata', core.ILI, 'metadata', [], {}),
]


# callees that are replaced by an *abstract* contract (call recorded, result an uninterpreted function of the
# receiver and arguments) when the caller only composes them: (class, method, result kind)
ABSTRACT = {
    'Word_synsets': [(core.Sense, 'synset', 'obj:Synset')],
    'Word_derived_words': [(core.Sense, 'word', 'obj:Word'), (core.Sense, 'get_related', 'list:Sense')],
    'Synset_words': [(core.Sense, 'word', 'obj:Word')],
    'Synset_lemmas': [(core.Synset, 'words', 'list:Word'), (core.Word, 'lemma', 'obj:Form')],
    'Sense_translate': [(core.Sense, 'synset', 'obj:Synset'), (core.Synset, 'translate', 'list:Synset'),
                        (core.Synset, 'senses', 'list:Sense')],
    'Word_translate': [(core.Word, 'senses', 'list:Sense'), (core.Sense, 'translate', 'list:Sense'),
                       (core.Sense, 'word', 'obj:Word')],
    'Synset__iter_relations': [(core.Synset, '_iter_local_relations', 'list:pair'),
                               (core.Synset, '_iter_expanded_relations', 'list:pair')],
}


def abstract_handler(cls, method, kind):
    qn = f'{cls.__name__}.{method}'

    def handler(it, args, kwargs, node):
        recv = args[0]
        bound = {'self': recv}
        for i, a in enumerate(args[1:]):
            bound[f'arg{i}'] = a
        bound.update(kwargs)
        it.ctx.effects.append(Event('call', guard=it.ctx.current_guard(), binders=list(it.ctx.all_binders()),
                                    node=node, extra={'fn': qn, 'args': bound}, pc_len=len(it.ctx.pc)))
        keyparts, parents = [], []
        for k, v in bound.items():
            if isinstance(v, SObj):
                kp = '@' + type_name(v)
                ts = [x.z for x in (v.attrs.get('_id'), v.attrs.get('_lexid')) if isinstance(x, SV)]
            else:
                kp, ts = arg_key(v)
            keyparts.append(f'{k}={kp}')
            parents.extend(ts)
        base = f'{qn}[{";".join(keyparts)}]'
        what, _, cname = kind.partition(':')

        def mkobj(idx):
            if cname == 'pair':
                return make_value('obj', base + '.pair', tuple(idx))
            o = SObj(getattr(core, cname), name=f'{base}@{[str(i) for i in idx]}')
            o.attrs['_id'] = make_value('int', base + '._id', tuple(idx))
            o.attrs['_lexid'] = make_value('int', base + '._lexid', tuple(idx))
            o.attrs['_wordnet'] = recv.attrs.get('_wordnet') if isinstance(recv, SObj) else None
            return o
        if what == 'obj':
            return mkobj(tuple(parents))
        return SList(base, lambda path, idx: mkobj(idx), tuple(parents))
    return handler


def real_function(cls, method):
    f = cls.__dict__[method]
    if isinstance(f, property):
        return f.fget
    return f


def build_contracts(stubs: Stubs, under_test, under_spec=None) -> dict:
    """Query stubs + the specifications of every accessor except the one under test."""
    contracts = stubs.contracts()
    contracts[core._LexiconElement._get_lexicon_ids] = scope_contract()
    for spec_name, cls, method, _, _ in FLOWS:
        real = real_function(cls, method)
        if real is under_test:
            continue
        spec = getattr(spec_core, spec_name)

        def h(it, args, kwargs, node, spec=spec):
            return it.call_function(spec, args, kwargs)
        contracts[real] = h
    for cls, method, kind in ABSTRACT.get(under_spec, []):
        contracts[real_function(cls, method)] = abstract_handler(cls, method, kind)
    # module-level wn.synsets / Wordnet(): results are functions of the arguments
    contracts[core.synsets] = module_query('synsets', ('form', 'pos', 'ili', 'lexicon', 'lang'))
    contracts[core.Wordnet] = fresh_wordnet
    import wn._util
    spec_f = z3.Function('specifier', UStr, UStr, UStr)
    contracts[wn._util.format_lexicon_specifier] = lambda it, a, k, n: SV('str', spec_f(a[0].z, a[1].z))
    contracts[spec_core.SCOPE] = lambda it, args, kwargs, node: it.call(
        core._LexiconElement._get_lexicon_ids, args, kwargs, node)
    return contracts


def fresh_wordnet(it, args, kwargs, node):
    """Wordnet(...) constructed implicitly (default-mode fallback of _LexiconElement.__init__): a *different*
    Wordnet than any the caller holds."""
    w = SObj(core.Wordnet, name=fresh_name('ImplicitWordnet'))
    it.ctx.effects.append(Event('call', guard=it.ctx.current_guard(), binders=list(it.ctx.all_binders()),
                                node=node, extra={'fn': 'Wordnet', 'args': dict(kwargs, _pos=tuple(args))},
                                pc_len=len(it.ctx.pc)))
    return w


def module_query(name, params):
    def handler(it, args, kwargs, node):
        bound = dict(zip(params, args))
        bound.update(kwargs)
        for p in params:
            bound.setdefault(p, None)
        it.ctx.effects.append(Event('call', guard=it.ctx.current_guard(), binders=list(it.ctx.all_binders()),
                                    node=node, extra={'fn': 'wn.' + name, 'args': bound}, pc_len=len(it.ctx.pc)))
        keyparts, parents = [], []
        for k in params:                   # declared parameter order: the order keywords are written in is irrelevant
            v = bound[k]
            kp, ts = arg_key(v)
            keyparts.append(f'{k}={kp}')
            parents.extend(ts)
        base = f'wn.{name}[{";".join(keyparts)}]'

        def make_elem(path, idx):
            o = SObj(core.Synset, name=f'{base}@{idx}')
            o.attrs['_id'] = make_value('int', base + '._id', tuple(idx))
            o.attrs['_lexid'] = make_value('int', base + '._lexid', tuple(idx))
            o.attrs['id'] = make_value('str', base + '.id', tuple(idx))
            o.attrs['pos'] = make_value('str', base + '.pos', tuple(idx))
            o.attrs['_ili'] = make_value('str?', base + '._ili', tuple(idx))
            o.attrs['_wordnet'] = SObj(core.Wordnet, name=base + '.wordnet')
            return o
        return SList(base, make_elem, tuple(parents))
    return handler


def make_args(spec):
    pos, kw = [], {}
    return pos, kw


def sym_extra(kind: str, name: str):
    if kind == 'str':
        return [mk('str', name)]
    if kind == 'str?':
        return [mk('str', name, optional=True)]
    if kind == '*str':
        return [mk('str', name + '0'), mk('str', name + '1')]   # two generic relation types
    if kind == 'seq:str':
        return [(mk('str', name + '0'), mk('str', name + '1'))]
    raise Unsupported(kind)


def events_equal(e1: list, e2: list):
    """z3 Bool / bool: same recorded query calls."""
    c1 = [e for e in e1 if e.kind == 'call']
    c2 = [e for e in e2 if e.kind == 'call']
    if len(c1) != len(c2):
        return False, f'{len(c1)} query calls vs {len(c2)} expected: ' \
                      f'{[e.extra["fn"] for e in c1]} vs {[e.extra["fn"] for e in c2]}'
    parts = []
    for a, b in zip(c1, c2):
        if a.extra['fn'] != b.extra['fn']:
            return False, f'call of {a.extra["fn"]} where {b.extra["fn"]} is expected'
        if len(a.binders) != len(b.binders):
            return False, f'call of {a.extra["fn"]} in a different iteration context'
        subst = [(y.var, x.var) for x, y in zip(a.binders, b.binders) if not x.var.eq(y.var)]
        ka, kb = a.extra['args'], b.extra['args']
        if set(ka) != set(kb):
            return False, f'call of {a.extra["fn"]} with different parameters'
        cons = [x.constraint for x in a.binders]
        for k in ka:
            vb = famcmp.subst_value(kb[k], subst)
            try:
                eq = famcmp.value_eq(ka[k], vb)
            except Unsupported as exc:
                return False, f'{a.extra["fn"]}({k}=...): {exc}'
            except famcmp.ShapeMismatch as exc:
                return False, f'{a.extra["fn"]}({k}=...) is built from different sources: {exc}'
            if eq is False:
                return False, f'{a.extra["fn"]}: argument {k} differs structurally'
            parts.append(z3.Implies(z_and(*cons, z_bool(a.guard)), z_bool(eq)))
        ga = z_bool(a.guard)
        gb = famcmp.subst_guard(z_bool(b.guard), subst)
        parts.append(z3.Implies(z_and(*cons), ga == gb))
    return z_and(*parts), ''


def flow_obligations(prop: str, spec_name, cls, method, extra_pos, extra_kw) -> list:
    real = real_function(cls, method)
    spec = getattr(spec_core, spec_name)
    w = make_wordnet('W')
    selfv = make_self(cls, w)
    pos = []
    for i, k in enumerate(extra_pos):
        pos.extend(sym_extra(k, f'arg{i}'))
    kw = {k: sym_extra(v, k)[0] for k, v in extra_kw.items()}
    name = f'wn._core.{cls.__name__}.{method}'
    return compare_flows(prop, name, real, spec, [selfv] + list(pos), kw, spec_name)


def compare_flows(prop, name, real, spec, args, kw, spec_name=None, skip_specs=(), extra_contracts=None, pre=(),
                  compare_self=None) -> list:
    outs = {}
    snapshots = {}
    for which, fn in (('real', real), ('spec', spec)):
        stubs = Stubs()
        contracts = build_contracts(stubs, real, spec_name)
        for f in skip_specs:
            contracts.pop(f, None)
        if extra_contracts:
            contracts.update(extra_contracts)
        if compare_self is not None:
            compare_self.attrs.clear()

        def runner(it, fn=fn):
            if compare_self is not None:
                compare_self.attrs.clear()
            r = it.call_function(fn, list(args), dict(kw))
            if compare_self is not None:
                return dict(compare_self.attrs)      # the object's final state is the result
            return r
        outs[which] = explore(runner, contracts=contracts, packages=('wn', 'contracts.spec_core'), pre=pre)
    return compare_outcomes(prop, name, real, outs)


def compare_outcomes(prop, name, real, outs) -> list:
    """Obligations: on every compatible pair of paths of the real function and of its contract the same calls are
    made with the same arguments and the results are equal."""
    obs = []
    for r in outs['real']:
        for s in outs['spec']:
            pc = list(r.pc) + list(s.pc) + lit_axioms()
            chk = z3.Solver()
            chk.set('timeout', 3000)
            chk.add(*pc)
            if chk.check() == z3.unsat:
                continue
            pid = f'{"".join("TF"[not d] for d in r.decisions) or "-"}/{"".join("TF"[not d] for d in s.decisions) or "-"}'
            base = dict(prop=prop, kind='post', functions=(name,), source=source_span(real))
            if r.kind != s.kind:
                obs.append(Obligation(f'{name}:flow:outcome:{pid}', assumptions=pc, goal=z3.BoolVal(False),
                                      detail=f'real code {r.kind}s ({_exc(r)}) where the contract {s.kind}s '
                                             f'({_exc(s)})', **base))
                continue
            ev, why = events_equal(r.effects, s.effects)
            if ev is False:
                obs.append(Obligation(f'{name}:flow:calls:{pid}', assumptions=pc, goal=z3.BoolVal(False),
                                      detail=why, **base))
                continue
            obs.append(Obligation(f'{name}:flow:calls:{pid}', assumptions=pc, goal=z_bool(ev),
                                  detail='the query calls (function, scope and other arguments) must be the '
                                         'prescribed ones', **base))
            if r.kind == 'raise':
                same = r.exc.exc_type is s.exc.exc_type
                obs.append(Obligation(f'{name}:flow:raises:{pid}', decided=same,
                                      detail=f'{r.exc.exc_type.__name__} vs {s.exc.exc_type.__name__}', **base))
                continue
            try:
                if isinstance(r.value, dict) and isinstance(s.value, dict):
                    keys = sorted(set(r.value) | set(s.value))
                    eq = z_and(*[z_bool(famcmp.value_eq(r.value.get(k, famcmp._ABSENT), s.value.get(k, famcmp._ABSENT),
                                                        k)) for k in keys])
                else:
                    eq = famcmp.value_eq(r.value, s.value)
            except famcmp.ShapeMismatch as exc:
                obs.append(Obligation(f'{name}:flow:result:{pid}', assumptions=pc, goal=z3.BoolVal(False),
                                      detail=f'result has a different shape: {exc}', **base))
                continue
            obs.append(Obligation(f'{name}:flow:result:{pid}', assumptions=pc, goal=z_bool(eq),
                                  detail='the returned objects must be built from the prescribed columns and '
                                         'carry the Wordnet of the receiver', **base))
    if not obs:
        obs.append(Obligation(f'{name}:flow:paths', prop, 'post', decided=False,
                              detail='no compatible pair of paths', functions=(name,)))
    return obs


def _exc(o: Outcome):
    return o.exc.exc_type.__name__ if o.kind == 'raise' else ''


def run_flows(sess: Session, prop: str, only: Optional[set] = None):
    sess.assume('A-ENGINE')
    for spec_name, cls, method, extra_pos, extra_kw in FLOWS:
        if only is not None and spec_name not in only:
            continue
        try:
            for ob in flow_obligations(prop, spec_name, cls, method, extra_pos, extra_kw):
                sess.check(ob)
        except Unsupported as exc:
            sess.unsupported(f'wn._core.{cls.__name__}.{method}:flow', str(exc))


def scope_flow_obligations(prop: str) -> list:
    """_LexiconElement._get_lexicon_ids against its contract (it is the scope every accessor passes on)."""
    w = make_wordnet('W')
    obs = []
    for cls in (core.Word, core.Sense, core.Synset):
        selfv = make_self(cls, w)
        real = core._LexiconElement._get_lexicon_ids
        obs += compare_flows(prop, f'wn._core._LexiconElement._get_lexicon_ids[{cls.__name__}]', real,
                             spec_core.LexiconElement__get_lexicon_ids, [selfv], {}, None, skip_specs=(real,))
    return obs


def find_helper_obligations(prop: str) -> list:
    """wn._core._find_helper against the documented search procedure, for every combination of
    {Word, Sense, Synset} x {no form, form} x lemmatizer {none, proposes nothing, proposes two generic
    (pos, forms) entries} x normalizer {none, given}."""
    from vc.pyvc.interp import AbstractFn
    obs = []
    queries = {core.Word: Q.find_entries, core.Sense: Q.find_senses, core.Synset: Q.find_synsets}
    for cls, qf in queries.items():
        for with_form in (False, True):
            for lem in (('none', 'empty', 'two') if with_form else ('none',)):
                for norm in ((False, True) if with_form else (False,)):
                    w = make_wordnet('W')
                    norm_f = z3.Function('normalize', UStr, UStr)
                    w.attrs['_normalizer'] = AbstractFn('normalizer', lambda it, a, k, n: SV(
                        'str', norm_f(a[0].z))) if norm else None
                    form = mk('str', 'form') if with_form else None
                    pos = mk('str', 'pos', optional=True)
                    if lem == 'none':
                        w.attrs['lemmatizer'] = None
                    else:
                        def lemmatize(it, a, k, n, lem=lem):
                            d = MDict()
                            if lem == 'two':
                                for j in (1, 2):
                                    key = mk('str', f'lemma_pos{j}', optional=True)
                                    forms = SList(f'lemma_forms{j}', lambda p, idx: SV('str', z3.Function(
                                        p + '.at', z3.IntSort(), UStr)(*idx)))
                                    d.d[key] = forms
                            return d
                        w.attrs['lemmatizer'] = AbstractFn('lemmatizer', lemmatize)
                    kw = {}
                    if cls is core.Synset:
                        kw['ili'] = mk('str', 'ili', optional=True)
                    variant = f'{cls.__name__},form={with_form},lemmatizer={lem},normalizer={norm}'
                    obs += compare_flows(prop, f'wn._core._find_helper[{variant}]', core._find_helper,
                                         spec_core.find_helper, [w, cls, qf, form, pos], kw)
    return obs


def wordnet_init_obligations(prop: str) -> list:
    """Wordnet.__init__ against the documented selection / expansion rules, for lexicon and lang given or not and
    expand in {None, '', a specifier}."""
    import warnings
    from vc.pyvc.interp import AbstractFn
    obs = []

    def warn_contract(it, args, kwargs, node):
        it.ctx.effects.append(Event('call', guard=it.ctx.current_guard(), binders=list(it.ctx.all_binders()),
                                    node=node, extra={'fn': 'warnings.warn', 'args': {'category': args[1] if len(
                                        args) > 1 else kwargs.get('category')}}, pc_len=len(it.ctx.pc)))
        return None
    for lex_given in (False, True):
        for lang_given in (False, True):
            for expand_kind in ('none', 'empty', 'spec'):
                selfv = SObj(core.Wordnet, name='self')
                lexicon = mk('str', 'lexicon') if lex_given else None
                lang = mk('str', 'lang') if lang_given else None
                expand = {'none': None, 'empty': '', 'spec': mk('str', 'expand')}[expand_kind]
                kw = {'lang': lang, 'expand': expand, 'normalizer': AbstractFn('normalizer', lambda *a: None),
                      'lemmatizer': None, 'search_all_forms': mk('bool', 'search_all_forms')}
                variant = f'lexicon={lex_given},lang={lang_given},expand={expand_kind}'
                pre = []
                if lex_given:
                    pre.append(lexicon.z != LITS.lit(''))
                if lang_given:
                    pre.append(lang.z != LITS.lit(''))
                if expand_kind == 'spec':
                    pre.append(expand.z != LITS.lit(''))
                obs += compare_flows(prop, f'wn._core.Wordnet.__init__[{variant}]', core.Wordnet.__init__,
                                     spec_core.Wordnet_init, [selfv, lexicon], kw,
                                     extra_contracts={warnings.warn: warn_contract}, pre=pre, compare_self=selfv)
    return obs


def run_scope_flows(sess: Session, prop: str):
    run_flows(sess, prop)
    try:
        for ob in scope_flow_obligations(prop):
            sess.check(ob)
    except Unsupported as exc:
        sess.unsupported('wn._core._LexiconElement._get_lexicon_ids:flow', str(exc))
