"""Call-site / data-flow obligations for wn/_core.py (filled in below)."""
def run_scope_flows(sess, prop):
    pass
