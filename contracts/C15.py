"""C15 - information-content weights are conserved, counted once and monotone.

Deductive (pyvc + z3 reals):
  synset_probability / information_content: p = weight/total, IC = -log p; with 0 < weight <= total: p in (0,1],
      IC >= 0; weight(hypernym) >= weight(hyponym) => IC(hypernym) <= IC(hyponym); satellite adjectives are looked
      up under 'a'; no exception for the parts of speech n, v, a, s, r
  _initialize: for each of n, v, a, r exactly the synsets of that part of speech (satellites folded into a) and the
      total under None, all equal to `smoothing`
Bounded stand-in (the accumulation loop with its agenda is a worklist over a mutable table):
  compute(): total = smoothing + sum of weights of known words; weight(c) = smoothing + sum over corpus words and their
      synsets s of the word weight whenever c is s or an ancestor of s - ONCE per (word, synset) however many paths
      converge; unknown words ignored; distribute_weight; on every digraph with <= 3 (quick) / 4 (thorough) nodes x 5
      corpora x distribute x smoothing in {1, 0}
  load(): same structure as compute(smoothing=0) restricted to the listed synsets, unlisted ones 0.0, ROOT lines add to
      the total, on generated WordNet::Similarity files
"""
from __future__ import annotations

import math
import os
import tempfile

import z3

import wn
import wn.ic as wnic
from vc.core import Obligation, Session, Unsupported
from vc.pyvc.values import SV, SObj, mk, z_and, z_or, z_not, z_bool, LITS, UStr
from vc.pyvc.interp import explore, source_span, SymMethod, MDict, MList, Lit, Loop
from contracts import C14 as c14
from contracts.common import lit_axioms, path_id

PROP = 'C15'


def probability_obligations() -> list:
    obs = []
    x, h = c14.SynNode('x'), c14.SynNode('h')
    freq = c14.FreqObj()
    P = z3.If(c14.pos_of(x.n) == LITS.lit('s'), LITS.lit('a'), c14.pos_of(x.n))
    pos_ok = z_or(*[c14.pos_of(x.n) == LITS.lit(p) for p in 'nvasr'])
    cm = dict(prop=PROP, kind='post')
    for fn, name in ((wnic.synset_probability, 'wn.ic.synset_probability'),
                     (wnic.information_content, 'wn.ic.information_content')):
        outs = c14.explore_fn(fn, [x, freq])
        for o in outs:
            pid = path_id(o)
            pc = lit_axioms() + list(o.pc) + [pos_ok]
            if o.kind == 'raise':
                obs.append(Obligation(f'{name}:no-raise:{pid}', assumptions=pc, goal=z3.BoolVal(False),
                                      detail=f'{o.exc.exc_type.__name__}: {o.exc.args_v}', functions=(name,),
                                      source=source_span(fn), **cm))
                continue
            v = c14._real(o.value)
            w, N = c14.weight(P, x.n), c14.total(P)
            if fn is wnic.synset_probability:
                obs.append(Obligation(f'{name}:formula:{pid}', assumptions=pc, goal=v == w / N,
                                      detail='weight of the synset / total of its part of speech (s counted as a)',
                                      functions=(name,), **cm))
                obs.append(Obligation(f'{name}:in-(0,1]:{pid}', assumptions=pc, goal=z3.And(v > 0, v <= 1),
                                      detail='probability in (0,1] for positive weights not above the total',
                                      functions=(name,), **cm))
            else:
                obs.append(Obligation(f'{name}:formula:{pid}', assumptions=pc, goal=v == -c14.log(w / N),
                                      detail='-log(probability)', functions=(name,), **cm))
                obs.append(Obligation(f'{name}:non-negative:{pid}', assumptions=pc, goal=v >= 0,
                                      detail='information content is non-negative', functions=(name,), **cm))
                # monotone: a hypernym (same pos table) with at least the weight has at most the IC
                outs_h = c14.explore_fn(fn, [h, freq])
                for oh in outs_h:
                    if oh.kind != 'return':
                        continue
                    vh = c14._real(oh.value)
                    same_pos = c14.pos_of(h.n) == c14.pos_of(x.n)
                    obs.append(Obligation(
                        f'{name}:monotone:{pid}/{path_id(oh)}',
                        assumptions=pc + list(oh.pc) + [same_pos, c14.weight(P, h.n) >= c14.weight(P, x.n)],
                        goal=vh <= v, detail='weight(hypernym) >= weight(hyponym) => IC(hypernym) <= IC(hyponym)',
                        functions=(name,), **cm))
    return obs


class WN(SObj):
    """wordnet.synsets(pos=p): abstract inventory per part of speech."""

    def __init__(self):
        super().__init__(wn.Wordnet, name='wordnet')

    def vc_getattr(self, it, name, node):
        from vc.pyvc.values import SList
        if name == 'synsets':
            def synsets(i, a, k, nd):
                pos = k.get('pos')
                tag = pos if isinstance(pos, str) else 'P'

                def make(path, idx):
                    o = SObj(wn.Synset, name=f'{path}@{idx}')
                    o.attrs['id'] = SV('str', z3.Function(path + '.id', z3.IntSort(), UStr)(*idx))
                    return o
                return SList(f'synsets[{tag}]', make)
            return SymMethod(synsets, 'synsets')
        return NotImplemented


def initialize_obligations() -> list:
    obs = []
    sm = mk('real', 'smoothing')
    name = 'wn.ic._initialize'
    outs = explore(lambda it: it.call(wnic._initialize, [WN(), sm], {}), contracts={}, packages=('wn',))
    cm = dict(prop=PROP, kind='post', functions=(name,), source=source_span(wnic._initialize))
    for o in outs:
        pid = path_id(o)
        if o.kind != 'return' or not isinstance(o.value, MDict) or o.value.nodes:
            obs.append(Obligation(f'{name}:shape:{pid}', decided=False, detail='result is not a dict keyed by the '
                                  'parts of speech', **cm))
            continue
        keys = sorted(o.value.d)
        obs.append(Obligation(f'{name}:parts-of-speech:{pid}', decided=keys == sorted(wnic.IC_PARTS_OF_SPEECH),
                              detail=f'keys {keys}', **cm))
        for pos, table in o.value.d.items():
            srcs, none_ok, vals_ok = [], False, True
            nodes = [Lit((k, v)) for k, v in table.d.items()] + list(table.nodes)
            for n in nodes:
                tr = lambda g: g is True or (not isinstance(g, bool) and z3.is_true(z3.simplify(g)))
                if isinstance(n, Lit):
                    k, v = n.elem
                    if k is None and tr(n.guard):
                        none_ok = True
                    vals_ok = vals_ok and (v is sm)
                else:
                    srcs.append(n.binders[0].origin)
                    for kid in n.kids:
                        vals_ok = vals_ok and (kid.elem[1] is sm) and tr(kid.guard) and tr(n.guard)
            want = [f'synsets[{pos}]'] + (['synsets[s]'] if pos == 'a' else [])
            obs.append(Obligation(f'{name}:inventory:{pos}:{pid}', decided=sorted(srcs) == sorted(want) and none_ok
                                  and vals_ok, detail=f'entries from {srcs}, total under None: {none_ok}, all values = '
                                  f'smoothing: {vals_ok} (expected sources {want})', **cm))
    return obs


# ---------------------------------------------------------------------------------------------
# bounded

def load_bounded(sess: Session):
    from bounded.graphs import build
    cases, bad = 0, []
    tmp = tempfile.mkdtemp(prefix='wnverif_ic_')
    try:
        import itertools
        POSES = {1: [('n',), ('v',)], 2: [('n', 'n'), ('n', 'v')], 3: [('n', 'n', 'n'), ('a', 'r', 'v')]}
        WEIGHTS = ['10.5', '1915712', '30.25']         # with and without a fraction, as in the distributed files
        LAYOUTS = (('\n', True, ' ', ''), ('\n', False, ' ', ''), ('\r\n', True, ' ', ''), ('\r\n', False, ' ', ''),
                   ('\n', True, ' ', ' '), ('\n', False, ' ', ' '), ('\n', True, '\t', ''), ('\n', True, '  ', '\t'))
        for n in (1, 2, 3):
          for poses in POSES[n]:
            graph = tuple(() for _ in range(n))
            # offsets of realistic size; the same offset under two parts of speech names two synsets
            offsets = [1740, 1740 if n > 1 and poses[1] != poses[0] else 1930, 12345678][:n]
            for listed in itertools.chain.from_iterable(itertools.combinations(range(n), r) for r in range(n + 1)):
                for roots in itertools.chain.from_iterable(itertools.combinations(listed, r) for r in range(len(listed) + 1)):
                    nodes, w = build(graph, list(poses))
                    w.lexicons = lambda: [type('L', (), {'id': 'x'})()]
                    ids = {i: f'x-{offsets[i]:08}-{poses[i]}' for i in range(n)}
                    for i, s in enumerate(nodes):
                        s.id = ids[i]
                    for nl, final_nl, sep, trail in LAYOUTS:
                        # line ends LF / CRLF, last record with or without a terminating line end; fields separated by
                        # any run of blanks, blanks at the end of a record mean nothing (a record is a ROOT record only
                        # when a third field is there)
                        path = os.path.join(tmp, 'ic.dat')
                        lines = ['wnver::xyz'] + [f'{offsets[i]}{poses[i]}{sep}{WEIGHTS[i]}{sep + "ROOT" if i in roots else ""}{trail}'
                                                  for i in listed]
                        with open(path, 'w', newline='') as fh:
                            fh.write(nl.join(lines) + (nl if final_nl else ''))
                        cases += 1
                        try:
                            freq = wnic.load(path, w)
                        except Exception as exc:
                            bad.append({'parts of speech': poses, 'listed': listed, 'roots': roots, 'line end': repr(nl),
                                        'final': final_nl, 'separator': repr(sep), 'trailing': repr(trail),
                                        'error': repr(exc)})
                            continue
                        want = {p: {None: 0.0} for p in 'nvar'}
                        for i in range(n):
                            want[poses[i]][ids[i]] = 0.0
                        for i in listed:
                            want[poses[i]][ids[i]] = float(WEIGHTS[i])
                            if i in roots:
                                want[poses[i]][None] += float(WEIGHTS[i])
                        if freq != want:
                            bad.append({'parts of speech': poses, 'listed': listed, 'roots': roots, 'separator': repr(sep),
                                        'trailing': repr(trail), 'file': lines, 'got': freq, 'want': want})
    finally:
        import shutil
        shutil.rmtree(tmp, ignore_errors=True)
    sess.add_bounded('wn.ic.load / _parse_ic_file', 'wordnets of 1..3 synsets (nouns only / mixed parts of speech, one offset under two parts of speech) x '
                     'every subset listed in the file x every subset of those marked ROOT x 8 file layouts (LF / CRLF, '
                     'final line end or not, blank runs, tabs, trailing blanks)', cases, 'generated WordNet::Similarity files', not bad)
    if bad:
        sess.violation_direct('wn.ic.load:structure', 'load() does not yield the same structure as compute(): every '
                              'synset of the wordnet present (0.0 when unlisted), listed weights, ROOT lines summed '
                              'into the total', {'witness': repr(bad[0])[:1500]}, True, functions=('wn.ic.load',))


def compute_bounded(sess: Session):
    from bounded import graphs as G
    n = 4 if sess.tier == 'thorough' else 3
    cases, fails = G.sweep('ic', n)
    sess.add_bounded('wn.ic.compute', f'every labelled digraph with <= {n} nodes x 5 corpora (unknown word, ambiguous '
                     f'word, repeated word) x distribute_weight x smoothing in (1, 0)', cases * 20,
                     'small-scope enumeration on the real function', not fails)
    if sess.tier == 'thorough':
        for nn in (5, 6, 7):
            c2, f2 = G.sample('ic', nn, 3000, seed=sess.seed)
            sess.add_bounded('wn.ic.compute (larger graphs)', f'{c2} random digraphs with {nn} nodes (seed {sess.seed}; '
                             f'half of them acyclic) x 5 corpora x distribute_weight x smoothing', c2 * 20,
                             'random sampling on the real function', not f2)
            fails = list(fails) + list(f2)
    seen = set()
    for clause, witness in fails:
        if clause not in seen:
            seen.add(clause)
            sess.violation_direct(f'wn.ic.{clause}', f'{clause} violated', {'witness': witness}, True,
                                  functions=('wn.ic.compute',))
    # satellite adjectives count as adjectives; parts of speech outside n, v, a, r are ignored
    from bounded.graphs import build
    nodes, w = build(((1,), (), ()), ['s', 'a', 'u'])
    w.words = {'sat': [0], 'other': [2]}
    f = wnic.compute(['sat', 'other'], w, smoothing=1.0)
    ok = f['a'][None] == 2.0 and f['a']['ss0'] == 2.0 and f['a']['ss1'] == 2.0 and 'ss2' not in f['a'] \
        and all(f[p][None] == 1.0 for p in 'nvr')
    sess.add_bounded('wn.ic.compute (s counted as a, other pos ignored)', 'one 3-synset wordnet', 1, 'execution', ok)
    if not ok:
        sess.violation_direct('wn.ic.compute:satellites', 'satellite adjectives / foreign parts of speech', {
            'freq': repr(f)}, True, functions=('wn.ic.compute',))


def expand_bounded(sess: Session):
    """compute() on a Wordnet with an expand lexicon: the ancestors of a counted synset that are reached only through
    (several different) inferred synsets receive the count; inferred synsets themselves get no entry."""
    import os
    import shutil
    import tempfile
    import wn
    from bounded import determinism as D
    work = tempfile.mkdtemp(prefix='wnic15')
    old = wn.config.data_directory
    problems = []
    try:
        D.build(work)
        wn.config.data_directory = os.path.join(work, 'data')
        w = wn.Wordnet('w:1', expand='t:1')
        for smoothing in (1.0, 0.0):
            f = wnic.compute(['wword', 'wword', 'nosuchword'], w, smoothing=smoothing)
            want = {'w-1': smoothing + 2.0, 'w-2': smoothing + 2.0}
            got = {k: f['n'].get(k) for k in ('w-1', 'w-2')}
            if got != want:
                problems.append(f'smoothing={smoothing}: weights {got}, expected w-1 = w-2 = {smoothing + 2.0} (the root is '
                                'an ancestor of the counted leaf through inferred synsets)')
            if any(k == '*INFERRED*' for k in f['n']):
                problems.append('an inferred synset received a weight entry')
    finally:
        wn.config.data_directory = old
        shutil.rmtree(work, ignore_errors=True)
    sess.add_bounded('wn.ic.compute through an expand lexicon', 'leaf + root of the 11-synset taxonomy, 2 smoothing '
                     'values', 2, 'native execution against the definition', not problems)
    if problems:
        sess.violation_direct('wn.ic.compute:expand', '; '.join(problems)[:1200], {'problems': problems}, True,
                              functions=('wn.ic.compute',))


def run(sess: Session):
    # hypernym walks are built on Synset._iter_*relations and get_synset_relations: the synsets they hand out must
    # carry their own lexicon / ILI / Wordnet (sets of synsets and their hashes depend on it)
    from contracts import coreflows as _cf, querychecks as _qc
    _cf.run_flows(sess, PROP, {'Synset__iter_local_relations', 'Synset__iter_expanded_relations',
                               'Synset__iter_relations'})     # shared_relation_contracts
    _qc.run_result_checks(sess, PROP, {'get_synset_relations'})
    from contracts import C12 as _c12
    for _ob in _c12.placeholder_identity_obligations():
        _ob.prop = PROP          # seen-sets / path sets of synsets rely on it to keep inferred placeholders apart
        sess.check(_ob)
    sess.level = 'exploration'
    sess.explanation = ('deductive obligations for probability/IC/_initialize; bounded stand-in (exhaustive small-scope '
                        'enumeration on the real functions) for compute() and load()')
    sess.assume('A-FLOAT', 'A-ENGINE', 'A-MATH')
    sess.trust('floats as reals, log strictly increasing (A-FLOAT)', 'vc/pyvc')
    for part, fn in (('probability', probability_obligations), ('initialize', initialize_obligations)):
        try:
            for ob in fn():
                ob2 = c14.with_axioms(ob) if ob.goal is not None else ob
                if ob2 is not None:
                    sess.check(ob2)
        except Unsupported as exc:
            sess.unsupported(f'wn.ic:{part}', str(exc))
    try:
        for ob in _cf.find_helper_obligations(PROP):
            sess.check(ob)
    except Unsupported as exc:
        sess.unsupported('wn._core._find_helper:flow', str(exc))
    compute_bounded(sess)
    expand_bounded(sess)
    load_bounded(sess)
