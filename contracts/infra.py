"""Contracts of the layers every database / document property stands on (decided on the real files on every run).
They are included in the check of each property that depends on them, because a change here breaks those properties
without touching any of the functions they are anchored in.

  db      - sqlite3.connect only in wn._db.connect; PRAGMA foreign_keys = ON on every new connection before it is pooled
          - schema.sql: every foreign key has the referenced table and the ON DELETE action the proofs rely on
            (sidecar table below), no column declares a collation (comparisons are binary)
          - the base progress handler: update()/set()/flash() return None (remove() registers update as SQLite's
            progress callback - a true value interrupts the statement) and close() calls no other callback
  format  - the WN-LMF constants of wn/lmf.py are those of the published DTDs: supported versions, DOCTYPE system
            identifiers, Dublin Core namespace per version, and every per-version table has exactly the supported
            versions as keys
"""
from __future__ import annotations

import ast
import inspect
import sqlite3
import textwrap

from vc.core import Obligation, REPO

# (table, column) -> (referenced table, ON DELETE)
FOREIGN_KEYS = {
    ('adjpositions', 'sense_rowid'): ('senses', 'CASCADE'),
    ('counts', 'lexicon_rowid'): ('lexicons', 'CASCADE'),
    ('counts', 'sense_rowid'): ('senses', 'CASCADE'),
    ('definitions', 'lexicon_rowid'): ('lexicons', 'CASCADE'),
    ('definitions', 'sense_rowid'): ('senses', 'SET NULL'),
    ('definitions', 'synset_rowid'): ('synsets', 'CASCADE'),
    ('entries', 'lexicon_rowid'): ('lexicons', 'CASCADE'),
    ('forms', 'entry_rowid'): ('entries', 'CASCADE'),
    ('forms', 'lexicon_rowid'): ('lexicons', 'CASCADE'),
    ('ilis', 'status_rowid'): ('ili_statuses', 'NO ACTION'),
    ('lexicon_dependencies', 'dependent_rowid'): ('lexicons', 'CASCADE'),
    ('lexicon_dependencies', 'provider_rowid'): ('lexicons', 'SET NULL'),
    ('lexicon_extensions', 'base_rowid'): ('lexicons', 'NO ACTION'),
    ('lexicon_extensions', 'extension_rowid'): ('lexicons', 'CASCADE'),
    ('pronunciations', 'form_rowid'): ('forms', 'CASCADE'),
    ('proposed_ilis', 'synset_rowid'): ('synsets', 'CASCADE'),
    ('sense_examples', 'lexicon_rowid'): ('lexicons', 'CASCADE'),
    ('sense_examples', 'sense_rowid'): ('senses', 'CASCADE'),
    ('sense_relations', 'lexicon_rowid'): ('lexicons', 'CASCADE'),
    ('sense_relations', 'source_rowid'): ('senses', 'CASCADE'),
    ('sense_relations', 'target_rowid'): ('senses', 'CASCADE'),
    ('sense_relations', 'type_rowid'): ('relation_types', 'NO ACTION'),
    ('sense_synset_relations', 'lexicon_rowid'): ('lexicons', 'CASCADE'),
    ('sense_synset_relations', 'source_rowid'): ('senses', 'CASCADE'),
    ('sense_synset_relations', 'target_rowid'): ('synsets', 'CASCADE'),
    ('sense_synset_relations', 'type_rowid'): ('relation_types', 'NO ACTION'),
    ('senses', 'entry_rowid'): ('entries', 'CASCADE'),
    ('senses', 'lexicon_rowid'): ('lexicons', 'CASCADE'),
    ('senses', 'synset_rowid'): ('synsets', 'CASCADE'),
    ('synset_examples', 'lexicon_rowid'): ('lexicons', 'CASCADE'),
    ('synset_examples', 'synset_rowid'): ('synsets', 'CASCADE'),
    ('synset_relations', 'lexicon_rowid'): ('lexicons', 'CASCADE'),
    ('synset_relations', 'source_rowid'): ('synsets', 'CASCADE'),
    ('synset_relations', 'target_rowid'): ('synsets', 'CASCADE'),
    ('synset_relations', 'type_rowid'): ('relation_types', 'NO ACTION'),
    ('synsets', 'ili_rowid'): ('ilis', 'NO ACTION'),
    ('synsets', 'lexfile_rowid'): ('lexfiles', 'NO ACTION'),
    ('synsets', 'lexicon_rowid'): ('lexicons', 'CASCADE'),
    ('syntactic_behaviour_senses', 'sense_rowid'): ('senses', 'CASCADE'),
    ('syntactic_behaviour_senses', 'syntactic_behaviour_rowid'): ('syntactic_behaviours', 'CASCADE'),
    ('syntactic_behaviours', 'lexicon_rowid'): ('lexicons', 'CASCADE'),
    ('tags', 'form_rowid'): ('forms', 'CASCADE'),
}


def _schema_facts():
    con = sqlite3.connect(':memory:')
    con.executescript((REPO / 'wn' / 'schema.sql').read_text())
    fks, colls = {}, []
    for (t,) in con.execute("SELECT name FROM sqlite_master WHERE type='table'").fetchall():
        for row in con.execute(f'PRAGMA foreign_key_list("{t}")').fetchall():
            # id, seq, table, from, to, on_update, on_delete, match
            fks[(t, row[3])] = (row[2], row[6])
    for name, sql in con.execute("SELECT name, sql FROM sqlite_master WHERE sql IS NOT NULL").fetchall():
        if 'COLLATE' in sql.upper():
            colls.append(name)
    con.close()
    return fks, colls


def db_obligations(prop: str) -> list:
    import wn._db
    import wn.util
    from contracts import C05
    obs = []
    for ob in C05.pragma_obligations():
        ob.prop = prop
        obs.append(ob)
    fks, colls = _schema_facts()
    src = str(REPO / 'wn' / 'schema.sql')
    wrong = sorted(f'{t}.{c} -> {fks.get((t, c))} (expected {want})' for (t, c), want in FOREIGN_KEYS.items()
                   if fks.get((t, c)) != want)
    extra = sorted(f'{t}.{c} -> {v}' for (t, c), v in fks.items() if (t, c) not in FOREIGN_KEYS)
    obs.append(Obligation('wn/schema.sql:ddl:foreign-keys', prop, 'static', decided=not wrong,
                          detail='every foreign key references the table and has the ON DELETE action the contracts '
                                 'assume' + (f': differs {wrong[:4]}' if wrong else ''),
                          functions=('wn/schema.sql',), source=src))
    obs.append(Obligation('wn/schema.sql:ddl:no-unknown-foreign-keys', prop, 'static', decided=not extra,
                          detail=f'foreign keys not covered by the contracts: {extra[:4]}' if extra else
                          'no further foreign keys', functions=('wn/schema.sql',), source=src))
    obs.append(Obligation('wn/schema.sql:ddl:binary-comparison', prop, 'static', decided=not colls,
                          detail=f'COLLATE clauses in {colls}: stored text is no longer compared byte-wise' if colls else
                          'no COLLATE clause: text columns compare byte-wise (what the query contracts assume)',
                          functions=('wn/schema.sql',), source=src))
    # progress handler base class
    PH = wn.util.ProgressHandler
    for meth in ('update', 'set', 'flash'):
        fn = getattr(PH, meth)
        tree = ast.parse(textwrap.dedent(inspect.getsource(fn)))
        rets = [n for n in ast.walk(tree) if isinstance(n, ast.Return) and n.value is not None and not (
            isinstance(n.value, ast.Constant) and n.value.value is None)]
        obs.append(Obligation(f'wn.util.ProgressHandler.{meth}:returns-none', prop, 'static', decided=not rets,
                              detail='returns None (a true value returned to SQLite as progress callback interrupts the '
                                     'running statement)' if not rets else
                              f'returns a value at line {rets[0].lineno}', functions=(f'wn.util.ProgressHandler.{meth}',)))
    obs += lexicon_row_obligations(prop)
    # legacy transaction control (A-TXN): nothing switches the connection to autocommit
    bad = []
    for path in sorted((REPO / 'wn').glob('*.py')):
        t = ast.parse(path.read_text())
        for n in ast.walk(t):
            if isinstance(n, (ast.Assign, ast.AugAssign)):
                for tg in (n.targets if isinstance(n, ast.Assign) else [n.target]):
                    if isinstance(tg, ast.Attribute) and tg.attr in ('isolation_level', 'autocommit'):
                        bad.append(f'{path.name}:{n.lineno} sets {tg.attr}')
            if isinstance(n, ast.Call) and ast.unparse(n.func) == 'sqlite3.connect':
                for k in n.keywords:
                    if k.arg in ('isolation_level', 'autocommit'):
                        bad.append(f'{path.name}:{n.lineno} sqlite3.connect({k.arg}=...)')
    obs.append(Obligation('wn:db:transaction-mode', prop, 'static', decided=not bad,
                          detail='the connection keeps sqlite3\'s default (implicit BEGIN before writes; `with conn` commits '
                                 'or rolls back)' if not bad else f'transaction control changed: {bad}',
                          functions=('wn._db.connect',)))
    for cls in (PH, wn.util.ProgressBar):
        fn = cls.__dict__.get('close')
        if fn is None:
            continue
        tree = ast.parse(textwrap.dedent(inspect.getsource(fn)))
        calls = [ast.unparse(n.func) for n in ast.walk(tree) if isinstance(n, ast.Call) and
                 isinstance(n.func, ast.Attribute) and isinstance(n.func.value, (ast.Name, ast.Call)) and
                 n.func.attr in ('update', 'set', 'flash')]
        obs.append(Obligation(f'wn.util.{cls.__name__}.close:no-callbacks', prop, 'static', decided=not calls,
                              detail='close() (run after the transaction has committed) invokes no overridable '
                                     'callback' if not calls else f'close() calls {calls}',
                              functions=(f'wn.util.{cls.__name__}.close',)))
    return obs


DTD_VERSIONS = ['1.0', '1.1', '1.2', '1.3']
DTD_SYSTEM_ID = 'http://globalwordnet.github.io/schemas/WN-LMF-{v}.dtd'
DC_NAMESPACE = {'1.0': 'http://purl.org/dc/elements/1.1/', '1.1': 'https://globalwordnet.github.io/schemas/dc/',
                '1.2': 'https://globalwordnet.github.io/schemas/dc/', '1.3': 'https://globalwordnet.github.io/schemas/dc/'}


def format_obligations(prop: str) -> list:
    from wn import lmf
    obs = []
    f = ('wn.lmf',)
    obs.append(Obligation('wn.lmf.SUPPORTED_VERSIONS', prop, 'static',
                          decided=set(lmf.SUPPORTED_VERSIONS) == set(DTD_VERSIONS),
                          detail=f'{sorted(lmf.SUPPORTED_VERSIONS)} (published WN-LMF versions {DTD_VERSIONS})', functions=f))
    for name in ('_SCHEMAS', '_DC_URIS', '_VALID_ELEMS', '_NS_ATTRS'):
        tab = getattr(lmf, name)
        obs.append(Obligation(f'wn.lmf.{name}:versions', prop, 'static', decided=set(tab) == set(lmf.SUPPORTED_VERSIONS),
                              detail=f'keys {sorted(tab)} == supported versions (a version accepted by the header check '
                                     'must be readable and writable)', functions=f))
    obs.append(Obligation('wn.lmf._SCHEMAS:dtd-identifiers', prop, 'static',
                          decided=all(lmf._SCHEMAS.get(v) == DTD_SYSTEM_ID.format(v=v) for v in DTD_VERSIONS),
                          detail='DOCTYPE system identifiers of the published DTDs', functions=f))
    obs.append(Obligation('wn.lmf._DOCTYPES:inverse', prop, 'static',
                          decided={lmf._DOCTYPE.format(schema=s): v for v, s in lmf._SCHEMAS.items()} == lmf._DOCTYPES,
                          detail='_DOCTYPES maps every DOCTYPE line back to its version', functions=f))
    bad = {v: lmf._DC_URIS.get(v) for v in DTD_VERSIONS if lmf._DC_URIS.get(v) != DC_NAMESPACE[v]}
    obs.append(Obligation('wn.lmf._DC_URIS:namespaces', prop, 'static', decided=not bad,
                          detail=('Dublin Core namespace of each version as fixed by its DTD' if not bad else
                                  f'namespace differs from the DTD: {bad} (conforming documents lose their dc: metadata)'),
                          functions=f))
    ok = all(set(lmf._NS_ATTRS[v].values()) == set(lmf._DC_ATTRS) | {'status', 'note', 'confidenceScore'} and
             all(k == f'{lmf._DC_URIS[v]} {a}' for k, a in lmf._NS_ATTRS[v].items() if a in lmf._DC_ATTRS)
             for v in lmf._NS_ATTRS)
    obs.append(Obligation('wn.lmf._NS_ATTRS:built-from-namespace', prop, 'static', decided=bool(ok),
                          detail='metadata attribute table: "<namespace> <name>" for the 14 dc terms + status, note, '
                                 'confidenceScore', functions=f))
    return obs


def lexicon_row_obligations(prop: str) -> list:
    """A lexicon row travels positionally from the SELECT of find_lexicons / _get_lexicon to _to_lexicon: the column
    lists of both queries are the sequence _to_lexicon unpacks."""
    import wn._queries as Q
    import wn._core as core
    from vc.sqlvc import parse as P
    obs = []
    # what _to_lexicon does with a row, decided by running it (straight-line code) on a row of sentinels: the value
    # at position i ends up in which attribute of the Lexicon - independent of the names of its local variables
    sentinels = tuple(f'<column {i}>' for i in range(10))
    unpack = None
    try:
        lx = core._to_lexicon(sentinels)
        where = {}
        for attr in ('_id', 'id', 'label', 'language', 'email', 'license', 'version', 'url', 'citation', 'logo'):
            v = getattr(lx, attr, None)
            if v in sentinels:
                where[sentinels.index(v)] = 'rowid' if attr == '_id' else attr
        if len(where) == 10:
            unpack = [where[i] for i in range(10)]
    except Exception:       # noqa: BLE001
        unpack = None
    for fn in (Q._get_lexicon, Q.find_lexicons):
        t = ast.parse(textwrap.dedent(inspect.getsource(fn)))
        cols = None
        for n in ast.walk(t):
            s = None
            if isinstance(n, ast.Constant) and isinstance(n.value, str) and 'SELECT' in n.value.upper():
                s = n.value
            elif isinstance(n, ast.JoinedStr):
                s = ''.join(v.value if isinstance(v, ast.Constant) else ' 1 ' for v in n.values)
                if 'SELECT' not in s.upper():
                    s = None
            if s:
                head = s.upper().split('FROM')[0].replace('SELECT', '').replace('DISTINCT', '')
                cols = [c.strip().lower() for c in head.split(',') if c.strip()]
                break
        ok = unpack is not None and cols == unpack
        obs.append(Obligation(f'wn._queries.{fn.__name__}:columns', prop, 'static', decided=bool(ok),
                              detail=f'selects {cols}; _to_lexicon puts the row positions into the attributes {unpack}',
                              functions=(f'wn._queries.{fn.__name__}', 'wn._core._to_lexicon')))
    return obs


def wrapper_obligations(prop: str) -> list:
    """The module-level convenience functions (wn.words, wn.synsets, wn.ilis, ...) build Wordnet(lang=lang,
    lexicon=lexicon) from exactly their own `lang` and `lexicon` arguments and forward every other argument to the
    method of the same name (symbolic execution with the Wordnet class replaced by a recording stub)."""
    import inspect as _inspect
    import wn._core as core
    from vc.pyvc.interp import explore, SymMethod, source_span
    from vc.pyvc.values import SObj, mk
    obs = []
    for name in ('word', 'words', 'sense', 'senses', 'synset', 'synsets', 'ili', 'ilis'):
        fn = getattr(core, name)
        sig = _inspect.signature(fn)
        args = {p: mk('str', f'arg_{p}', optional=True) for p in sig.parameters}
        log = []

        class W(SObj):
            def __init__(self):
                super().__init__(type('WordnetStub', (), {}), name='wordnet')

            def vc_getattr(self, it, attr, node):
                def call(i, a, k, n, attr=attr):
                    log.append(('method', attr, list(a), dict(k)))
                    return SObj(type('Result', (), {}), name=f'result_of_{attr}')
                return SymMethod(call, attr)

        def ctor(it, a, k, n):
            log.append(('Wordnet', list(a), dict(k)))
            return W()

        def run(it, fn=fn, args=args):
            del log[:]
            pos = [args[p] for p, prm in sig.parameters.items() if prm.kind == prm.POSITIONAL_OR_KEYWORD]
            kw = {p: args[p] for p, prm in sig.parameters.items() if prm.kind == prm.KEYWORD_ONLY}
            it.call_function(fn, pos, kw)
            return list(log)
        outs = explore(run, contracts={core.Wordnet: ctor}, packages=('wn',))
        ok, why = True, ''
        for o in outs:
            if o.kind != 'return':
                ok, why = False, f'raises {o.exc.exc_type.__name__}'
                break
            calls = o.value
            if len(calls) != 2 or calls[0][0] != 'Wordnet' or calls[1][0] != 'method':
                ok, why = False, f'calls {[(c[0], c[1]) for c in calls]}'
                break
            _, cargs, ckw = calls[0]
            if cargs or set(ckw) != {'lang', 'lexicon'} or ckw['lang'] is not args['lang'] or \
                    ckw['lexicon'] is not args['lexicon']:
                ok, why = False, f'Wordnet(...) built with {sorted(ckw)} (lang/lexicon must be the caller\'s own)'
                break
            _, meth, margs, mkw = calls[1]
            rest = {p: v for p, v in args.items() if p not in ('lang', 'lexicon')}
            passed = dict(mkw)
            for p_, v in zip([p for p in rest], margs):
                passed[p_] = v
            if meth != name or set(passed) != set(rest) or any(passed[p] is not rest[p] for p in rest):
                ok, why = False, f'.{meth}({sorted(passed)}) instead of .{name}({sorted(rest)}) with the caller\'s values'
                break
        obs.append(Obligation(f'wn._core.{name}:wrapper', prop, 'post', decided=ok,
                              detail=why or f'Wordnet(lang=lang, lexicon=lexicon).{name}(<the other arguments>)',
                              functions=(f'wn._core.{name}',), source=source_span(fn)))
    return obs


# -- selection scope: where a fresh Wordnet may come from --------------------------------------------------------------
# A function that is handed a Wordnet (or an entity that carries one) has to query THROUGH it; a call of a
# module-level wrapper (wn.synsets(...), ...) or a newly built Wordnet() inside the library answers from a different
# lexicon selection.  Every site in the package (web.py excluded: it is a separate application) must be one of these:
FRESH_WORDNET_SITES = {
    'wn._core:_LexiconElement.__init__:Wordnet': 'fallback when an entity is created without a Wordnet (never taken '
                                                 'on entities produced by queries: coreflows pass _wordnet)',
    'wn._core:Synset.translate:synsets': 'translation target: synsets(ili=..., lang=lang, lexicon=lexicon) with the '
                                         'lexicon/lang arguments of translate() (contract: C10 flow obligations)',
    'wn._core:lexicons:Wordnet': 'module-level wrapper (contract: :wrapper)',
    'wn.__main__:_lexicons:lexicons': 'command line listing',
}
for _n in ('word', 'words', 'sense', 'senses', 'synset', 'synsets', 'ili', 'ilis'):
    FRESH_WORDNET_SITES[f'wn._core:{_n}:Wordnet'] = 'module-level wrapper (contract: :wrapper)'
_WRAPPERS = {'word', 'words', 'sense', 'senses', 'synset', 'synsets', 'ili', 'ilis', 'lexicons'}


def scope_site_obligations(prop: str) -> list:
    import glob
    import os
    sites = []
    nfun = 0
    for path in sorted(glob.glob(str(REPO / 'wn' / '*.py'))):
        mod = 'wn.' + os.path.basename(path)[:-3]
        if mod in ('wn.web',):
            continue
        tree = ast.parse(open(path).read())
        # names bound to the wn package / wn._core module in this file, and wrapper names imported directly
        pkg_names, direct = set(), set()
        for n in ast.walk(tree):
            if isinstance(n, ast.Import):
                for a in n.names:
                    if a.name in ('wn', 'wn._core'):
                        pkg_names.add((a.asname or a.name).split('.')[0])
            elif isinstance(n, ast.ImportFrom):
                for a in n.names:
                    if (n.module or '') in ('wn', 'wn._core') and a.name in _WRAPPERS | {'Wordnet'}:
                        direct.add(a.asname or a.name)
                    if (n.module or '') == 'wn' and a.name == '_core':
                        pkg_names.add(a.asname or a.name)
        if mod == 'wn._core':
            direct |= _WRAPPERS | {'Wordnet'}

        def visit(node, qual):
            nonlocal nfun
            for ch in ast.iter_child_nodes(node):
                if isinstance(ch, (ast.FunctionDef, ast.AsyncFunctionDef)):
                    nfun += 1
                    visit(ch, f'{qual}.{ch.name}' if qual else ch.name)
                elif isinstance(ch, ast.ClassDef):
                    visit(ch, f'{qual}.{ch.name}' if qual else ch.name)
                else:
                    if isinstance(ch, ast.Call):
                        f = ch.func
                        what = None
                        if isinstance(f, ast.Name) and f.id in direct:
                            what = f.id
                        elif isinstance(f, ast.Attribute) and f.attr in _WRAPPERS | {'Wordnet'}:
                            base = f.value
                            while isinstance(base, ast.Attribute):
                                base = base.value
                            if isinstance(base, ast.Name) and base.id in pkg_names:
                                what = f.attr
                        if what and qual:
                            sites.append((mod, qual, what, ch.lineno))
                    visit(ch, qual)
        visit(tree, '')
    obs = [Obligation('wn:scope:fresh-wordnet-sites:coverage', prop, 'static', decided=nfun > 300,
                      detail=f'{nfun} functions scanned', functions=('wn.*',))]
    seen = set()
    for mod, qual, what, line in sites:
        k = f'{mod}:{qual}:{what}'
        if k in seen:
            continue
        seen.add(k)
        ok = k in FRESH_WORDNET_SITES
        obs.append(Obligation(f'{mod}.{qual}:scope:fresh-{what}', prop, 'static', decided=ok,
                              detail=(f'reviewed: {FRESH_WORDNET_SITES[k] or "module-level wrapper"}' if ok else
                                      f'line {line}: calls {what}(...) - a new default lexicon selection - instead of '
                                      'querying through the Wordnet it was given'),
                              functions=(f'{mod}.{qual}',), source=f'{mod}:{line}'))
    return obs


def purity_obligations(prop: str) -> list:
    """Results are functions of the database content and the arguments: no function of the package memoises
    (functools.lru_cache / cache) or writes module-level state, except the reviewed sites (the purity half of C16's
    static contract; a cached read survives remove/add, a switch to another database and an earlier call with other
    data).  Included in the check of every property."""
    from contracts import C16
    obs = []
    for ob in C16.static_obligations():
        if ':purity:' in ob.name:
            ob.prop = prop
            obs.append(ob)
    return obs


_CONSUMERS = {'list', 'tuple', 'set', 'frozenset', 'sorted', 'next', 'dict', 'any', 'all', 'sum', 'min', 'max',
              'enumerate', 'zip', 'iter', 'chain', 'unique_list', 'Counter', 'len_of', 'map', 'filter', 'reversed'}


def generator_use_obligations(prop: str) -> list:
    """The query functions are generators: a result can be consumed ONCE.  Every call of a generator function of the
    package is either consumed on the spot (for / comprehension / list() / next() / yield from / return / handed to one
    callee) or bound to a local name that is read exactly once and not inside a loop the binding is outside of.  A
    result stored in a container or read twice yields nothing the second time."""
    import glob
    import importlib
    import os
    gens = set()
    for path in sorted(glob.glob(str(REPO / 'wn' / '*.py'))):
        t = ast.parse(open(path).read())
        for n in ast.walk(t):
            if isinstance(n, (ast.FunctionDef, ast.AsyncFunctionDef)):
                own = [x for x in ast.walk(n) if isinstance(x, (ast.Yield, ast.YieldFrom))]
                inner = {id(y) for f in ast.walk(n) if f is not n and isinstance(f, (ast.FunctionDef, ast.Lambda))
                         for y in ast.walk(f) if isinstance(y, (ast.Yield, ast.YieldFrom))}
                if any(id(y) not in inner for y in own):
                    gens.add(n.name)
    sites, ncalls = [], 0
    for path in sorted(glob.glob(str(REPO / 'wn' / '*.py'))):
        mod = 'wn.' + os.path.basename(path)[:-3]
        t = ast.parse(open(path).read())
        parents = {}
        for n in ast.walk(t):
            for ch in ast.iter_child_nodes(n):
                parents[id(ch)] = n
        funcs = [f for f in ast.walk(t) if isinstance(f, (ast.FunctionDef, ast.AsyncFunctionDef))]

        def enclosing(n):
            cur = parents.get(id(n))
            while cur is not None and not isinstance(cur, (ast.FunctionDef, ast.AsyncFunctionDef)):
                cur = parents.get(id(cur))
            return cur
        for n in ast.walk(t):
            if not isinstance(n, ast.Call):
                continue
            name = n.func.id if isinstance(n.func, ast.Name) else (n.func.attr if isinstance(n.func, ast.Attribute)
                                                                   else None)
            if name not in gens:
                continue
            if isinstance(n.func, ast.Attribute) and not (isinstance(n.func.value, ast.Name) and
                                                          n.func.value.id in ('self', 'cls') or True):
                continue
            ncalls += 1
            par = parents.get(id(n))
            fn = enclosing(n)
            where = f'{mod}:{fn.name if fn else "<module>"}:{n.lineno}'
            if isinstance(par, (ast.For, ast.comprehension)) and par.iter is n:
                continue
            if isinstance(par, (ast.YieldFrom, ast.Return, ast.Starred)):
                continue
            if isinstance(par, ast.Call) and n in par.args + [k.value for k in par.keywords]:
                continue            # consumed by / handed on to one callee
            if isinstance(par, ast.Assign) and len(par.targets) == 1 and isinstance(par.targets[0], ast.Name) and fn:
                var = par.targets[0].id
                loads = [x for x in ast.walk(fn) if isinstance(x, ast.Name) and x.id == var
                         and isinstance(x.ctx, ast.Load)]
                stores = [x for x in ast.walk(fn) if isinstance(x, ast.Name) and x.id == var
                          and isinstance(x.ctx, ast.Store)]
                bad = None
                if len(stores) == 1 and len(loads) > 1:
                    bad = f'`{var}` (a generator) is read {len(loads)} times'
                elif len(stores) == 1 and len(loads) == 1:
                    # the read must not sit in a loop that the binding is outside of
                    def loops_of(x):
                        out, cur = [], parents.get(id(x))
                        while cur is not None and cur is not fn:
                            if isinstance(cur, (ast.For, ast.While, ast.ListComp, ast.SetComp, ast.DictComp,
                                                ast.GeneratorExp)):
                                # being the iterable of that very loop is a single consumption
                                it_ = getattr(cur, 'iter', None)
                                first = cur.generators[0].iter if hasattr(cur, 'generators') else it_
                                if not (first is not None and any(y is x for y in ast.walk(first))):
                                    out.append(id(cur))
                            cur = parents.get(id(cur))
                        return set(out)
                    if loops_of(loads[0]) - loops_of(par):
                        bad = f'`{var}` (a generator) is read inside a loop that its binding is outside of'
                if bad:
                    sites.append((where, bad))
                continue
            if isinstance(par, ast.Assign):
                sites.append((where, f'the generator returned by {name}() is stored in '
                                     f'`{ast.unparse(par.targets[0])}`: a later second read yields nothing'))
                continue
            if isinstance(par, (ast.Dict, ast.List, ast.Tuple, ast.Set)):
                sites.append((where, f'the generator returned by {name}() is put into a container literal'))
    # reviewed: no observable result depends on the second (empty) read
    accepted = {'wn._add:_sum_counts': 'the second read of `locs` (entry-level frames) only feeds the total of the '
                                       'progress bar, which is under-counted; no stored or returned value depends on it'}
    sites = [(w, why) for w, why in sites if w.rsplit(':', 1)[0] not in accepted]
    obs = [Obligation('wn:generators:single-use:coverage', prop, 'static', decided=ncalls > 30,
                      detail=f'{ncalls} calls of {len(gens)} generator functions examined', functions=('wn.*',))]
    for where, why in sites:
        obs.append(Obligation(f'{where.rsplit(":", 1)[0]}:generator-single-use', prop, 'static', decided=False,
                              detail=f'line {where.rsplit(":", 1)[1]}: {why}', functions=(where.rsplit(':', 1)[0],)))
    if not sites:
        obs.append(Obligation('wn:generators:single-use', prop, 'static', decided=True,
                              detail='every generator result is consumed once', functions=('wn.*',)))
    return obs
