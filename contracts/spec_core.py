"""Sidecar specifications of the data flows of wn/_core.py, written from the property statements (C01, C04,
C09, C10, C11, C12) and the documented meaning of each accessor - NOT from the method bodies.  Each spec is a
Python function interpreted by pyvc exactly like the real method, against the same query stubs; the obligation
is: same query calls (function, arguments) and equal results.

Conventions: SCOPE(x) is what x._get_lexicon_ids() returns (its own contract is checked separately);
rows of a query stub are tuples as documented in wn/_queries.py.
"""
from wn._core import (Word, Sense, Synset, Form, Tag, Pronunciation, Count, ILI, Relation, Lexicon, _to_lexicon)
from wn._queries import (
    find_lexicons, find_ilis, find_proposed_ilis, find_entries, find_senses, find_synsets, get_lexicon,
    get_modified, get_lexicon_dependencies, get_lexicon_extension_bases, get_lexicon_extensions,
    get_form_pronunciations, get_form_tags, get_entry_senses, get_sense_relations, get_sense_synset_relations,
    get_synset_relations, get_synset_members, get_synsets_for_ilis, get_examples, get_definitions,
    get_syntactic_behaviours, get_metadata, get_lexicalized, get_adjposition, get_sense_counts, get_lexfile,
)
from wn._db import NON_ROWID
import wn


def SCOPE(x):
    return x._get_lexicon_ids()


# ---- C01 / C10: words ------------------------------------------------------------------------------

def Word_senses(self):
    # the senses declared under this word, in entry order (the query orders by entry_rank), within the scope;
    # each keeps the Wordnet it was obtained from (C04, C10)
    return [Sense(sid, eid, ssid, lexid, rowid, _wordnet=self._wordnet)
            for sid, eid, ssid, lexid, rowid in get_entry_senses(self._id, SCOPE(self))]


def Word_metadata(self):
    return get_metadata(self._id, 'entries')


def Word_synsets(self):
    return [s.synset() for s in self.senses()]


def Word_derived_words(self):
    return [t.word() for s in self.senses() for t in s.get_related('derivation')]


def Form_pronunciations(self):
    return [Pronunciation(value, variety, notation, phonemic, audio)
            for value, variety, notation, phonemic, audio in get_form_pronunciations(self._id)]


def Form_tags(self):
    return [Tag(tag, category) for tag, category in get_form_tags(self._id)]


# ---- senses ------------------------------------------------------------------------------------------

def Sense_word(self):
    return self._wordnet.word(id=self._entry_id)


def Sense_synset(self):
    return self._wordnet.synset(id=self._synset_id)


def Sense_examples(self):
    return [text for text, _, _ in get_examples(self._id, 'senses', SCOPE(self))]


def Sense_lexicalized(self):
    return get_lexicalized(self._id, 'senses')


def Sense_adjposition(self):
    return get_adjposition(self._id)


def Sense_frames(self):
    return get_syntactic_behaviours(self._id, SCOPE(self))


def Sense_counts(self):
    return [Count(value, _id=rowid) for value, rowid in get_sense_counts(self._id, SCOPE(self))]


def Sense_metadata(self):
    return get_metadata(self._id, 'senses')


def Sense__iter_sense_relations(self, *args):
    # declared sense-sense relations of this sense restricted to the requested types and the scope; the
    # Relation keeps (type, this sense's id, target id, defining lexicon, metadata); target keeps the Wordnet
    return [(Relation(relname, self.id, sid, lexicon, metadata=metadata),
             Sense(sid, eid, ssid, lexid, rowid, _wordnet=self._wordnet))
            for relname, lexicon, metadata, sid, eid, ssid, lexid, rowid
            in get_sense_relations(self._id, args, SCOPE(self))]


def Sense__iter_sense_synset_relations(self, *args):
    return [(Relation(relname, self.id, ssid, lexicon, metadata=metadata),
             Synset(ssid, pos, ili, lexid, rowid, _wordnet=self._wordnet))
            for relname, lexicon, metadata, _, ssid, pos, ili, lexid, rowid
            in get_sense_synset_relations(self._id, args, SCOPE(self))]


def Word_translate(self, lexicon=None, *, lang=None):
    # word translation is the image of sense translation: for each sense of the word, the words of the senses it
    # translates to (a sense whose synset has no ILI translates to nothing - decided in Sense/Synset.translate)
    result = {}
    for sense in self.senses():
        result[sense] = [t_sense.word() for t_sense in sense.translate(lang=lang, lexicon=lexicon)]
    return result


def Sense_translate(self, lexicon=None, *, lang=None):
    return [t_sense
            for t_synset in self.synset().translate(lang=lang, lexicon=lexicon)
            for t_sense in t_synset.senses()]


# ---- synsets -----------------------------------------------------------------------------------------

def Synset_definition(self):
    rows = get_definitions(self._id, SCOPE(self))
    return next((text for text, _, _, _ in rows), None)


def Synset_examples(self):
    return [text for text, _, _ in get_examples(self._id, 'synsets', SCOPE(self))]


def Synset_senses(self):
    return [Sense(sid, eid, ssid, lexid, rowid, _wordnet=self._wordnet)
            for sid, eid, ssid, lexid, rowid in get_synset_members(self._id, SCOPE(self))]


def Synset_lexicalized(self):
    return get_lexicalized(self._id, 'synsets')


def Synset_lexfile(self):
    return get_lexfile(self._id)


def Synset_metadata(self):
    return get_metadata(self._id, 'synsets')


def Synset_words(self):
    return [s.word() for s in self.senses()]


def Synset_lemmas(self):
    return [w.lemma() for w in self.words()]


def Synset_translate(self, lexicon=None, *, lang=None):
    # exactly the synsets of the target lexicons sharing this synset's (non-proposed) ILI; none without one
    if not self._ili:
        return []
    return wn.synsets(ili=self._ili, lang=lang, lexicon=lexicon)


def Synset__iter_local_relations(self, args):
    return [(Relation(relname, self.id, ssid, lexicon, metadata=metadata),
             Synset(ssid, pos, ili, _lexid=lexid, _id=rowid, _wordnet=self._wordnet))
            for relname, lexicon, metadata, _, ssid, pos, ili, lexid, rowid
            in get_synset_relations({self._id}, args, SCOPE(self))]


def Synset__iter_relations(self, *args):
    out = []
    if self._id != NON_ROWID:                       # a stored synset: its own relations first
        out.extend(self._iter_local_relations(args))
    if self._ili is not None and self._wordnet._expanded_ids:   # then those borrowed through expand lexicons
        out.extend(self._iter_expanded_relations(args))
    return out


def Synset_ili(self):
    if self._ili:
        row = next(find_ilis(id=self._ili), None)
    else:
        row = next(find_proposed_ilis(synset_rowid=self._id), None)
    if row is not None:
        return ILI(*row)
    return None


# ---- Wordnet lookups ---------------------------------------------------------------------------------------

def Wordnet_word(self, id):
    row = next(iter(find_entries(id=id, lexicon_rowids=self._lexicon_ids)), None)
    if row is None:
        raise wn.Error('no such lexical entry')
    return Word(*row, self)


def Wordnet_synset(self, id):
    row = next(iter(find_synsets(id=id, lexicon_rowids=self._lexicon_ids)), None)
    if row is None:
        raise wn.Error('no such synset')
    return Synset(*row, _wordnet=self)


def Wordnet_sense(self, id):
    row = next(iter(find_senses(id=id, lexicon_rowids=self._lexicon_ids)), None)
    if row is None:
        raise wn.Error('no such sense')
    return Sense(*row, _wordnet=self)


def Wordnet_ili(self, id):
    row = next(iter(find_ilis(id=id, lexicon_rowids=self._lexicon_ids)), None)
    if row is None:
        raise wn.Error('no such ILI')
    return ILI(*row)


def Wordnet_ilis(self, status=None):
    return [ILI(*row) for row in find_ilis(status=status, lexicon_rowids=self._lexicon_ids)]


# ---- misc --------------------------------------------------------------------------------------------------

def Lexicon_metadata(self):
    return get_metadata(self._id, 'lexicons')


def Lexicon_modified(self):
    return get_modified(self._id)


def Count_metadata(self):
    return get_metadata(self._id, 'counts')


def ILI_metadata(self):
    # the table the ILI is a row of: a proposed ILI is the one without an id (the status of an existing ILI is free text)
    return get_metadata(self._id, 'proposed_ilis' if self.id is None else 'ilis')


# ---- C12: relations borrowed through expand lexicons ---------------------------------------------------------

def Synset__iter_expanded_relations(self, args):
    W = self._wordnet
    E = W._expanded_ids
    # the synsets of the expand lexicons sharing this synset's ILI (every one of them except the synset itself)
    sources = {rowid: ssid
               for ssid, _, _, _, rowid in find_synsets(ili=self._ili, lexicon_rowids=E)
               if rowid != self._id and rowid != NON_ROWID}
    out = []
    for relname, lexicon, metadata, srcrowid, tgtid, _, tgt_ili, _, _ in \
            get_synset_relations(set(sources), args, E):
        if tgt_ili is None:
            continue                                   # targets without an ILI are dropped
        # the reported relation keeps the expand lexicon's source id, target id and lexicon
        relation = Relation(relname, sources[srcrowid], tgtid, lexicon, metadata=metadata)
        local = list(get_synsets_for_ilis([tgt_ili], lexicon_rowids=SCOPE(self)))
        out.extend((relation, Synset(ssid, pos, ili, lexid, rowid, _wordnet=W))
                   for ssid, pos, ili, lexid, rowid in local)
        if not local:                                   # placeholder carrying that ILI, in this synset's lexicon
            out.append((relation, Synset('*INFERRED*', '', tgt_ili, _lexid=self._lexid, _wordnet=W)))
    return out


# ---- C04: scope of navigation ----------------------------------------------------------------------------------

def LexiconElement__get_lexicon_ids(self):
    # default mode: the entity's own lexicon and its extension family; otherwise the Wordnet's selection
    if self._wordnet._default_mode:
        return tuple({self._lexid}
                     | set(get_lexicon_extension_bases(self._lexid))
                     | set(get_lexicon_extensions(self._lexid)))
    return self._wordnet._lexicon_ids


# ---- C09 / C17: word-form search (docs/guides/lemmatization.rst) ----------------------------------------------

def unique(items):
    out = []
    seen = set()
    for x in items:
        if x not in seen:
            out.append(x)
            seen.add(x)
    return out


def find_helper(w, cls, query_func, form, pos, ili=None):
    scope = {'lexicon_rowids': w._lexicon_ids, 'search_all_forms': w._search_all_forms}
    if ili is not None:
        scope['ili'] = ili
    if form is None:                  # no word form: every entity of the scope with that pos (and ili)
        return [cls(*data, _wordnet=w) for data in query_func(pos=pos, **scope)]
    normalize = w._normalizer
    # the lemmatizer replaces the query by what it proposes; the query itself if it proposes nothing
    # (a part of speech proposed with an empty collection of forms proposes no (pos, form) pair)
    proposals = w.lemmatizer(form, pos) if w.lemmatizer else {}
    proposals = {p: fs for p, fs in proposals.items() if fs}
    if not proposals:
        proposals = {pos: {form}}
    # pass 1: stored form (or stored normalized form when a normalizer is active) equals the proposal
    found = [cls(*data, _wordnet=w)
             for p, fs in proposals.items()
             for data in query_func(forms=fs, pos=p, normalized=bool(normalize), **scope)]
    # pass 2, only if pass 1 found nothing and a normalizer is active: the proposals themselves normalized
    if not found and normalize:
        found = [cls(*data, _wordnet=w)
                 for p, fs in proposals.items()
                 for data in query_func(forms=[normalize(f) for f in fs], pos=p, normalized=True, **scope)]
    return unique(found)


# ---- C08 / C12: construction of a Wordnet -----------------------------------------------------------------------

def Wordnet_init(self, lexicon=None, *, lang=None, expand=None, normalizer=None, lemmatizer=None,
                 search_all_forms=True):
    import warnings
    from wn._util import format_lexicon_specifier
    # default mode: neither a lexicon specifier nor a language
    self._default_mode = (not lexicon and not lang)
    self._lexicons = tuple(_to_lexicon(row) for row in find_lexicons(lexicon or '*', lang=lang))
    self._lexicon_ids = tuple(lx._id for lx in self._lexicons)
    self._expanded = ()
    if expand is None:
        if self._default_mode:
            expand = '*'                           # unrestricted: expand over all lexicons
        else:
            # restricted: exactly the declared dependencies that are installed; warn about missing ones
            deps = [(id, ver, rowid) for lx in self._lexicons
                    for id, ver, _, rowid in get_lexicon_dependencies(lx._id)]
            missing = ' '.join(format_lexicon_specifier(id, ver) for id, ver, rowid in deps if rowid is None)
            if missing:
                warnings.warn('lexicon dependencies not available: ' + missing, wn.WnWarning, stacklevel=2)
            expand = ' '.join(format_lexicon_specifier(id, ver) for id, ver, rowid in deps if rowid is not None)
    if expand:                                      # expand='' disables expansion
        self._expanded = tuple(_to_lexicon(row) for row in find_lexicons(lexicon=expand))
    self._expanded_ids = tuple(lx._id for lx in self._expanded)
    self._normalizer = normalizer
    self.lemmatizer = lemmatizer
    self._search_all_forms = search_all_forms
