"""C20 - invalid WN-LMF is rejected as a whole; scans agree with full loads.

  reader steps   the real expat handlers of _make_parser (start / char_data / end), executed symbolically for every
                 element name of the WN-LMF DTDs (+ unknown names) x version x {first child, later child}:
                   unknown element or element of another version            -> LMFError
                   second occurrence of a single-valued child               -> LMFError
                   list child                                               -> appended after the earlier ones
                   metadata / text / external markers, stack discipline                                pyvc + z3
  header         what dump() prints is accepted by _read_header (C02); is_lmf == is_xml and _read_header does
                 not raise (symbolic execution of is_lmf with both stubbed); load() reads the header through the
                 same _read_header (_quick_scan) before anything else                                   pyvc
  add            _add_lmf: scan, precheck, then lmf.load completes BEFORE the first database write, all inside
                 the transaction proved atomic in C06                                                   pyvc
  accepted       every element dump() writes is read back without exception (obligations of C02)        pyvc + z3
  bounded        single-fault mutations (28 required attributes, unknown / later-version / duplicated elements,
                 unbalanced tags, header faults) and valid variants (quoting, layout) of generated documents x 4
                 versions on the real load / is_lmf / scan_lexicons / add + table dump              bounded
"""
from __future__ import annotations

import z3

from wn import lmf
import wn._add as A
from vc.core import Obligation, Session, Unsupported
from vc.pyvc.values import SV, SRec, SOptRec, SList, SObj, Slot, Lit, Loop, LITS, UStr, z_and, z_or, z_not, z_bool
from vc.pyvc.interp import explore, source_span, MList, SymMethod
from vc.pyvc import builtins_sym as B
from contracts import lmfrt, addmodel
from contracts.common import lit_axioms, path_id

PROP = 'C20'

# sidecar: the element inventory of the WN-LMF DTDs
ELEMENTS_10 = {'LexicalResource', 'Lexicon', 'LexicalEntry', 'Lemma', 'Form', 'Tag', 'Sense', 'SenseRelation',
               'Example', 'Count', 'SyntacticBehaviour', 'Synset', 'Definition', 'ILIDefinition', 'SynsetRelation'}
ELEMENTS_11 = ELEMENTS_10 | {'Requires', 'Extends', 'Pronunciation', 'LexiconExtension', 'ExternalLexicalEntry',
                             'ExternalLemma', 'ExternalForm', 'ExternalSense', 'ExternalSynset'}
ELEMENTS = {'1.0': ELEMENTS_10, '1.1': ELEMENTS_11, '1.2': ELEMENTS_11, '1.3': ELEMENTS_11}
SINGLE = {'LexicalResource', 'Lemma', 'ExternalLemma', 'ILIDefinition', 'Extends'}
META = {'Lexicon', 'LexiconExtension', 'LexicalEntry', 'Sense', 'SenseRelation', 'Example', 'Count', 'Synset',
        'Definition', 'ILIDefinition', 'SynsetRelation'}
CDATA = {'Pronunciation', 'Tag', 'Definition', 'ILIDefinition', 'Example', 'Count'}
UNKNOWN = ['Foo', 'lexicon', 'Lexicons', 'Meta']


def start_outcomes(version: str, name: str, scenario: str):
    uri = lmf._DC_URIS[version]
    key = lmf._VALID_ELEMS[version].get(name) or 'x'

    def run(it):
        rd = lmfrt.Reader(it, version)
        parent = SRec('parent')
        parent.owned = True
        old = None
        if scenario == 'later':
            if name in SINGLE or name not in lmf._LIST_ELEMS:
                old = SRec('old')
                parent.slots[key] = Slot(True, old)
            else:
                prev = SList('prev', lambda path, idx: SRec(f'prev{idx}'))
                old = MList(nodes=list(prev.as_seq().nodes))
                old.n0 = len(old.nodes)
                parent.slots[key] = Slot(True, old)
        attrs = SRec('attrs')
        attrs.owned = True
        for k in ('id', f'{uri} source', 'status', 'note', 'other'):
            attrs.slots[k] = Slot(z3.Bool(f'has[{k}]'), SV('str', z3.Const(f'val[{k}]', UStr)))
        rd.stack.nodes[:] = [Lit(rd.root), Lit(parent)]
        it.call(rd.start, [name, attrs], {})
        return rd, parent, attrs, old

    return explore(run, contracts=lmfrt.make_contracts([], [], set()), packages=lmfrt.PACKAGES, options=lmfrt.OPT)


def start_obligations(version: str) -> list:
    obs = []
    fname = 'wn.lmf._make_parser.start'
    cm = dict(prop=PROP, functions=(fname,), source=source_span(lmf._make_parser), assumptions_used=())
    uri = lmf._DC_URIS[version]
    for name in sorted(ELEMENTS_11) + UNKNOWN:
        if name == 'LexicalResource':
            scenarios = ['first']
        else:
            scenarios = ['first', 'later']
        for sc in scenarios:
            base = f'{fname}:{version}:{name}:{sc}'
            try:
                outs = start_outcomes(version, name, sc)
            except Unsupported as exc:
                obs.append(('unsupported', base, str(exc)))
                continue
            valid = name in ELEMENTS[version]
            must_raise = (not valid) or (sc == 'later' and name in SINGLE)
            obs.append(Obligation(f'{base}:paths', kind='structure', decided=len(outs) > 0, detail='paths', **cm))
            for n, o in enumerate(outs):
                if must_raise:
                    ok = o.kind == 'raise' and o.exc.exc_type is lmf.LMFError
                    why = 'does not exist in this version' if not valid else 'may occur only once'
                    obs.append(Obligation(f'{base}:p{n}:rejected', kind='post', decided=ok,
                                          detail=f'<{name}> {why}: start() must raise LMFError '
                                                 f'(got {o.kind}{" " + o.exc.exc_type.__name__ if o.kind == "raise" else ""})',
                                          **cm))
                    continue
                if o.kind == 'raise':
                    obs.append(Obligation(f'{base}:p{n}:accepted', kind='safety', assumptions=list(o.pc) + lit_axioms(),
                                          goal=z3.BoolVal(False),
                                          detail=f'start() raises {o.exc.exc_type.__name__} for a valid <{name}>', **cm))
                    continue
                rd, parent, attrs, old = o.value
                asm = list(o.pc) + lit_axioms()
                key = lmf._VALID_ELEMS[version][name]
                slot = parent.slots.get(key)
                # where the element goes
                if name in SINGLE or name not in lmf._LIST_ELEMS:
                    ok = slot is not None and slot.present is True and slot.value is attrs
                    obs.append(Obligation(f'{base}:p{n}:stored', kind='post', decided=ok,
                                          detail=f'parent[{key!r}] is the element', **cm))
                else:
                    v = slot.value if slot is not None else None
                    if sc == 'first':
                        ok = isinstance(v, MList) and v.is_concrete() and len(v.nodes) == 1 and v.nodes[0].elem is attrs
                    else:
                        ok = v is old and len(v.nodes) == old.n0 + 1 and isinstance(v.nodes[-1], Lit) and \
                            v.nodes[-1].elem is attrs and v.nodes[-1].guard is True
                    obs.append(Obligation(f'{base}:p{n}:list-append', kind='post', decided=bool(ok),
                                          detail=f'parent[{key!r}] == earlier children + [element] (order kept, '
                                                 'earlier children untouched)', **cm))
                st = rd.stack
                ok = st.is_concrete() and len(st.nodes) == 3 and st.nodes[2].elem is attrs and \
                    st.nodes[1].elem is parent
                obs.append(Obligation(f'{base}:p{n}:stack', kind='post', decided=bool(ok),
                                      detail='the element is pushed on the stack', **cm))
                # markers
                goals = []
                t = attrs.slots.get('text')
                if name in CDATA:
                    goals.append(('text', t is not None and t.present is True and t.value == ''))
                else:
                    goals.append(('text', t is None or t.present is False))
                e = attrs.slots.get('external')
                if name.startswith('External'):
                    goals.append(('external', e is not None and e.present is True and e.value is True))
                else:
                    goals.append(('external', e is None or e.present is False))
                for lab, g in goals:
                    obs.append(Obligation(f'{base}:p{n}:{lab}', kind='post', decided=bool(g),
                                          detail=f'{lab} marker of <{name}>', **cm))
                # metadata
                m = attrs.slots.get('meta')
                has = {k: z3.Bool(f'has[{k}]') for k in ('id', f'{uri} source', 'status', 'note', 'other')}
                val = {k: z3.Const(f'val[{k}]', UStr) for k in has}
                if name in META:
                    if m is None or m.present is not True:
                        obs.append(Obligation(f'{base}:p{n}:meta', kind='post', decided=False,
                                              detail='meta key missing', **cm))
                        continue
                    mv = m.value
                    anym = z3.Or(has[f'{uri} source'], has['status'], has['note'])
                    if isinstance(mv, SOptRec):
                        pres, rec = z_bool(mv.present), mv.rec
                    elif isinstance(mv, SRec):
                        pres, rec = z3.BoolVal(True), mv
                    else:
                        pres, rec = z3.BoolVal(False), SRec('none')
                    g = [pres == anym]
                    for mk_, src in (('source', f'{uri} source'), ('status', 'status'), ('note', 'note')):
                        s = rec.slots.get(mk_)
                        ps = z_bool(s.present) if s is not None else z3.BoolVal(False)
                        g.append(z3.Implies(pres, ps == has[src]))
                        if s is not None:
                            g.append(z3.Implies(z3.And(pres, ps), s.value.z == val[src]))
                        a = attrs.slots.get(src)
                        g.append(z3.Not(z_bool(a.present)) if a is not None else z3.BoolVal(True))
                    for keep in ('id', 'other'):
                        a = attrs.slots.get(keep)
                        g.append(z_bool(a.present) == has[keep] if a is not None else z3.Not(has[keep]))
                    extra = [k for k in rec.slots if k not in ('source', 'status', 'note') and
                             rec.slots[k].present is not False]
                    g.append(z3.BoolVal(not extra))
                    obs.append(Obligation(f'{base}:p{n}:meta', kind='post', assumptions=asm, goal=z3.And(*g),
                                          detail='meta == exactly the dc:/status/note attributes (None if there are '
                                                 'none), removed from the element attributes; other attributes stay',
                                          **cm))
                else:
                    ok = m is None or m.present is False
                    keep_all = all(attrs.slots[k].present is has[k] or
                                   (z3.is_expr(attrs.slots[k].present) and attrs.slots[k].present.eq(has[k]))
                                   for k in has)
                    obs.append(Obligation(f'{base}:p{n}:meta', kind='post', decided=bool(ok and keep_all),
                                          detail=f'<{name}> carries no metadata: attributes unchanged', **cm))
    return obs


def end_char_obligations(version: str) -> list:
    obs = []
    cm = dict(prop=PROP, functions=('wn.lmf._make_parser.end', 'wn.lmf._make_parser.char_data'),
              source=source_span(lmf._make_parser), assumptions_used=())
    for has_text in (True, False):
        def run(it, has_text=has_text):
            rd = lmfrt.Reader(it, version)
            elem = SRec('elem')
            elem.owned = True
            elem.slots['id'] = Slot(True, SV('str', z3.Const('id', UStr)))
            t0 = SV('str', z3.Const('t0', UStr))
            if has_text:
                elem.slots['text'] = Slot(True, t0)
            rd.stack.nodes[:] = [Lit(rd.root), Lit(elem)]
            d = SV('str', z3.Const('data', UStr))
            it.call(rd.char, [d], {})
            mid = elem.slots.get('text')
            midv = mid.value if mid is not None else None
            it.call(rd.end, ['Example'], {})
            return rd, elem, midv, t0, d
        outs = explore(run, contracts=lmfrt.make_contracts([], [], set()), packages=lmfrt.PACKAGES,
                       options=lmfrt.OPT)
        base = f'wn.lmf._make_parser.end:{version}:{"text" if has_text else "no-text"}'
        for n, o in enumerate(outs):
            if o.kind != 'return':
                obs.append(Obligation(f'{base}:p{n}:no-raise', kind='safety', decided=False,
                                      detail=f'raises {o.exc.exc_type.__name__}', **cm))
                continue
            rd, elem, midv, t0, d = o.value
            ok = rd.stack.is_concrete() and len(rd.stack.nodes) == 1
            obs.append(Obligation(f'{base}:p{n}:pop', kind='post', decided=bool(ok), detail='end() pops the element',
                                  **cm))
            t = elem.slots.get('text')
            if not has_text:
                obs.append(Obligation(f'{base}:p{n}:no-text', kind='post', decided=(t is None or t.present is False),
                                      detail='character data of an element without text content is ignored', **cm))
            else:
                # char_data appends (opaque concat of t0 and data), end() normalises that
                ok = isinstance(t.value, SV) and isinstance(midv, SV)
                whole = B.uf('str_concat', UStr, UStr, UStr)(t0.z, d.z)          # text so far + data
                goal = (t.value.z == lmfrt.wsnorm(whole)) if ok else z3.BoolVal(False)
                obs.append(Obligation(f'{base}:p{n}:normalised', kind='post', assumptions=list(o.pc) + lit_axioms(),
                                      goal=goal, detail="char_data appends (expat delivers text in pieces) and end() "
                                                        "normalises: text == ' '.join((text so far + data).split())",
                                      **cm))
    return obs


def is_lmf_obligations() -> list:
    """is_lmf(source) == is_xml(source) and _read_header(fh) does not raise LMFError."""
    obs = []
    cm = dict(prop=PROP, functions=('wn.lmf.is_lmf', 'wn.lmf._quick_scan'), source=source_span(lmf.is_lmf),
              assumptions_used=())
    xml_ok = z3.Bool('is_xml')
    calls = []

    class FH(SObj):
        def __init__(self):
            super().__init__(type('BinaryIO', (), {}), name='fh')

        def __vc_enter__(self, it):
            return self

        def __vc_exit__(self, it, exc):
            return False

        def vc_getattr(self, it, name, node):
            if name == 'read':
                return SymMethod(lambda i, a, k, n: b'', 'fh.read')
            return NotImplemented

    def path_ctor(it, args, kw, node):
        o = SObj(type('Path', (), {}), name='path')

        def ga(it2, name, node2, o=o):
            if name == 'expanduser':
                return SymMethod(lambda i, a, k, n: o, 'expanduser')
            if name == 'open':
                return SymMethod(lambda i, a, k, n: FH(), 'open')
            raise Unsupported('Path.' + name)
        o.vc_getattr = ga
        return o

    def is_xml(it, args, kw, node):
        calls.append('is_xml')
        return SV('bool', xml_ok)

    hdr_ok = z3.Bool('header_ok')

    def read_header(it, args, kw, node):
        calls.append('_read_header')
        if it.ctx.branch(hdr_ok):
            return '1.0'
        from vc.pyvc.interp import PyRaise
        raise PyRaise(lmf.LMFError, ('invalid header',), node)

    contracts = {'pathlib.Path': path_ctor, 'wn._util.is_xml': is_xml, 'wn.lmf.is_xml': is_xml,
                 'wn.lmf._read_header': read_header}
    outs = explore(lambda it: it.call(lmf.is_lmf, ['src'], {}), contracts=contracts, packages=('wn',))
    for n, o in enumerate(outs):
        if o.kind != 'return':
            obs.append(Obligation(f'wn.lmf.is_lmf:p{n}:no-raise', kind='safety', decided=False,
                                  detail=f'is_lmf raises {o.exc.exc_type.__name__}', **cm))
            continue
        v = o.value
        vz = v.z if isinstance(v, SV) else z3.BoolVal(bool(v))
        obs.append(Obligation(f'wn.lmf.is_lmf:p{n}:iff-header-accepted', kind='post', assumptions=list(o.pc),
                              goal=vz == z3.And(xml_ok, hdr_ok),
                              detail='is_lmf(f) <=> is_xml(f) and _read_header accepts the first two lines', **cm))
    # load(): _quick_scan -> _read_header first
    order = []

    def qs_read_header(it, args, kw, node):
        order.append('_read_header')
        return '1.0'
    outs = explore(lambda it: it.call(lmf._quick_scan, [path_ctor(it, [], {}, None)], {}),
                   contracts={'wn.lmf._read_header': qs_read_header}, packages=('wn',))
    obs.append(Obligation('wn.lmf._quick_scan:reads-header', kind='structure',
                          decided=(len(outs) == 1 and order == ['_read_header'] and outs[0].kind == 'return'),
                          detail='load() decides the version with the same _read_header as is_lmf()', **cm))
    return obs


def add_order_obligations() -> list:
    """_add_lmf: scan_lexicons, _precheck, lmf.load, then _add_lexical_resource - load() (which raises on invalid
    documents) completes before anything is written."""
    obs = []
    cm = dict(prop=PROP, functions=('wn._add._add_lmf',), source=source_span(A._add_lmf), assumptions_used=('A-TXN',))
    order = []

    def stub(name, ret):
        def h(it, args, kw, node):
            order.append(name)
            return ret(it) if callable(ret) else ret
        return h
    skip = z3.Bool('all_skipped')

    class Skip(SObj):
        def __init__(self):
            super().__init__(type('SkipMap', (), {}), name='skipmap')

        def vc_getattr(self, it, name, node):
            if name == 'values':
                return SymMethod(lambda i, a, k, n: MList([SV('bool', skip)]), 'values')
            return NotImplemented

    seqs = []
    for infos in (MList([SRec('info')]), MList([])):        # the pre-scan finds lexicons / finds none
        contracts = {'wn.lmf.scan_lexicons': stub('scan_lexicons', infos),
                     'wn._add._precheck': stub('_precheck', lambda it: Skip()),
                     'wn.lmf.load': stub('load', SRec('resource')),
                     'wn._add._add_lexical_resource': stub('_add_lexical_resource', None)}

        def run(it):
            del order[:]
            it.call(A._add_lmf, ['source', addmodel.Progress(), addmodel.Progress()], {})
            return list(order)
        outs = explore(run, contracts=contracts, packages=('wn',))
        seqs += [tuple(o.value) for o in outs if o.kind == 'return']
    seqs = sorted(set(seqs))
    full = ('scan_lexicons', '_precheck', 'load', '_add_lexical_resource')
    obs.append(Obligation('wn._add._add_lmf:load-before-write', kind='effect',
                          decided=(full in seqs and all('_add_lexical_resource' not in q or q == full for q in seqs)),
                          detail=f'call sequences {seqs}: the document is fully loaded (and rejected if invalid) before '
                                 '_add_lexical_resource, the only writer, starts', **cm))
    # "rejected by add() with an exception": a path that returns normally without having called load() has not looked
    # at the document with the XML parser at all (known finding K25: the two early returns after the regex pre-scan)
    recorded = {('scan_lexicons',), ('scan_lexicons', '_precheck')}
    for q in seqs:
        obs.append(Obligation(f'wn._add._add_lmf:returns-only-after-load:{"+".join(q) or "-"}', kind='effect',
                              decided='load' in q, finding='K25' if q in recorded else None,
                              detail=f'path {q} returns normally without load(): an invalid document on this path is '
                                     'not rejected', **cm))
    return obs


def run(sess: Session):
    sess.assume('A-XML', 'expat reports well-formedness errors as ExpatError and delivers elements/attributes/'
                         'character data of well-formed documents faithfully')
    for v in lmfrt.VERSIONS:
        for ob in start_obligations(v) + end_char_obligations(v):
            if isinstance(ob, tuple):
                sess.unsupported(ob[1], ob[2])
            else:
                sess.check(ob)
    for ob in is_lmf_obligations() + add_order_obligations():
        sess.check(ob)
    for ob in required_attribute_obligations():
        if isinstance(ob, tuple):
            sess.unsupported(ob[1], ob[2])
        else:
            sess.check(ob)
    # table agreement: the real element table is the DTD inventory
    for v in lmfrt.VERSIONS:
        sess.check(Obligation(f'wn.lmf._VALID_ELEMS:{v}:inventory', PROP, 'static',
                              decided=set(lmf._VALID_ELEMS[v]) == ELEMENTS[v],
                              detail=f'element table of {v} == DTD inventory', functions=('wn.lmf._VALID_ELEMS',)))
    bounded(sess)
    sess.level = 'proof'
    sess.explanation = ('element acceptance / rejection by the real expat handlers decided for every element name x '
                        'version x occurrence (symbolic execution); is_lmf/_read_header/add ordering by symbolic '
                        'execution; required-attribute rejection, well-formedness, header variants and '
                        'scan_lexicons == load only by the bounded fault sweep')


def normalize_space_bounded(sess: Session):
    """wn.lmf._normalize_space (the str_wsnorm of the contracts) against its definition: runs of XML white space
    (#x20 #x9 #xD #xA) become one space, leading and trailing ones are removed, every other character - including
    the other Unicode space characters - is kept."""
    import itertools
    import re
    fn = getattr(lmf, '_normalize_space', None)
    # (1) through the real loader, whatever the normalisation is called: a definition text of <= 2 characters of the
    # alphabet between two letters, written into a document and read back
    import os
    import tempfile
    from xml.sax.saxutils import escape
    doc_alphabet = ['a', ' ', '\t', '\n', '\u00a0', '\u3000', '\u2003', '\u2028', '\u0085', 'é']
    head = ('<?xml version="1.0" encoding="UTF-8"?>\n<!DOCTYPE LexicalResource SYSTEM '
            '"http://globalwordnet.github.io/schemas/WN-LMF-1.0.dtd">\n<LexicalResource '
            'xmlns:dc="http://purl.org/dc/elements/1.1/">\n<Lexicon id="n" label="n" language="en" email="e" '
            'license="l" version="1">\n')
    texts = [''.join(c) for k in range(0, 3) for c in itertools.product(doc_alphabet, repeat=k)]
    body = ''.join(f'<Synset id="n-{i}" ili="" partOfSpeech="n"><Definition>x{escape(t)}y{escape(t)}</Definition>'
                   f'</Synset>\n' for i, t in enumerate(texts))
    tmp = tempfile.mkdtemp(prefix='wnws')
    doc_bad, doc_cases = [], 0
    try:
        path = os.path.join(tmp, 'ws.xml')
        open(path, 'w', encoding='utf-8').write(head + body + '</Lexicon>\n</LexicalResource>\n')
        res = lmf.load(path, progress_handler=None)
        for t, ss in zip(texts, res['lexicons'][0]['synsets']):
            doc_cases += 1
            want = re.sub(r'[ \t\r\n]+', ' ', f'x{t}y{t}').strip(' ')
            got = ss['definitions'][0]['text']
            if got != want:
                doc_bad.append({'text': f'x{t}y{t}', 'loaded': got, 'expected': want})
    finally:
        import shutil
        shutil.rmtree(tmp, ignore_errors=True)
    sess.add_bounded('wn.lmf.load (white space in text content)', f'{doc_cases} definitions x<t>y<t> with t of <= 2 '
                     f'characters over {len(doc_alphabet)} characters', doc_cases, 'real loader against the definition',
                     not doc_bad)
    if doc_bad:
        sess.violation_direct('wn.lmf.load:text-white-space', 'text content is altered beyond the collapsing of XML white '
                              'space', {'witness': repr(doc_bad[0]), 'cases': len(doc_bad)}, True,
                              functions=('wn.lmf._make_parser',))
    if fn is None:
        return
    alphabet = ['a', ' ', '\t', '\n', '\r', '\u00a0', '\u3000', '\u2003', '\u2028', '\x0b', '\x0c', '\u0085', 'é']
    cases, bad = 0, []
    for n in range(0, 5):
        for combo in itertools.product(alphabet, repeat=n):
            text = ''.join(combo)
            want = re.sub(r'[ \t\r\n]+', ' ', text).strip(' ')
            cases += 1
            got = fn(text)
            if got != want:
                bad.append({'text': text, 'got': got, 'want': want})
    sess.add_bounded('wn.lmf._normalize_space', f'every string of <= 4 characters over {len(alphabet)} characters (XML '
                     'white space, other Unicode spaces and separators, letters)', cases, 'comparison with the '
                     'definition', not bad)
    if bad:
        sess.violation_direct('wn.lmf._normalize_space:definition', 'text normalisation alters characters other than XML '
                              'white space (or keeps XML white space)', {'witness': repr(bad[0])}, True,
                              functions=('wn.lmf._normalize_space',))


def bounded(sess: Session):
    normalize_space_bounded(sess)
    from bounded import lmf_faults as F
    out = F.sweep()
    bad = [r for r in out if r[4]]
    # a recorded finding covers its own symptom only: K6 = the regex pre-scan disagrees with / fails on a valid document
    # that load() accepts; K25 = add() returns normally (database unchanged) although load() rejects the document
    k6 = [r for r in bad if r[3].startswith('K6:') and r[4].startswith('SCAN:')]
    k25 = [r for r in bad if r[3].startswith('K25:') and r[4].strip() == 'add() accepted the invalid document']
    new = [r for r in bad if r not in k6 and r not in k25]
    for version, doc, kind, label, problem, text in new[:5]:
        sess.violation_direct(f'wn.lmf.load/scan_lexicons/add:bounded:{version}:{doc}:{kind}:{label}', problem[:1200],
                              {'kind': 'lmf-fault', 'version': version, 'document': text}, reproduced=True,
                              functions=('wn.lmf.load', 'wn.lmf.scan_lexicons', 'wn.lmf.is_lmf', 'wn._add.add'))
    if k6:
        version, doc, kind, label, problem, text = k6[0]
        sess.violation_direct(f'wn.lmf.scan_lexicons:bounded:valid:{label}', problem[:1200],
                              {'kind': 'lmf-fault', 'version': version, 'document': text}, reproduced=True,
                              finding='K6', functions=('wn.lmf.scan_lexicons',))
    if k25:
        version, doc, kind, label, problem, text = k25[0]
        sess.violation_direct(f'wn.add:bounded:fault:{label}', problem[:1200],
                              {'kind': 'lmf-fault', 'version': version, 'document': text}, reproduced=True,
                              finding='K25', functions=('wn._add._add_lmf',))
    sess.add_bounded('wn.lmf.load / is_lmf / scan_lexicons / wn.add',
                     f'{sum(1 for r in out if r[2] == "valid")} valid variants and '
                     f'{sum(1 for r in out if r[2] == "fault")} single-fault mutations of generated documents, '
                     '4 versions', len(out), 'native execution + table dump', ok=not new)


# ---- required identifying attributes: the _validate_* assertions -------------------------------------------------

def free_record(alts, name, idx=(), absent=None, path=()):
    """A record as the expat handlers may leave it: EVERY key optional (symbolic presence), string values, nested
    lists of such records; Count elements carry `text` (not yet `value`). `absent`: (path, key) forced absent."""
    import typing
    from contracts.lmfrt import _is_td, _fn
    hints = {}
    for td in alts:
        for k, v in typing.get_type_hints(td).items():
            hints.setdefault(k, v)
    rec = SRec(name)
    rec.path = path
    if any(td.__name__ == 'Count' for td in alts):
        hints = {'text': str, 'meta': hints.get('meta')}
    for k, tp in hints.items():
        present = _fn(f'{name}.{k}.present', idx, z3.BoolSort())
        if absent is not None and absent == (path, k):
            present = False
        rec.slots[k] = Slot(present, free_value(tp, f'{name}.{k}', idx, absent, path + (k,)))
    return rec


def free_value(tp, name, idx, absent, path):
    import typing
    from contracts.lmfrt import _is_td, _fn
    origin = typing.get_origin(tp)
    args = typing.get_args(tp)
    if tp is None:
        return None
    if _is_td(tp) and tp.__name__ == 'Metadata':
        return None
    if origin is typing.Union:
        nonnone = [a for a in args if a is not type(None)]
        if any(_is_td(a) and a.__name__ == 'Metadata' for a in nonnone):
            return None
        if all(_is_td(a) for a in nonnone):
            return free_record(nonnone, name, idx, absent, path)
        return free_value(nonnone[0], name, idx, absent, path)
    if origin is typing.Literal or tp is bool:
        return SV('bool', z3.BoolVal(True)) if origin is typing.Literal else SV('str', _fn(name, idx, UStr))
    if tp in (str, int, float):
        return SV('str', _fn(name, idx, UStr))          # attributes are strings before validation
    if origin is list:
        elem_t = args[0]
        if elem_t is str:
            return SV('str', _fn(name, idx, UStr))      # IDREFS attribute, still one string

        def make(pth, eidx, elem_t=elem_t):
            return free_value(elem_t, pth, tuple(eidx), absent, path)
        return SList(name, make, tuple(idx))
    if _is_td(tp):
        return free_record([tp], name, idx, absent, path)
    raise Unsupported(f'free value of {tp!r}')


# (path of keys from the lexicon to the element, attribute, applicability over the element record)
def _not_external(rec):
    s = rec.slots.get('external')
    return z3.BoolVal(True) if s is None else z3.Not(z_bool(s.present))


REQUIRED = [((), a, None) for a in ('id', 'version', 'label', 'language', 'email', 'license')] + [
    (('requires',), 'id', None), (('requires',), 'version', None),
    (('extends',), 'id', None), (('extends',), 'version', None),
    (('entries',), 'id', None),
    (('entries', 'lemma'), 'partOfSpeech', _not_external), (('entries', 'lemma'), 'writtenForm', _not_external),
    (('entries', 'forms'), 'writtenForm', _not_external),
    (('entries', 'lemma', 'tags'), 'category', None), (('entries', 'forms', 'tags'), 'category', None),
    (('entries', 'senses'), 'id', None), (('entries', 'senses'), 'synset', _not_external),
    (('entries', 'senses', 'relations'), 'target', None), (('entries', 'senses', 'relations'), 'relType', None),
    (('entries', 'senses', 'counts'), 'text', None),
    (('entries', 'frames'), 'subcategorizationFrame', None), (('frames',), 'subcategorizationFrame', None),
    (('synsets',), 'id', None), (('synsets',), 'ili', _not_external),
    (('synsets', 'relations'), 'target', None), (('synsets', 'relations'), 'relType', None),
]


def required_attribute_obligations() -> list:
    obs = []
    fname = 'wn.lmf._validate'
    cm = dict(prop=PROP, functions=('wn.lmf._validate', 'wn.lmf._validate_lexicon', 'wn.lmf._validate_entries',
                                    'wn.lmf._validate_forms', 'wn.lmf._validate_senses', 'wn.lmf._validate_frames',
                                    'wn.lmf._validate_synsets'), source=source_span(lmf._validate),
              assumptions_used=())
    for path, attr, cond in REQUIRED:
        tag = f"{fname}:required:{'/'.join(path) or 'lexicon'}@{attr}"

        def run(it, path=path, attr=attr):
            L = free_record([lmf.Lexicon, lmf.LexiconExtension], 'L', (), absent=(path, attr))
            r = it.call(lmf._validate, [L], {})
            return L
        try:
            outs = explore(run, contracts=lmfrt.make_contracts([], [], set()), packages=lmfrt.PACKAGES,
                           options=lmfrt.OPT)
        except Unsupported as exc:
            obs.append(('unsupported', tag, str(exc)))
            continue
        list_keys = [k for k in path if k in ('requires', 'entries', 'forms', 'tags', 'senses', 'relations', 'counts',
                                              'frames', 'synsets')]
        for n, o in enumerate(outs):
            if o.kind == 'raise':
                continue                                     # rejected on this path
            L = o.value
            # binders of the loops over the lists on the path (as created by the validator's own loops)
            want_names = []
            cur = 'L'
            for k in path:
                cur = cur + '.' + k
                if k in list_keys:
                    want_names.append(cur)
            entries = []
            for mr in o.may_raise:
                binders = mr[4] if len(mr) > 4 else []
                names = [b.key[1] for b in binders if getattr(b, 'key', None) and b.key[0] == 'list']
                if names == want_names:
                    entries.append(mr)
            if not want_names:
                # a required attribute of a single element (lexicon, extends, lemma): the path must not return
                rec, exists = _element(L, path, [])
                g = z3.Not(z_and(exists, cond(rec) if cond else True))
                obs.append(Obligation(f'{tag}:p{n}', kind='post', assumptions=list(o.pc) + lit_axioms(), goal=g,
                                      detail=f'_validate returns although {"/".join(path) or "Lexicon"}@{attr} is missing',
                                      **cm))
                continue
            if not entries:
                obs.append(Obligation(f'{tag}:p{n}', kind='post', decided=False,
                                      detail=f'no assertion guards elements at {"/".join(path)}', **cm))
                continue
            binders = entries[0][4]
            rec, exists = _element(L, path, binders)
            B = [b.constraint for b in binders]
            npc = len(o.pc)
            fails = z_or(*[z_and(*mr[1][npc:]) for mr in entries])
            # also assertions of enclosing loops may fire first (an outer element invalid): they reject as well
            outer = [mr for mr in o.may_raise if mr not in entries and
                     all(any(b is bb for bb in binders) for b in (mr[4] if len(mr) > 4 else []))]
            fails = z_or(fails, *[z_and(*mr[1][npc:]) for mr in outer])
            hyp = z_and(*B, exists, cond(rec) if cond else True)
            obs.append(Obligation(f'{tag}:p{n}', kind='post', assumptions=list(o.pc) + lit_axioms(),
                                  goal=z3.Implies(z_bool(hyp), z_bool(fails)),
                                  detail=f'an element at {"/".join(path)} without `{attr}` makes an assertion of the '
                                         f'validator fail (the document is rejected)', **cm))
    return obs


def _element(L, path, binders):
    """The record at `path` for the given loop binders and the condition that it exists."""
    cur = L
    exists = []
    bi = 0
    for k in path:
        slot = cur.slots.get(k)
        exists.append(z_bool(slot.present))
        v = slot.value
        if isinstance(v, SList):
            b = binders[bi]
            bi += 1
            cur = v.at(b.var)
        else:
            cur = v
    return cur, z_and(*exists)
