"""Symbolic exploration of wn._add._add_lexical_resource / _add_ili / remove: the effect log (SQL statements with
their parameter families, transaction events, progress callbacks) that C01, C05, C06, C07 and C19 reason about."""
from __future__ import annotations

import z3

import wn
import wn._add as A
import wn.lmf as lmf
from vc.core import Unsupported
from vc.pyvc.values import SV, SObj, SRec, SList, Slot, mk, fresh_name, SORTS, UStr
from vc.pyvc.interp import explore, Event, SymMethod, AbstractFn, MList
from vc.pyvc.dbmodel import World
from vc.pyvc import shapes
from vc.pyvc.values import SBatched


class Progress(SObj):
    """The caller's progress handler: every method is caller code (may raise anything - C06)."""

    def __init__(self):
        super().__init__(type('ProgressHandler', (), {}), name='progress')

    def vc_getattr(self, it, name, node):
        def call(i, a, k, n, name=name):
            i.ctx.effects.append(Event('progress', guard=i.ctx.current_guard(), binders=list(i.ctx.all_binders()),
                                       node=n, extra={'method': name}, pc_len=len(i.ctx.pc)))
            return None
        return SymMethod(call, 'progress.' + name)


class SkipMap(SObj):
    def __init__(self):
        super().__init__(type('SkipMap', (), {}), name='skipmap')
        self.f = z3.Function('skipmap', UStr, z3.BoolSort())

    def vc_getitem(self, it, idx, node):
        return SV('bool', self.f(idx.z))

    def vc_getattr(self, it, name, node):
        if name == 'update':
            # the abstract skip map is an arbitrary function already: an update cannot make it more arbitrary
            return SymMethod(lambda i, a, k, n: None, 'skipmap.update')
        return NotImplemented


def batch_contract(it, args, kwargs, node):
    """_batch(seq): consecutive chunks whose concatenation is seq (contract; the function itself is checked by
    the bounded stand-in in C01)."""
    return SBatched(args[0])


def resource(name='res') -> SRec:
    return shapes.sym_record([lmf.LexicalResource], name)


def explore_add(world: World, extra_contracts=None, collect_frames_stub=True):
    res = resource()
    progress = Progress()
    skipmap = SkipMap()
    contracts = world.contracts()
    contracts[A._batch] = batch_contract
    contracts[A._sum_counts] = lambda it, a, k, n: SV('int', z3.Int(fresh_name('sum_counts')))
    if collect_frames_stub:
        contracts[A._collect_frames] = collect_frames_contract
    # format_lexicon_specifier(id, version): an injective-enough function of (id, version)
    spec_f = z3.Function('specifier', UStr, UStr, UStr)
    import wn._util
    contracts[wn._util.format_lexicon_specifier] = lambda it, a, k, n: SV('str', spec_f(a[0].z, a[1].z))
    norm_f = z3.Function('normalize_form', UStr, UStr)
    contracts[wn._util.normalize_form] = lambda it, a, k, n: SV('str', norm_f(a[0].z))
    if extra_contracts:
        contracts.update(extra_contracts)
    outs = explore(lambda it: it.call(A._add_lexical_resource, [res, skipmap, progress], {}),
                   contracts=contracts, packages=('wn', 'contracts.spec_add'))
    return res, outs


def collect_frames_contract(it, args, kwargs, node):
    lexicon = args[0]
    parents = tuple(b.var for b in it.ctx.all_binders())

    def make(path, idx):
        return shapes.sym_record([lmf.SyntacticBehaviour], path, tuple(idx))
    return SList('collected_frames', make, parents)
