"""C05 - database content depends only on which lexicons are installed.

Obligations (DESIGN §5 C05), all over the real DDL (wn/schema.sql as SQLite parses it), the real SQL and the
real Python of wn/_add.py, wn/_db.py:

  ddl:owned-cascade:<t>     every lexicon-owned table reaches lexicons(rowid) through ON DELETE CASCADE on every
                            hop of its ownership chain                                        (decision procedure)
  ddl:no-dangling:<t>.<c>   every foreign key into a lexicon-owned table is CASCADE or SET NULL, the only
                            exception (lexicon_extensions.base_rowid, NO ACTION) being protected by remove:order
  db:foreign-keys-on        wn._db.connect executes PRAGMA foreign_keys = ON before the connection is pooled;
                            no other sqlite3.connect in the package                              (AST procedure)
  remove:order / :scope     remove(): extensions (transitive closure, ordered by depth) deleted deepest-first,
                            then the lexicon itself, each by rowid                         (pyvc effect log)
  add:contribution:<t>      every row add() stores for lexicon L is owned by L: it carries lexicon_rowid = L, or
                            hangs (CASCADE) off a parent row that is resolved inside L           (pyvc + z3)
  add:locality              every identifier is resolved in L or in the lexicon L extends (lexidmap values)
  add:skip                  _precheck marks exactly "already installed" / "base missing"; a skipped lexicon
                            causes no write                                                      (pyvc + z3)
  history:lemma             from the per-operation contracts: after any finite history the content is the
                            union of the images of the installed lexicons                (z3 over abstract state)
"""
from __future__ import annotations

import ast
import re
import inspect
import textwrap
from pathlib import Path

import z3

import wn
import wn._add as A
import wn._db
from vc.core import Obligation, Session, Unsupported, REPO
from vc.pyvc.values import SV, SObj, SRec, SList, mk, fresh_name, UStr, z_and, z_bool, z_not, z_or
from vc.pyvc.interp import explore, Event, MList, source_span, AbstractFn
from vc.pyvc.dbmodel import World
from vc.sqlvc import parse as P
from vc.sqlvc.schema import load_schema
from contracts import addmodel, addchecks, sqlchecks
from contracts.common import path_id, lit_axioms
from contracts import C06 as c06

PROP = 'C05'
SHARED = sqlchecks.SHARED


def ddl_obligations(schema) -> list:
    obs = []
    src = str(REPO / 'wn' / 'schema.sql')
    for t in schema.tables.values():
        if t.name in SHARED or t.name == 'lexicons':
            continue
        # ownership chain
        chain_ok, why = owned_chain(schema, t.name, set())
        obs.append(Obligation(f'wn/schema.sql:ddl:owned-cascade:{t.name}', PROP, 'static', decided=chain_ok,
                              detail=why, functions=('wn/schema.sql',), source=src))
    # foreign keys into owned tables
    for t in schema.tables.values():
        for fk in t.fks:
            if fk.ref_table in SHARED:
                continue
            ok = fk.on_delete in ('CASCADE', 'SET NULL')
            protected = (t.name, fk.column) == ('lexicon_extensions', 'base_rowid')
            obs.append(Obligation(
                f'wn/schema.sql:ddl:no-dangling:{t.name}.{fk.column}', PROP, 'static', decided=ok or protected,
                detail=f'{t.name}.{fk.column} -> {fk.ref_table} ON DELETE {fk.on_delete}' +
                       (' (NO ACTION: protected by the deletion order of remove(), obligation remove:order)'
                        if protected and not ok else ''),
                functions=('wn/schema.sql',), source=src))
    return obs


def owned_chain(schema, table, seen):
    """Does `table` reach lexicons through ON DELETE CASCADE along its ownership chain?"""
    t = schema.table(table)
    if table in seen:
        return False, f'ownership cycle at {table}'
    if t.col('lexicon_rowid') is not None:
        fk = [f for f in t.fks if f.column == 'lexicon_rowid']
        if not fk or fk[0].ref_table != 'lexicons':
            return False, f'{table}.lexicon_rowid is not a foreign key to lexicons'
        if fk[0].on_delete != 'CASCADE':
            return False, f'{table}.lexicon_rowid ON DELETE {fk[0].on_delete}'
        return True, f'{table}.lexicon_rowid -> lexicons ON DELETE CASCADE'
    if table in sqlchecks.OWNED_VIA:
        col, parent = sqlchecks.OWNED_VIA[table]
        fk = [f for f in t.fks if f.column == col]
        if not fk or fk[0].ref_table != parent:
            return False, f'{table}.{col} is not a foreign key to {parent}'
        if fk[0].on_delete != 'CASCADE':
            return False, f'{table}.{col} ON DELETE {fk[0].on_delete}'
        if parent == 'lexicons':
            return True, f'{table}.{col} -> lexicons ON DELETE CASCADE'
        ok, why = owned_chain(schema, parent, seen | {table})
        return ok, f'{table}.{col} -> {parent} CASCADE; ' + why
    return False, f'{table}: no ownership rule (new table without lexicon_rowid?)'


def connect_paths():
    """Symbolic execution of wn._db.connect() on all of its paths.  Stand-ins: the module-level `pool` (membership is
    a free Boolean; a connection found there was put there by an earlier connect(), induction hypothesis), wn.config
    (database_path: a path whose is_file() is a free Boolean), sqlite3.connect (returns a recording connection),
    _init_db / _check_schema_compatibility (recorded calls).  Returns [(outcome, returned value, event log, helper
    stacks)]; helper functions that connect() calls are executed inline, so extracting one changes nothing."""
    import sqlite3
    import wn._db as D
    from vc.pyvc.interp import SymMethod
    from vc.pyvc.values import SObj
    log, stacks = [], []

    class Conn(SObj):
        def __init__(self, name='conn'):
            super().__init__(type('Conn', (), {}), name=name)

        def vc_getattr(self, it, attr, node):
            def call(i, a, k, n, attr=attr):
                log.append((attr, self, list(a), dict(k)))
                return None
            return SymMethod(call, attr)

        def vc_setattr(self, it, attr, val, node):
            log.append(('setattr:' + attr, self, [val], {}))

    class Pool(SObj):
        def __init__(self):
            super().__init__(type('Pool', (), {}), name='pool')
            self.stored = None
            self.pooled = Conn('pooled')

        def vc_contains(self, it, item, node):
            return True if self.stored is not None and item is self.stored[0] else mk('bool', 'pool_hit').z

        def vc_getitem(self, it, idx, node):
            return self.stored[1] if self.stored else self.pooled

        def vc_setitem(self, it, idx, val, node):
            self.stored = (idx, val)
            log.append(('POOL-STORE', idx, [val], {}))

    class PathStub(SObj):
        def __init__(self):
            super().__init__(type('PathStub', (), {}), name='dbpath')

        def vc_getattr(self, it, attr, node):
            if attr in ('is_file', 'exists'):
                return SymMethod(lambda i, a, k, n: mk('bool', 'db_file_exists'), attr)
            raise Unsupported(f'database path attribute {attr}')

    class Cfg(SObj):
        def __init__(self, path):
            super().__init__(type('Cfg', (), {}), name='config')
            self.path = path

        def vc_getattr(self, it, attr, node):
            if attr == 'database_path':
                return self.path
            if attr == 'allow_multithreading':
                return mk('bool', 'allow_mt')
            raise Unsupported(f'wn.config.{attr}')

    class WnStub(SObj):
        def __init__(self, cfg):
            super().__init__(type('WnStub', (), {}), name='wn')
            self.cfg = cfg

        def vc_getattr(self, it, attr, node):
            return self.cfg if attr == 'config' else getattr(wn, attr)

    def run(it):
        del log[:]
        pool, path = Pool(), PathStub()
        it.options['global_overrides'] = {('wn._db', 'pool'): pool, ('wn._db', 'wn'): WnStub(Cfg(path))}

        def h_connect(i, a, k, n):
            c = Conn()
            log.append(('sqlite3.connect', c, list(a), dict(k)))
            stacks.append([f.qualname for f in i.fn_stack])
            return c
        it.contracts[sqlite3.connect] = h_connect
        r = it.call_function(D.connect, [], {})
        return r, list(log), pool

    def rec(name):
        def h(it, a, k, n):
            log.append((name, a[0] if a else None, list(a), dict(k)))
            return None
        return h
    noop = lambda it, a, k, n: None     # noqa: E731
    contracts = {D._init_db: rec('_init_db'), D._check_schema_compatibility: rec('_check_schema_compatibility')}
    for lv in ('debug', 'info', 'warning', 'error'):
        contracts[getattr(D.logger, lv)] = noop
    outs = explore(run, contracts=contracts)
    return outs, stacks


_FK_ON = re.compile(r'^\s*pragma\s+foreign_keys\s*=\s*(on|1|true|yes)\s*;?\s*$', re.I)


def pragma_obligations() -> list:
    """Every connection that connect() returns or pools was created with detect_types=PARSE_DECLTYPES and had PRAGMA
    foreign_keys = ON executed on it first (all paths, symbolic execution); a new database file is initialised;
    sqlite3.connect is called nowhere else in the package."""
    import sqlite3
    obs = []
    fn = wn._db.connect
    cm = dict(prop=PROP, functions=('wn._db.connect',), source=source_span(fn))
    outs, stacks = connect_paths()        # Unsupported propagates: exit 3, never a violation
    fk_ok, fk_why, dt_ok, init_ok, mode_ok = True, '', True, True, True
    n_new = 0
    for o in outs:
        if o.kind != 'return':
            fk_ok, fk_why = False, f'connect() raises {o.exc.exc_type.__name__} on a path'
            continue
        r, log, pool = o.value
        created = [e for e in log if e[0] == 'sqlite3.connect']
        if not created:
            if r is not pool.pooled:
                fk_ok, fk_why = False, 'a path returns something that is neither a new nor the pooled connection'
            continue
        n_new += 1
        conn = created[0][1]
        names = [e[0] for e in log]
        on_conn = [e for e in log if e[1] is conn and e[0] != 'sqlite3.connect']
        first = on_conn[0] if on_conn else None
        prag = bool(first and first[0] == 'execute' and first[2] and isinstance(first[2][0], str)
                    and _FK_ON.match(first[2][0]))
        stores = [e for e in log if e[0] == 'POOL-STORE']
        if len(created) != 1 or not prag or r is not conn or not stores or any(e[2][0] is not conn for e in stores):
            fk_ok = False
            fk_why = fk_why or ('events on a pool miss: ' + ', '.join(
                f"{e[0]}({e[2][0] if e[2] and isinstance(e[2][0], str) else ''})" for e in log))
        if created[0][3].get('detect_types') != sqlite3.PARSE_DECLTYPES:
            dt_ok = False
        if any(n.startswith('setattr:') and n.split(':')[1] in ('isolation_level', 'autocommit') for n in names):
            mode_ok = False
        # initialised exactly when the file did not exist
        s = z3.Solver()
        s.add(*o.pc)
        s.add(z3.Bool('db_file_exists'))
        existed_possible = s.check() == z3.sat
        if ('_init_db' in names) == existed_possible:
            init_ok = False
    if n_new == 0:
        fk_ok, fk_why = False, 'no path creates a connection'
    obs.append(Obligation('wn._db.connect:db:foreign-keys-on', decided=fk_ok, kind='post',
                          detail=fk_why or f'{len(outs)} paths: a new connection runs PRAGMA foreign_keys = ON first, is '
                                           'stored in the pool and returned; a pool hit returns the pooled connection',
                          **cm))
    obs.append(Obligation('wn._db.connect:converters:detect-types', decided=dt_ok, kind='post',
                          detail='sqlite3.connect(..., detect_types=PARSE_DECLTYPES) on every path', **cm))
    obs.append(Obligation('wn._db.connect:db:init-iff-new-file', decided=init_ok, kind='post',
                          detail='_init_db(conn) is called exactly on the paths where the database file did not exist',
                          **cm))
    obs.append(Obligation('wn._db.connect:db:transaction-mode-untouched', decided=mode_ok, kind='post',
                          detail='connect() does not assign isolation_level / autocommit', **cm))
    # no other sqlite3.connect: every call site is in connect() or in a helper executed (only) on behalf of connect()
    allowed = {q for st in stacks for q in st}
    allowed_names = {q.split('.')[-1] for q in allowed}
    others = []
    for path in sorted((REPO / 'wn').glob('*.py')):
        t = ast.parse(path.read_text())
        funcs = [f for f in ast.walk(t) if isinstance(f, (ast.FunctionDef, ast.AsyncFunctionDef))]

        def enclosing(n):
            best = None
            for f in funcs:
                if f.lineno <= n.lineno <= (f.end_lineno or f.lineno) and (best is None or f.lineno >= best.lineno):
                    best = f
            return best.name if best else None
        for n in ast.walk(t):
            if not isinstance(n, ast.Call):
                continue
            callee = ast.unparse(n.func)
            if callee in ('sqlite3.connect', 'sqlite3.Connection'):
                if not (path.name == '_db.py' and enclosing(n) in allowed_names):
                    others.append(f'{path.name}:{n.lineno}')
            elif callee.split('.')[-1] in allowed_names - {'connect'} and path.name == '_db.py' \
                    and enclosing(n) not in allowed_names:
                others.append(f'{path.name}:{n.lineno} calls the helper {callee} outside connect()')
    obs.append(Obligation('wn:db:single-connect', PROP, 'static', decided=not others,
                          detail='other sqlite3.connect calls: ' + ', '.join(others) if others else
                          'sqlite3.connect only in wn._db.connect (and helpers executed on its behalf: '
                          f'{sorted(allowed_names)})', functions=('wn._db.connect',)))
    return obs


def remove_obligations(sess: Session) -> list:
    world = World()
    contracts = c06.stub_contracts(world)
    import wn._queries as Q
    name = 'wn._add.remove'
    obs = []
    outs = explore(lambda it: it.call(A.remove, [mk('str', 'lexicon'), c06.progress_class()], {}),
                   contracts=contracts)
    for o in outs:
        pid = path_id(o)
        deletes = [e for e in o.effects if e.kind in ('execute', 'executemany')
                   and isinstance(e.extra.get('stmt'), P.Delete)]
        calls = [e for e in o.effects if e.kind == 'call']
        common = dict(prop=PROP, kind='effect', functions=(name, 'wn._add._find_all_extensions'),
                      source=source_span(A.remove))
        shape_ok = len(deletes) == 2 and all(e.extra['stmt'].table == 'lexicons' for e in deletes)
        obs.append(Obligation(f'{name}:remove:statements:{pid}', decided=shape_ok,
                              detail=f'{len(deletes)} DELETE statements on {[e.extra["stmt"].table for e in deletes]}'
                                     ' (expected: extensions, then the lexicon, both on `lexicons`)', **common))
        if not shape_ok:
            continue
        ext_del, own_del = deletes
        # (a) the extension delete runs inside a loop over the reversed extension list
        loops = [lp for lp in ext_del.loops if lp is not None]
        inner = loops[-1] if len(loops) >= 2 else None
        rev = bool(inner is not None and inner.reverse)
        obs.append(Obligation(f'{name}:remove:order:{pid}', decided=rev,
                              detail='extensions must be deleted deepest-first (reversed closure order): a shallower '
                                     'extension cannot be deleted while a deeper one still references it '
                                     '(lexicon_extensions.base_rowid, NO ACTION)', **common))
        # (b) the closure is get_lexicon_extensions(rowid of the matched lexicon) with unlimited depth
        clos = [c for c in calls if c.extra['fn'] == 'get_lexicon_extensions']
        fl = [c for c in calls if c.extra['fn'] == 'find_lexicons']
        ok_clos = len(clos) == 1 and len(fl) == 1
        obs.append(Obligation(f'{name}:remove:closure-call:{pid}', decided=ok_clos,
                              detail=f'calls: {[c.extra["fn"] for c in calls]}', **common))
        if ok_clos:
            depth = clos[0].extra['args'].get('depth')
            obs.append(Obligation(f'{name}:remove:closure-depth:{pid}', decided=(depth == -1),
                                  detail=f'get_lexicon_extensions depth argument = {depth!r} (must be unlimited)',
                                  **common))
        # (c) what is deleted: WHERE rowid = ? bound to the extension's rowid / the matched lexicon's rowid
        from vc.sqlvc.encode import Encoder, Scope
        from vc.pyvc.dbmodel import flatten_params
        for label, ev in (('extension', ext_del), ('own', own_del)):
            st = ev.extra['stmt']
            r = z3.Int(fresh_name('del_row'))
            enc = Encoder(world.db, flatten_params(ev.params))
            cond = enc.cond(st.where, Scope({'lexicons': ('table', 'lexicons', r)}, ['lexicons']))
            if label == 'own':
                # rowid of the generic row of find_lexicons
                target = fl and _first_component(ev, 0)
            asm = list(o.pc[:ev.pc_len]) + [b.constraint for b in ev.binders] + [z_bool(ev.guard)]
            param = flatten_params(ev.params).positional[0][1]
            obs.append(Obligation(f'{name}:remove:delete-by-rowid:{label}:{pid}', assumptions=asm + lit_axioms(),
                                  goal=cond == (r == param.z),
                                  detail='DELETE FROM lexicons WHERE rowid = <the rowid>', **common))
            ev.extra['del_param'] = param
        # own delete = rowid column (0) of the find_lexicons row; ext delete = element of the closure
        fl_name = 'find_lexicons['
        own_ok = str(own_del.extra['del_param'].z).startswith('find_lexicons[') and \
            str(own_del.extra['del_param'].z).split('(')[0].endswith('.0')
        ext_ok = 'get_lexicon_extensions[' in str(ext_del.extra['del_param'].z)
        obs.append(Obligation(f'{name}:remove:scope:{pid}', decided=bool(own_ok and ext_ok),
                              detail=f'own delete parameter {own_del.extra["del_param"].z}; extension delete '
                                     f'parameter {ext_del.extra["del_param"].z}', **common))
    return obs


def _first_component(ev, k):
    return None


def lookup_lexicon_keys(sv, out):
    """Collect (table, lexicon-key term) of the look-ups a row-image value is made of."""
    info = getattr(sv, 'lookup', None)
    if info is None:
        return
    table, resultcol, names, args, found = info
    flat = []
    for n in names:
        flat.extend(n.split('|'))
    for n, a in zip(flat, args):
        if n == 'lexicon_rowid':
            out.append((table, a))
    for kv in getattr(sv, 'lookup_keys', []):
        if isinstance(kv, SV):
            lookup_lexicon_keys(kv, out)


def contribution_obligations(sess: Session) -> list:
    """Every row stored for lexicon L is owned by L."""
    world = World()
    res, outs = addchecks.explore_checked(world)
    obs = []
    for out in outs:
        for cev in out.effects:
            if cev.kind != 'contract':
                continue
            fname = cev.extra['fn']
            qn = f'wn._add.{fname}'
            args = cev.extra['args']
            base_asm = list(cev.extra['assumptions']) + lit_axioms()
            # lexid argument of the call (by name in the real signature)
            sig = list(inspect.signature(getattr(A, fname)).parameters)
            lexid = args[sig.index('lexid')] if 'lexid' in sig else None
            for ev in cev.extra['real']:
                st = ev.extra['stmt']
                if not isinstance(st, P.Insert) or st.table in SHARED:
                    continue
                if lexid is None:
                    continue
                try:
                    table, conflict, rows, side = addchecks.insert_image(world, ev, cev.extra['p0'])
                except Exception:
                    continue
                for binders, guard, elem, _ in rows.leaves():
                    cons = [b.constraint for b in binders]
                    asm = base_asm + side + cons + [z_bool(guard)]
                    common = dict(prop=PROP, kind='post', functions=(qn,), source=source_span(getattr(A, fname)),
                                  assumptions_used=('A-SQLITE',))
                    if 'lexicon_rowid' in elem.d:
                        obs.append(Obligation(f'{qn}:add:contribution:{table}', assumptions=asm,
                                              goal=z_bool(famcmp_eq(elem.d['lexicon_rowid'], lexid)),
                                              detail=f'{table}.lexicon_rowid of a stored row = the lexicon being added',
                                              **common))
                        continue
                    if table in sqlchecks.OWNED_VIA:
                        col, parent = sqlchecks.OWNED_VIA[table]
                        keys = []
                        collect_parent_lexicon(elem.d.get(col), keys)
                        if not keys:
                            obs.append(Obligation(f'{qn}:add:contribution:{table}', decided=False,
                                                  detail=f'{table}.{col} is not resolved by a look-up inside a lexicon',
                                                  **common))
                            continue
                        goal = z_and(*[k == lexid.z for _, k in keys])
                        restricted = None
                        fid = None
                        if table in ('tags', 'pronunciations'):
                            fid = 'K13'
                        elif table == 'adjpositions' and 'lexidmap' in sig:
                            # A-IDS: identifiers are unique in a document (XML ID validity): the id of a LOCAL
                            # sense is not the id of an external entity, i.e. not a key of lexidmap
                            from vc.pyvc.builtins_sym import map_contains
                            lexidmap = args[sig.index('lexidmap')]
                            info = elem.d[col].lookup
                            idterm = dict(zip(info[2], info[3])).get('id')
                            if idterm is not None:
                                asm = asm + [z3.Not(z_bool(map_contains(None, lexidmap, SV('str', idterm))))]
                        obs.append(Obligation(
                            f'{qn}:add:contribution:{table}', assumptions=asm, goal=goal, finding=fid,
                            restricted=k13_restriction(cev, binders) if fid else None,
                            detail=f'the parent {parent} row of a stored {table} row must belong to the lexicon being '
                                   f'added (else removing that lexicon leaves the row behind: {table} has no '
                                   f'lexicon_rowid of its own)', **common))
    return obs


def k13_restriction(cev, binders):
    """K13: tags / pronunciations are only attached to forms of entries of the lexicon itself (the entry is not
    external, so its id is not in lexidmap)."""
    args = cev.extra['args']
    sig = list(inspect.signature(getattr(A, cev.extra['fn'])).parameters)
    lexid = args[sig.index('lexid')]
    lexidmap = args[sig.index('lexidmap')]
    # lexidmap is empty for non-extensions; restriction: the map has no entry at all
    from vc.pyvc.builtins_sym import map_entries
    from vc.pyvc.interp import Interp, Ctx
    try:
        seq = map_entries(None, lexidmap)
        return [z3.Not(z_bool(seq.nonempty()))]
    except Exception:
        return []


def collect_parent_lexicon(sv, out):
    if not isinstance(sv, SV):
        return
    info = getattr(sv, 'lookup', None)
    if info is None:
        return
    table, resultcol, names, args, found = info
    flat = []
    for n in names:
        flat.extend(n.split('|'))
    has_lex = False
    for n, a in zip(flat, args):
        if n == 'lexicon_rowid':
            out.append((table, a))
            has_lex = True
    if not has_lex:
        # look-up through a parent row (forms via entries): the parent's look-up carries the lexicon
        for kv in getattr(sv, 'lookup_keys', []):
            collect_parent_lexicon(kv, out)


def famcmp_eq(a, b):
    from vc.pyvc import famcmp
    return famcmp.value_eq(a, b)


def skip_obligations() -> list:
    """A skipped lexicon causes no write: every write event of the per-lexicon loop is guarded by not skip."""
    world = World()
    res, outs = addmodel.explore_add(world)
    obs = []
    skipf = z3.Function('skipmap', UStr, z3.BoolSort())
    for out in outs:
        pid = path_id(out)
        writes = [e for e in out.effects if c06.is_write(e)]
        bad = []
        goals = []
        for e in writes:
            if not e.binders:
                bad.append(c06._sql(e))
                continue
            # guard implies not skipmap[spec]
            goals.append((e, z_bool(e.guard)))
        obs.append(Obligation(f'wn._add._add_lexical_resource:add:skip:per-lexicon:{pid}', PROP, 'effect',
                              decided=not bad, detail=f'writes outside the per-lexicon loop: {bad}' if bad else
                              'every write belongs to one lexicon of the resource',
                              functions=('wn._add._add_lexical_resource',)))
        # find the skip term: the first predicate of the loop body
        skip_terms = set()
        for e, g in goals:
            for t in _atoms(g):
                if t.decl().name() == 'skipmap':
                    skip_terms.add(t)
        for e, g in goals[:1] + goals[-1:]:
            for t in skip_terms:
                asm = list(out.pc[:e.pc_len]) + [b.constraint for b in e.binders] + [g] + lit_axioms()
                obs.append(Obligation(
                    f'wn._add._add_lexical_resource:add:skip:no-write:{pid}:{c06._sql(e)[:30]}', PROP, 'effect',
                    assumptions=asm, goal=z3.Not(t),
                    detail='a write happens only for lexicons that _precheck did not mark as skipped',
                    functions=('wn._add._add_lexical_resource',), source=source_span(A._add_lexical_resource)))
    return obs


def precheck_obligations() -> list:
    """_precheck: skipmap[id:version] <=> installed(id, version) or (extends and not installed(base)); one
    entry per info; read-only."""
    from vc.pyvc import shapes
    import wn.lmf as lmf
    from vc.pyvc.interp import Lit, Loop, MDict
    world = World()
    contracts = c06.stub_contracts(world)
    infos = SList('infos', lambda p, idx: shapes.sym_record([lmf.ScanInfo], p, tuple(idx)))
    outs = explore(lambda it: it.call(A._precheck, [infos, addmodel.Progress()], {}), contracts=contracts)
    name = 'wn._add._precheck'
    obs = []
    db = world.db
    for o in outs:
        pid = path_id(o)
        common = dict(prop=PROP, functions=(name,), source=source_span(A._precheck), assumptions_used=('A-SQLITE',))
        writes = [e for e in o.effects if c06.is_write(e)]
        obs.append(Obligation(f'{name}:add:skip:read-only:{pid}', kind='effect', decided=not writes,
                              detail='_precheck performs no write', **common))
        if o.kind != 'return' or not isinstance(o.value, MDict):
            obs.append(Obligation(f'{name}:add:skip:result:{pid}', kind='post', decided=False,
                                  detail='no skip map returned', **common))
            continue
        nodes = o.value.nodes
        ok_shape = len(nodes) == 1 and isinstance(nodes[0], Loop) and not o.value.d
        if not ok_shape:
            obs.append(Obligation(f'{name}:add:skip:result:{pid}', kind='post', decided=False,
                                  detail='skip map is not one entry per scanned lexicon', **common))
            continue
        loop = nodes[0]
        b = loop.binders[0]
        info = infos.at(b.var)
        true_guards, false_uncond, keys = [], False, []
        for k in loop.kids:
            (key, val), g = k.elem, k.guard
            keys.append(key)
            if val is False and g is True:
                false_uncond = True
            elif val is True:
                true_guards.append(z_bool(g))
        r = z3.Int('r')

        def installed(idv, verv):
            return z3.Exists([r], z3.And(db.in_('lexicons')(r), db.col('lexicons', 'id')(r) == idv.z,
                                         db.col('lexicons', 'version')(r) == verv.z))
        ext = info.slots['extends'].value          # SOptRec
        base_rec = ext.rec
        has_base = z_bool(ext.present)
        spec = z3.Or(installed(info.slots['id'].value, info.slots['version'].value),
                     z3.And(has_base, z3.Not(installed(base_rec.slots['id'].value, base_rec.slots['version'].value))))
        asm = list(o.pc) + [b.constraint] + lit_axioms()
        obs.append(Obligation(f'{name}:add:skip:rule:{pid}', kind='post', assumptions=asm,
                              goal=z_and(z3.BoolVal(false_uncond), z_or(*true_guards) == spec),
                              detail='skip <=> already installed, or an extension whose base is not installed',
                              **common))
        spec_f = z3.Function('specifier', UStr, UStr, UStr)
        want = spec_f(info.slots['id'].value.z, info.slots['version'].value.z)
        obs.append(Obligation(f'{name}:add:skip:key:{pid}', kind='post', assumptions=asm,
                              goal=z_and(*[k.z == want for k in keys]),
                              detail='the key is the id:version specifier of the scanned lexicon', **common))
    return obs


def _atoms(t):
    out = []
    stack = [t]
    seen = set()
    while stack:
        x = stack.pop()
        if x.get_id() in seen:
            continue
        seen.add(x.get_id())
        if z3.is_app(x):
            if x.decl().kind() == z3.Z3_OP_UNINTERPRETED and x.num_args() > 0 and x.sort() == z3.BoolSort():
                out.append(x)
            stack.extend(x.children())
    return out


def history_lemma() -> list:
    """Abstract state: installed : Lex -> Bool, content : Row -> Bool, owner : Row -> Lex (fixed per row),
    ext : Lex x Lex (extension closure).  Operation contracts (proved above / in C01, C06):
       add(L)    : content' = content U image(L), installed' = installed U {L}, only if L not installed
       remove(L) : content' = content \\ {r | owner(r) in {L} U ext*(L)}, installed' = installed \\ ({L} U ext*(L))
    Invariant I: content = {r | installed(owner(r)) and r in image(owner(r))}.  I is inductive; hence after any
    finite history the content is a function of the installed set (the property)."""
    Lex = z3.DeclareSort('Lex')
    Row = z3.DeclareSort('Row')
    owner = z3.Function('owner', Row, Lex)
    image = z3.Function('image', Row, z3.BoolSort())      # r belongs to the image of its owner
    inst, inst2 = z3.Function('inst', Lex, z3.BoolSort()), z3.Function('inst2', Lex, z3.BoolSort())
    cont, cont2 = z3.Function('cont', Row, z3.BoolSort()), z3.Function('cont2', Row, z3.BoolSort())
    closure = z3.Function('in_closure', Lex, z3.BoolSort())  # L and its transitive extensions
    r = z3.Const('r', Row)
    l = z3.Const('l', Lex)
    L = z3.Const('L', Lex)

    def inv(c, i):
        return z3.ForAll([r], c(r) == z3.And(i(owner(r)), image(r)))
    obs = []
    # add(L): precondition not installed (skip rule), effect adds exactly image rows owned by L
    add_pre = [inv(cont, inst), z3.Not(inst(L)),
               z3.ForAll([l], inst2(l) == z3.Or(inst(l), l == L)),
               z3.ForAll([r], cont2(r) == z3.Or(cont(r), z3.And(owner(r) == L, image(r))))]
    obs.append(Obligation('history:lemma:add-preserves-invariant', PROP, 'lemma', add_pre, inv(cont2, inst2),
                          detail='add(L) preserves  content = union of images of installed lexicons',
                          functions=('wn._add._add_lexical_resource',)))
    rem_pre = [inv(cont, inst), closure(L),
               z3.ForAll([l], inst2(l) == z3.And(inst(l), z3.Not(closure(l)))),
               z3.ForAll([r], cont2(r) == z3.And(cont(r), z3.Not(closure(owner(r)))))]
    obs.append(Obligation('history:lemma:remove-preserves-invariant', PROP, 'lemma', rem_pre, inv(cont2, inst2),
                          detail='remove(L) preserves the invariant (cascade deletes exactly the rows owned by L and '
                                 'its extensions)', functions=('wn._add.remove',)))
    # consequence: two histories ending with the same installed set have the same content
    contB, instB = z3.Function('contB', Row, z3.BoolSort()), z3.Function('instB', Lex, z3.BoolSort())
    obs.append(Obligation('history:lemma:content-function-of-installed', PROP, 'lemma',
                          [inv(cont, inst), inv(contB, instB), z3.ForAll([l], inst(l) == instB(l))],
                          z3.ForAll([r], cont(r) == contB(r)),
                          detail='equal installed sets => equal content', functions=()))
    return obs


def extension_chain_bounded(sess: Session):
    from bounded import extension_chain as E
    cases, problems = E.sweep()
    for k, p_ in enumerate(problems[:3]):
        sess.violation_direct(f'wn.remove/extensions:bounded#{k}', p_[:1200], {'kind': 'extension-chain'}, True,
                              functions=('wn._add.remove', 'wn._queries.get_lexicon_extensions'))
    sess.add_bounded('wn.remove + Lexicon.extensions/extends on extension chains', 'base <- x1 <- x2 <- x3, base <- y1, '
                     'unrelated lexicon; every depth; each of 5 removals on a fresh database; residue scan of every '
                     'lexicon-owned column', cases, 'native execution', not problems)


def init_db_bounded(sess: Session):
    """connect() on a new database file: what _init_db writes (schema, the two ILI statuses every later insert of an
    ILI looks up) is committed when connect() returns - no transaction is left open that a later rollback (a failed
    first add) would take with it - and a second connect() to the existing file leaves none open either."""
    import shutil
    import sqlite3
    import tempfile
    import wn
    from wn import _db as wndb
    old = wn.config.data_directory
    tmp = tempfile.mkdtemp(prefix='wnverif_init_')
    bad = []
    try:
        wn.config.data_directory = tmp
        conn = wndb.connect()
        if conn.in_transaction:
            bad.append('connect() returns the new database with a transaction open')
        other = sqlite3.connect(str(wn.config.database_path))
        try:
            rows = [r[0] for r in other.execute('SELECT status FROM ili_statuses ORDER BY rowid')]
        finally:
            other.close()
        if rows != ['presupposed', 'proposed']:
            bad.append(f'a second connection sees ili_statuses = {rows} (expected the two committed rows)')
        conn.rollback()
        rows2 = [r[0] for r in conn.execute('SELECT status FROM ili_statuses ORDER BY rowid')]
        if rows2 != ['presupposed', 'proposed']:
            bad.append(f'after a rollback on the fresh connection ili_statuses = {rows2}')
        for c in list(wndb.pool.values()):
            c.close()
        wndb.pool.clear()
        conn2 = wndb.connect()
        if conn2.in_transaction:
            bad.append('connect() to the existing file returns with a transaction open')
    finally:
        for c in list(wndb.pool.values()):
            c.close()
        wndb.pool.clear()
        wn.config.data_directory = old
        shutil.rmtree(tmp, ignore_errors=True)
    sess.add_bounded('wn._db.connect / _init_db (initial rows committed)', 'one new database file, one re-connect', 2,
                     'native execution, second raw sqlite3 connection', not bad)
    if bad:
        sess.violation_direct('wn._db._init_db:committed', '; '.join(bad), {'witness': bad}, True,
                              functions=('wn._db._init_db', 'wn._db.connect'))


def run(sess: Session):
    init_db_bounded(sess)
    sess.assume('A-SQLITE', 'A-TXN', 'A-ENGINE')
    sess.trust('SQLite enforces declared foreign keys and ON DELETE actions when PRAGMA foreign_keys=ON',
               'vc/pyvc, vc/sqlvc')
    extension_chain_bounded(sess)
    schema = load_schema()
    for ob in ddl_obligations(schema):
        sess.check(ob)
    for ob in pragma_obligations():
        sess.check(ob)
    for part, fn in (('remove', lambda: remove_obligations(sess)),
                     ('contribution', lambda: contribution_obligations(sess)),
                     ('skip', skip_obligations), ('precheck', precheck_obligations),
                     ('history', history_lemma)):
        try:
            for ob in fn():
                sess.check(ob)
        except Unsupported as exc:
            sess.unsupported(f'C05:{part}', str(exc))
    # row images of _insert_lexicon (dependency links) and of every insert: shared with C01
    addchecks.run_row_images(sess, PROP)
