"""C04 - queries stay inside the selected lexicons and ignore unrelated ones.

Obligations (DESIGN §5 C04):
 1. scoping          every row of a lexicon-owned table that a query ranges over is owned by a member of the
                     lexicon_rowids argument                                                    (sqlvc, z3)
 2. non-interference 2-safety: two databases agreeing on the rows owned by the scope (and on shared rows
                     present in both) give the same result family                               (sqlvc, z3)
 3. call sites       every _core accessor passes the prescribed scope and propagates its Wordnet (pyvc flows,
                     contracts/coreflows.py)
"""
from __future__ import annotations

import z3

import wn._queries as Q
from vc.core import Obligation, Session, Unsupported
from vc.pyvc.symbols import sym, scalar_list
from vc.pyvc.dbmodel import World
from vc.sqlvc.schema import load_schema
from contracts.common import sym_args_for, fn_name, path_id
from contracts import sqlchecks

PROP = 'C04'

# (function, fixed arguments per variant, name of the scope argument)
# companions: aliases of rows that are only reached through a NOT NULL foreign key of an entity row and of
# which only identifying strings are projected (the entry and synset of a sense, the sense of a frame link);
# they need not be owned by the scope themselves, their stability is part of the 2-safety obligation.
SCOPED = [
    (Q.find_ilis, [{}], 'lexicon_rowids', ()),
    (Q.find_proposed_ilis, [{}], 'lexicon_rowids', ()),
    (Q.find_entries, [{}], 'lexicon_rowids', ()),
    (Q.find_senses, [{}], 'lexicon_rowids', ('e', 'ss')),
    (Q.find_synsets, [{}], 'lexicon_rowids', ()),
    (Q.get_synsets_for_ilis, [{}], 'lexicon_rowids', ()),
    (Q.get_synset_relations, [{}], 'lexicon_rowids', ()),
    (Q.get_sense_relations, [{}], 'lexicon_rowids', ('e', 'ss')),
    (Q.get_sense_synset_relations, [{}], 'lexicon_rowids', ()),
    (Q.get_definitions, [{}], 'lexicon_rowids', ()),
    (Q.get_examples, [{'table': 'senses'}, {'table': 'synsets'}], 'lexicon_rowids', ()),
    (Q.find_syntactic_behaviours, [{}], 'lexicon_rowids', ('s',)),
    (Q.get_syntactic_behaviours, [{}], 'lexicon_rowids', ()),
    (Q.get_entry_senses, [{}], 'lexicon_rowids', ('e', 'ss')),
    (Q.get_synset_members, [{}], 'lexicon_rowids', ('e', 'ss')),
    (Q.get_sense_counts, [{}], 'lexicon_rowids', ()),
]

# queries keyed by the rowid of an entity that the caller already holds (no scope argument): the 2-safety
# obligation is stated under the call-site precondition that this row is owned by the scope
ROW_KEYED = [
    (Q.get_form_pronunciations, [{}], ('form_rowid', 'forms')),
    (Q.get_form_tags, [{}], ('form_rowid', 'forms')),
    (Q.get_adjposition, [{}], ('rowid', 'senses')),
    (Q.get_lexfile, [{}], ('synset_rowid', 'synsets')),
    (Q.get_lexicalized, [{'table': 'senses'}, {'table': 'synsets'}], ('rowid', None)),
    (Q.get_metadata, [{'table': t} for t in Q._SANITIZED_METADATA_TABLES if t not in ('ilis',)], ('rowid', None)),
]

# known finding K1: rows of forms/tags/pronunciations contributed by an unselected extension
K1 = 'K1'


def finding_for(name: str, what: str):
    short = name.split('.')[-1]
    if short in ('find_entries', 'find_senses', 'find_synsets') and what in ('f', '_s', 'sub:forms',
                                                                              'noninterference'):
        return K1
    if short in ('get_form_tags', 'get_form_pronunciations') and what == 'noninterference':
        return K1
    return None


def run(sess: Session):
    schema = load_schema()
    sess.assume('A-SQLITE', 'A-ENGINE')
    sess.trust('SQLite statement semantics as encoded by vc/sqlvc (DESIGN §2.2)', 'z3 5.1',
               'CPython semantics as modelled by vc/pyvc/builtins_sym.py')
    n_paths = 0
    for fn, variants, scope_name, companions in SCOPED:
        for fixed in variants:
            args = sym_args_for(fn, fixed)
            scope = args[scope_name]
            world = World(schema)
            # claimed for calls that pass a non-empty scope (what every call site does, see coreflows)
            pre = [scope.length > 0]
            if 'id' in args and 'forms' in args:
                # call-site precondition (coreflows): never both an id and forms
                from vc.pyvc.values import truthy
                pre.append(z3.Not(z3.And(truthy(args['id']), args['forms'].length > 0)))
            try:
                outs = sqlchecks.explore_query(fn, args, world, pre=pre)
            except Unsupported as exc:
                sess.unsupported(f'{fn_name(fn)}:extract', str(exc), 'sql')
                continue
            for ev, err in world.bind_errors:
                sess.check(Obligation(f'{fn_name(fn)}:bind-map', PROP, 'sql', decided=False, detail=err,
                                      functions=(fn_name(fn),)))
            for o in outs:
                n_paths += 1
                if o.kind == 'raise':
                    continue
                for ob in sqlchecks.scoping_obligations(sess, fn, o, world, scope, PROP, (),
                                                        finding_for, companions, args, scope_name):
                    sess.check(ob)
            # 2-safety
            try:
                for ob in sqlchecks.noninterference_obligations(
                        sess, fn, args, scope, PROP, schema, finding_for=finding_for, pre=pre):
                    sess.check(ob)
            except Unsupported as exc:
                sess.unsupported(f'{fn_name(fn)}:noninterference', str(exc), 'sql')
    # row-keyed accessors: no scope argument; the row handed in is owned by the scope (call-site precondition)
    from vc.sqlvc.encode import seq_has
    for fn, variants, (rowarg, table) in ROW_KEYED:
        for fixed in variants:
            args = sym_args_for(fn, fixed)
            S = scalar_list('S', 'int')
            in_s = seq_has(S, 'int')
            tab = table or fixed['table']
            rid = args[rowarg]

            def row_in_scope(db, a, tab=tab, rid=rid, in_s=in_s):
                return [db.in_(tab)(rid.z), in_s(sqlchecks.owner_term(db, tab, rid.z))]
            try:
                for ob in sqlchecks.noninterference_obligations(
                        sess, fn, args, S, PROP, schema, finding_for=finding_for, row_in_scope=row_in_scope):
                    if fixed:
                        ob.name += ':' + ','.join(f'{k}={v}' for k, v in fixed.items())
                    sess.check(ob)
            except Unsupported as exc:
                sess.unsupported(f'{fn_name(fn)}:noninterference', str(exc), 'sql')
    sess.extra['paths_explored'] = n_paths
    from contracts import coreflows
    coreflows.run_scope_flows(sess, PROP)
    # the storage half of the argument: every row is stored under the lexicon that owns it (row images shared with
    # C01), and no library function answers from a fresh default Wordnet instead of the one it was given
    from contracts import addchecks, infra
    addchecks.run_row_images(sess, PROP)
    for ob in infra.scope_site_obligations(PROP):
        sess.check(ob)
    # S itself: the lexicon / lang arguments select what docs/guides/lexicons.rst says (find_lexicons, shared with C08)
    from contracts import C08 as _c08
    try:
        for ob in _c08.deductive_obligations():
            ob.prop = PROP
            sess.check(ob)
    except Unsupported as exc:
        sess.unsupported('wn._queries.find_lexicons', str(exc))
