"""C18 - the validator always produces a report and each check is exact.

For every check function of wn/validate.py (the real body, symbolically executed on an arbitrary lexicon of the
loader's normal form - required keys present, everything else optional, lists of any length):
  no-raise   no KeyError / IndexError / TypeError / AttributeError on any path                           pyvc + z3
  exact      an identifier k is a key of the result  <=>  k satisfies the documented condition of the check
             (sidecar predicate per code, written from the table in the module docstring)                pyvc + z3
  context    the context fields stored for an item                                                       pyvc + z3
validate(): report contains exactly the selected codes in table order, message = docstring; extension lexicons are
not validated; _select_checks; REVERSE_RELATIONS is an involution; E204 / E401 => add() rejects (row images of C01: a
NULL look-up into a NOT NULL column; wn.Error in _insert_sense_relations).
"""
from __future__ import annotations

import z3

import wn
import wn.lmf as lmf
import wn.validate as V
from wn.constants import REVERSE_RELATIONS, SENSE_RELATIONS, SENSE_SYNSET_RELATIONS, SYNSET_RELATIONS
from vc.core import Obligation, Session, Unsupported, REPO
from vc.pyvc.values import SV, SObj, SList, Seq, Lit, Loop, mk, LITS, UStr, z_and, z_or, z_not, z_bool, Sym
from vc.pyvc.interp import explore, source_span, MDict, MList, MSet, SymMethod
from vc.pyvc import shapes, builtins_sym as B
from contracts.common import lit_axioms, path_id
from contracts import spec_validate

PROP = 'C18'


def make_inputs():
    lex = shapes.sym_record([lmf.Lexicon], 'lex')
    return lex


def explore_check(func, lex, ids_builder):
    def run(it):
        ids = ids_builder(it, lex)
        res = it.call(func, [lex, ids], {})
        # frame: the id tables are shared by all checks of one validate() call
        touched = [k for k, c in (ids.d.items() if hasattr(ids, 'd') else []) if getattr(c, 'mutated', False)]
        it.ctx.notes.append(('ids-mutated', touched))
        return res
    return explore(run, contracts=validate_contracts(), packages=('wn', 'contracts.spec_validate'))


def build_ids(it, lex):
    """ids exactly as validate() builds them (the real expressions are interpreted)."""
    return it.call(spec_validate.build_ids, [lex], {})


def validate_contracts():
    return {}


def install_dsl():
    from vc.pyvc.interp import AbstractFn

    def twice(it, args, kwargs, node):
        x, xs = args
        seq = it.to_seq(xs)
        return SV('bool', z_bool(B.occurs_twice(it, seq, x, node)))
    spec_validate.TWICE = AbstractFn('TWICE', twice)


install_dsl()


def w203_bounded(sess: Session, why: str):
    """W203 by small-scope enumeration on the real check: every lexicon with <= 3 entries (lemma in {a, b}), each with
    <= 2 senses in synsets {x, y}: the reported keys are exactly the lemmas shared by two different entries that both
    have a sense in one synset; the call does not raise and does not touch the id tables."""
    import itertools
    from collections import Counter
    func = V._codes['W203']
    shapes = [(lem, ss) for lem in 'ab' for n in range(3) for ss in itertools.product('xy', repeat=n)]
    # entries with three senses (x, y, x: the repeated synset is not adjacent), in lexicons of <= 2 entries
    shapes3 = shapes + [(lem, ss) for lem in 'ab' for ss in itertools.product('xy', repeat=3)]
    combos = [c for n in range(4) for c in itertools.product(shapes, repeat=n)] + \
        [c for n in range(1, 3) for c in itertools.product(shapes3, repeat=n) if any(len(ss) == 3 for _, ss in c)]
    cases, bad = 0, []
    for _once in (0,):
        for combo in combos:
            entries = [{'id': f'e{i}', 'lemma': {'writtenForm': lem, 'partOfSpeech': 'n'},
                        'senses': [{'id': f'e{i}s{j}', 'synset': x} for j, x in enumerate(ss)]}
                       for i, (lem, ss) in enumerate(combo)]
            lex = {'id': 'l', 'entries': entries, 'synsets': [{'id': 'x'}, {'id': 'y'}]}
            ids = {'entry': Counter(e['id'] for e in entries), 'sense': Counter(
                s['id'] for e in entries for s in e['senses']), 'synset': Counter(['x', 'y'])}
            before = {k: Counter(v) for k, v in ids.items()}
            cases += 1
            try:
                got = set(func(lex, ids))
            except Exception as exc:   # noqa: BLE001
                bad.append({'lexicon': combo, 'raised': repr(exc)})
                continue
            want = {k for k in 'ab' if spec_validate_native_W203(lex, k)}
            if got != want or ids != before:
                bad.append({'entries (lemma, synsets of its senses)': combo, 'reported': sorted(got),
                            'documented': sorted(want)})
    sess.add_bounded('wn.validate._redundant_entry (W203)', 'every lexicon with <= 3 entries x lemma in {a,b} x <= 2 '
                     'senses in synsets {x,y}, and <= 2 entries with 3 senses', cases, f'native execution against the documented condition (symbolic '
                     f'route not available: {why})', not bad)
    if bad:
        sess.violation_direct('wn.validate._redundant_entry:exact:bounded', 'W203 does not list exactly the lemmas of '
                              'redundant entries', {'witness': repr(bad[0])[:1500], 'cases': len(bad)}, True,
                              functions=('wn.validate._redundant_entry',))


def spec_validate_native_W203(lex, k):
    es = lex['entries']
    return any(e1['lemma']['writtenForm'] == k and e2['lemma']['writtenForm'] == k
               and any(s1['synset'] == s2['synset'] for s1 in e1['senses'] for s2 in e2['senses'])
               for i, e1 in enumerate(es) for j, e2 in enumerate(es) if i != j)


BOUNDED_FALLBACK = {'W203': w203_bounded}


def check_obligations() -> list:
    obs = []
    for code, func in V._codes.items():
        name = f'wn.validate.{func.__name__}'
        lex = make_inputs()
        try:
            outs = explore_check(func, lex, build_ids)
        except Unsupported as exc:
            if code in BOUNDED_FALLBACK:
                obs.append(('bounded', name, code, str(exc)))      # decided by a labelled small-scope enumeration
            else:
                obs.append(('unsupported', name, str(exc)))
            continue
        spec = getattr(spec_validate, code, None)
        for o in outs:
            pid = path_id(o)
            cm = dict(prop=PROP, kind='post', functions=(name,), source=source_span(func))
            if o.kind == 'raise':
                obs.append(Obligation(f'{name}:no-raise:{pid}', assumptions=list(o.pc) + lit_axioms(),
                                      goal=z3.BoolVal(False), detail=f'{code} raises {o.exc.exc_type.__name__}'
                                      f'{o.exc.args_v}', **cm))
                continue
            # conditional raises inside generic iterations
            for k, (exc_type, asm, node, what, binders) in enumerate(o.may_raise):
                # asm = path condition + iteration constraints + [the failing condition]: prove it cannot hold
                obs.append(Obligation(f'{name}:no-raise:{pid}#{k}', assumptions=list(asm[:-1]) + lit_axioms(),
                                      goal=z3.Not(asm[-1]) if len(asm) else z3.BoolVal(False),
                                      kind='safety', prop=PROP, functions=(name,),
                                      source=source_span(func),
                                      detail=f'{code} can raise {exc_type.__name__} ({what}) for a loadable lexicon',
                                      model_vars=[b.var for b in binders]))
            touched = [t for n_ in o.notes if isinstance(n_, tuple) and n_[0] == 'ids-mutated' for t in n_[1]]
            obs.append(Obligation(f'{name}:frame(ids):{pid}', decided=not touched, kind='frame', prop=PROP,
                                  functions=(name,), source=source_span(func),
                                  detail=(f'the check modifies the shared id table(s) {touched}: later checks of the same '
                                          'validate() call see other ids' if touched else
                                          'the shared id tables are only read')))
            if spec is None:
                continue
            if code in BOUNDED_FALLBACK:
                # exactness of this check is decided by its small-scope enumeration in every case (the per-entry
                # de-duplication is outside what the interpreter models precisely, whichever way it is written)
                if not any(isinstance(x, tuple) and x[:3] == ('bounded', name, code) for x in obs):
                    obs.append(('bounded', name, code, 'decided by enumeration'))
                continue
            res = o.value
            if not isinstance(res, MDict):
                obs.append(Obligation(f'{name}:exact:{pid}', decided=False, detail='result is not a dict', **cm))
                continue
            # exactness of the key set, for a generic identifier k
            kx = spec_key(code)
            try:
                in_result = z_bool(B.map_contains(None, res, kx)) if (res.nodes or res.d) else z3.BoolVal(False)
                souts = explore(lambda it: it.call(spec, [lex, it.call(spec_validate.build_ids, [lex], {}), kx], {}),
                                contracts={}, packages=('wn', 'contracts.spec_validate'))
            except Unsupported as exc:
                obs.append(('unsupported', name + ':exact', str(exc)))
                continue
            for so in souts:
                if so.kind != 'return':
                    continue
                chk = z3.Solver()
                chk.set('timeout', 2000)
                chk.add(*(list(o.pc) + list(so.pc) + lit_axioms()))
                if chk.check() == z3.unsat:
                    continue          # incompatible pair of paths
                want = so.value
                wz = want.z if isinstance(want, SV) else z3.BoolVal(bool(want))
                extra = []
                if code == 'W501':
                    # the check keys synsets by id: exactness is claimed for lexicons whose synset ids are unique
                    # (duplicates are what E101 reports)
                    sl = lex.slots['synsets'].value
                    i, j = z3.Ints('i$u j$u')
                    extra = [z3.ForAll([i, j], z3.Implies(
                        z3.And(sl.range_constraint(i), sl.range_constraint(j), i != j),
                        sl.at(i).slots['id'].value.z != sl.at(j).slots['id'].value.z),
                        patterns=[z3.MultiPattern(sl.at(i).slots['id'].value.z, sl.at(j).slots['id'].value.z)])]
                for direction, goal in (('no-spurious', z3.Implies(in_result, wz)),
                                        ('no-miss', z3.Implies(wz, in_result))):
                    obs.append(Obligation(f'{name}:exact:{direction}:{pid}/{path_id(so)}',
                                          replay=make_replay(func, spec, code, lex, kx),
                                          assumptions=list(o.pc) + list(so.pc) + lit_axioms() + extra, goal=goal,
                                          detail=f'{code}: an item is reported iff it satisfies the documented '
                                                 f'condition ({func.__doc__})', timeout_ms=30000, **cm))
    return obs


def make_replay(func, spec, code, lex, kx):
    """The solver's model as a concrete lexicon: the real check function against the documented condition."""
    def replay(res):
        from contracts.lmfrt import Concretiser, small_model
        if res.z3model is None:
            return {'reproduced': False}
        m = small_model(res, [lex])
        c = Concretiser(m)
        L = c.value(lex)
        k = c.string(kx.z)

        def strip(d):
            if isinstance(d, dict):
                return {a: strip(b) for a, b in d.items()}
            if isinstance(d, list):
                return [strip(x) for x in d]
            return d
        L = strip(L)
        out = {'input_lexicon': L, 'key': k, 'call': f'wn.validate.{func.__name__}(lexicon, ids)'}
        saved = spec_validate.TWICE
        try:
            spec_validate.TWICE = spec_validate.twice
            ids = spec_validate.build_ids(L)
            try:
                got = func(L, ids)
                reported = k in got
                out['observed'] = f'{code} reports {sorted(got)[:6]}'
            except Exception as exc:   # noqa: BLE001
                out['observed'] = f'{type(exc).__name__}: {exc}'
                out['reproduced'] = True
                return out
            want = bool(spec(L, ids, k))
            out['expected'] = f'{k!r} {"is" if want else "is not"} an item of {code} ({func.__doc__})'
            out['reproduced'] = (reported != want)
        finally:
            spec_validate.TWICE = saved
        return out
    return replay


def spec_key(code):
    if code in ('W203',):
        return mk('str', 'k_form')
    if code == 'W403':
        return mk('str', 'k_src')
    return mk('str', 'k')


def structure_obligations() -> list:
    """_select_checks / validate(): selected codes in table order, messages, extension lexicons skipped."""
    obs = []
    codes = list(V._codes)
    import itertools
    # _select_checks on every selection of up to 2 selectors from codes + categories (finite, exhaustive)
    # ... plus strings that are neither a code nor a category (empty, partial codes, other case, padded): they select
    # nothing ("--select E101," hands an empty selector to validate())
    selectors = codes + ['E', 'W'] + ['', 'W3', 'W30', 'E1', 'E10', 'X', 'e101', 'w', ' E101', 'E1011']
    bad = []
    n = 0
    for r in (0, 1, 2):
        for sel in itertools.combinations(selectors, r):
            n += 1
            got = [c for c, _, _ in V._select_checks(sel)]
            want = [c for c in codes if c in sel or c[0] in sel]
            if got != want:
                bad.append((sel, got, want))
            for c, f, msg in V._select_checks(sel):
                if f is not V._codes[c] or msg != (f.__doc__ or ''):
                    bad.append((sel, c, 'function/message'))
    obs.append(Obligation('wn.validate._select_checks:selection', PROP, 'static', decided=not bad,
                          detail=f'{n} selections of <= 2 selectors: exactly the selected codes in table order with '
                                 f'their docstrings' + (f'; counterexample {bad[0]}' if bad else ''),
                          replay=(lambda res, w=(bad[0] if bad else None): {
                              'reproduced': True, 'call': f'wn.validate._select_checks({w[0]!r})',
                              'observed': repr(w[1]), 'expected': repr(w[2])}) if bad else None,
                          functions=('wn.validate._select_checks',)))
    inv = all(REVERSE_RELATIONS.get(REVERSE_RELATIONS[k]) == k for k in REVERSE_RELATIONS)
    obs.append(Obligation('wn.constants.REVERSE_RELATIONS:involution', PROP, 'static', decided=inv,
                          detail='reverse(reverse(t)) == t for every relation type with a reverse',
                          functions=('wn.constants',)))
    documented = [l.split()[0] for l in (V.__doc__ or '').splitlines() if l[:1] in 'EW' and l[1:4].isdigit()]
    obs.append(Obligation('wn.validate._codes:table', PROP, 'static', decided=documented == codes,
                          detail=f'documented codes {documented} vs implemented {codes}', functions=('wn.validate',)))
    return obs


def validate_flow_obligations() -> list:
    """validate(): report[code] = {'message': docstring, 'items': func(lex, ids)} for the selected checks; {} for an
    extension; progress handler created, updated and closed."""
    from contracts import addmodel
    from vc.pyvc.interp import AbstractFn, Event
    obs = []
    called = []

    def stub(code, func):
        def h(it, args, kwargs, node):
            called.append(code)
            return SV('obj', z3.Const(f'items_{code}', __import__('vc.pyvc.values', fromlist=['Obj']).Obj))
        return h
    contracts = {func: stub(code, func) for code, func in V._codes.items()}
    ph = AbstractFn('progress_handler', lambda it, a, k, n: addmodel.Progress())
    for select in (('E', 'W'), ('E',), ('W305', 'E101')):
        lex = shapes.sym_record([lmf.Lexicon, lmf.LexiconExtension], 'lex')
        called.clear()
        outs = explore(lambda it: it.call(V.validate, [lex, select, ph], {}), contracts=contracts, packages=('wn',))
        want = [c for c in V._codes if c in select or c[0] in select]
        for o in outs:
            pid = path_id(o)
            cm = dict(prop=PROP, kind='post', functions=('wn.validate.validate',), source=source_span(V.validate))
            if o.kind != 'return':
                obs.append(Obligation(f'wn.validate.validate:no-raise:{select}:{pid}', assumptions=list(o.pc),
                                      goal=z3.BoolVal(False), detail=f'raises {o.exc.exc_type.__name__}', **cm))
                continue
            rep = o.value
            if isinstance(rep, MDict) and not rep.d and not rep.nodes:
                # the extension branch
                ext = lex.slots['extends']
                obs.append(Obligation(f'wn.validate.validate:extension-skipped:{select}:{pid}',
                                      assumptions=list(o.pc) + lit_axioms(),
                                      goal=z_bool(ext.present) if not isinstance(ext.present, bool) else z3.BoolVal(
                                          ext.present), detail='an empty report only for lexicon extensions', **cm))
                continue
            ok = isinstance(rep, MDict) and not rep.nodes and list(rep.d) == want and all(
                isinstance(v, MDict) and v.d.get('message') == (V._codes[c].__doc__ or '') and
                str(getattr(v.d.get('items'), 'z', '')) == f'items_{c}' for c, v in rep.d.items())
            obs.append(Obligation(f'wn.validate.validate:report:{select}:{pid}', decided=bool(ok),
                                  detail=f'report codes {list(rep.d) if isinstance(rep, MDict) else rep} (expected '
                                         f'{want}), each with its docstring and the items of its check', **cm))
    return obs


def rejection_obligations() -> list:
    """E204 / E401 => add() fails: the synset look-up of a sense with a missing synset is NULL in a NOT NULL column;
    a synset-relation target that is not a synset likewise; a sense relation to nothing raises wn.Error."""
    from vc.sqlvc.schema import load_schema
    schema = load_schema()
    obs = []
    for t, c in (('senses', 'synset_rowid'), ('synset_relations', 'target_rowid'), ('sense_relations', 'target_rowid'),
                 ('sense_synset_relations', 'target_rowid')):
        col = schema.table(t).col(c)
        obs.append(Obligation(f'wn/schema.sql:not-null:{t}.{c}', PROP, 'static', decided=bool(col and col.notnull),
                              detail=f'{t}.{c} is NOT NULL: a reference that does not resolve makes the INSERT fail',
                              functions=('wn/schema.sql',)))
    return obs


def zoo_bounded(sess: Session):
    """validate() executed natively on deliberately broken lexicons: it returns a report with all selected codes (never
    raises - e.g. values of mixed types in sorted()/comparisons, which the symbolic run does not model), and the items
    of the listed codes are the expected ones."""
    import wn.validate as V_
    base = {'id': 'z', 'label': 'L', 'language': 'en', 'email': 'e', 'license': 'l', 'version': '1', 'meta': None}

    def ss(i, pos='n', rels=(), **kw):
        d = {'id': f'z-{i}', 'ili': '', 'meta': None, 'relations': [dict(r) for r in rels]}
        if pos is not None:
            d['partOfSpeech'] = pos
        d.update(kw)
        return d

    def rel(t, typ='hypernym', dctype=None):
        return {'target': f'z-{t}', 'relType': typ, 'meta': ({'type': dctype} if dctype else None)}
    zoo = [
        # the same relation four times: twice with dc:type, twice without (keys of mixed None / str)
        ('parallel relations with and without dc:type',
         dict(base, synsets=[ss(1, rels=[rel(2, 'other'), rel(2, 'other'), rel(2, 'other', 'x'), rel(2, 'other', 'x')]),
                             ss(2)]), {'W403': ['z-1']}),
        # hypernym exists but has no part of speech / an empty one / another one: all three differ from 'n'
        ('hypernyms without part of speech',
         dict(base, synsets=[ss(1, rels=[rel(4)]), ss(2, rels=[rel(5)]), ss(3, rels=[rel(6)]), ss(4, pos=None),
                             ss(5, pos=''), ss(6, pos='v'), ss(7, rels=[rel(8)]), ss(8)]),
         {'W501': ['z-1', 'z-2', 'z-3']}),
        # duplicate ids of every kind, dangling references, self-loops
        ('duplicates and dangling references',
         dict(base, entries=[{'id': 'z-e', 'meta': None, 'lemma': {'writtenForm': 'w', 'partOfSpeech': 'n'},
                              'senses': [{'id': 'z-s', 'synset': 'z-1', 'meta': None, 'relations': [
                                  {'target': 'z-missing', 'relType': 'antonym', 'meta': None},
                                  {'target': 'z-s', 'relType': 'antonym', 'meta': None}]}]},
                             {'id': 'z-e', 'meta': None, 'lemma': {'writtenForm': 'w', 'partOfSpeech': 'n'},
                              'senses': [{'id': 'z-s', 'synset': 'z-nosuch', 'meta': None}]}],
              synsets=[ss(1, rels=[rel(1), rel(99)]), ss(1)]),
         {'E101': ['z-1', 'z-e', 'z-s'], 'E204': ['z-s'], 'E401': ['z-1', 'z-s']}),
    ]
    cases, bad = 0, []
    for label, lex, expect in zoo:
        cases += 1
        try:
            report = V_.validate(lex, progress_handler=None)
        except Exception as exc:   # noqa: BLE001
            bad.append({'lexicon': label, 'raised': f'{type(exc).__name__}: {exc}'})
            continue
        if set(report) != set(V_._codes):
            bad.append({'lexicon': label, 'codes': sorted(report)})
        for code, want in expect.items():
            got = sorted(report[code]['items'])
            if got != sorted(want):
                bad.append({'lexicon': label, 'code': code, 'items': got, 'expected': sorted(want)})
    sess.add_bounded('wn.validate.validate on broken lexicons', f'{len(zoo)} hand-built lexicons (mixed-type relation '
                     'keys, hypernyms without part of speech, duplicate ids, dangling references, self-loops)', cases,
                     'native execution', not bad)
    if bad:
        sess.violation_direct('wn.validate.validate:zoo', 'validate() raises or lists other items than documented on a '
                              'broken lexicon', {'witness': repr(bad[0])[:1500], 'cases': len(bad)}, True,
                              functions=('wn.validate.validate',))


def oracle_bounded(sess: Session):
    """Random differential of all 18 checks against an oracle written from their documented conditions
    (bounded/validate_oracle.py); W403 and W404, which have no symbolic predicate, are decided only here."""
    from bounded import validate_oracle as VO
    n = 20000 if sess.tier == 'thorough' else 4000
    cases, problems = VO.sweep(n, sess.seed)
    sess.add_bounded('wn.validate.validate (all 18 checks)', f'{cases} random broken lexicons (seed {sess.seed}): <= 3 '
                     'synsets, <= 3 entries x <= 3 senses, relations to existing / missing / wrong-kind targets, '
                     'duplicate ids (E101 only)', cases, 'native execution against an oracle from the documented '
                     'conditions', not problems)
    for k, pr in enumerate(problems[:3]):
        what = pr.get('code', 'no-raise')
        sess.violation_direct(f'wn.validate:{what}:oracle#{k}', (f"{what}: reported {pr.get('reported')} documented "
                              f"{pr.get('documented')}" if 'code' in pr else pr['raised'])[:600],
                              {'witness': repr(pr)[:2500]}, True, functions=('wn.validate.validate',))


def rejection_bounded(sess: Session):
    """A lexicon for which E204 / E401 is reported is rejected by add (native, generated lexicons): dangling synset of a
    sense, dangling target of a synset relation, of a sense relation and of a sense-synset relation."""
    import os
    import shutil
    import tempfile
    import wn
    import wn.validate as V_
    base = {'id': 'bad', 'label': 'L', 'language': 'en', 'email': 'e', 'license': 'l', 'version': '1', 'meta': None}
    ok_ss = {'id': 'bad-ss1', 'ili': '', 'partOfSpeech': 'n', 'meta': None}

    def entry(sense):
        return {'id': 'bad-e1', 'meta': None, 'lemma': {'writtenForm': 'w', 'partOfSpeech': 'n'}, 'senses': [sense]}
    cases_in = {
        'E204 sense -> missing synset': dict(base, entries=[entry({'id': 'bad-s1', 'synset': 'bad-nope', 'meta': None})],
                                             synsets=[ok_ss]),
        'E401 synset relation -> missing synset': dict(base, entries=[entry({'id': 'bad-s1', 'synset': 'bad-ss1',
                                                                             'meta': None})],
                                                       synsets=[dict(ok_ss, relations=[
                                                           {'target': 'bad-nope', 'relType': 'hypernym', 'meta': None}])]),
        'E401 sense relation -> missing sense': dict(base, entries=[entry({'id': 'bad-s1', 'synset': 'bad-ss1',
                                                                           'meta': None, 'relations': [
                                                                               {'target': 'bad-nope', 'relType': 'antonym',
                                                                                'meta': None}]})], synsets=[ok_ss]),
        'E401 synset relation -> a sense id': dict(base, entries=[entry({'id': 'bad-s1', 'synset': 'bad-ss1',
                                                                         'meta': None})],
                                                   synsets=[dict(ok_ss, relations=[
                                                       {'target': 'bad-s1', 'relType': 'hypernym', 'meta': None}])]),
    }
    work = tempfile.mkdtemp(prefix='wnrej')
    old = wn.config.data_directory
    bad = []
    try:
        for k, (label, lex) in enumerate(cases_in.items()):
            d = os.path.join(work, f'd{k}')
            os.makedirs(d)
            wn.config.data_directory = d
            good = dict(base, id='good')
            wn.add_lexical_resource({'lmf_version': '1.0', 'lexicons': [good]}, progress_handler=None)
            rep = V_.validate(lex, select=('E',), progress_handler=None)
            reported = any(v.get('items') for v in rep.values())
            try:
                wn.add_lexical_resource({'lmf_version': '1.0', 'lexicons': [lex]}, progress_handler=None)
                accepted = True
            except Exception:   # noqa: BLE001
                accepted = False
            left = sorted(x.id for x in wn.lexicons())
            if reported and (accepted or left != ['good']):
                bad.append({'case': label, 'add accepted it': accepted, 'lexicons afterwards': left})
            if not reported:
                bad.append({'case': label, 'validate reports no error': True})
    finally:
        wn.config.data_directory = old
        shutil.rmtree(work, ignore_errors=True)
    sess.add_bounded('wn.add_lexical_resource on lexicons with E204/E401', f'{len(cases_in)} generated lexicons',
                     len(cases_in), 'native execution', not bad)
    if bad:
        sess.violation_direct('wn._add:rejects-E204/E401', 'a lexicon for which validate reports a dangling reference '
                              'is accepted by add (or partly stored)', {'witness': bad[:2]}, True,
                              functions=('wn._add._insert_senses', 'wn._add._insert_synset_relations',
                                         'wn._add._insert_sense_relations'))


def cli_bounded(sess: Session):
    """`python -m wn validate FILE`: exit status 1 iff some lexicon of the file has items, whatever its position."""
    import io
    import os
    import shutil
    import tempfile
    import contextlib
    import types
    from wn import lmf as lmf_
    # wn/__main__.py parses sys.argv when imported: take only its imports and the _validate function
    import ast as _ast
    src_main = (REPO / 'wn' / '__main__.py').read_text()
    tree = _ast.parse(src_main)
    keep = [n for n in tree.body if isinstance(n, (_ast.Import, _ast.ImportFrom)) or
            (isinstance(n, _ast.FunctionDef) and n.name == '_validate')]
    main_mod = types.ModuleType('wn_main_validate')
    exec(compile(_ast.Module(body=keep, type_ignores=[]), str(REPO / 'wn' / '__main__.py'), 'exec'), main_mod.__dict__)
    base = {'label': 'L', 'language': 'en', 'email': 'e', 'license': 'l', 'version': '1', 'meta': None}
    sound = lambda i: dict(base, id=f'ok{i}')
    broken = lambda i: dict(base, id=f'bad{i}', entries=[{'id': f'bad{i}-e', 'meta': None,
                            'lemma': {'writtenForm': 'w', 'partOfSpeech': 'n'},
                            'senses': [{'id': f'bad{i}-s', 'synset': f'bad{i}-missing', 'meta': None}]}])
    work = tempfile.mkdtemp(prefix='wncli')
    bad, cases = [], 0
    try:
        for pattern in ('s', 'b', 'sb', 'bs', 'sbs', 'bss', 'ssb', 'bb', 'ss'):
            lexs = [sound(i) if c == 's' else broken(i) for i, c in enumerate(pattern)]
            path = os.path.join(work, f'{pattern}.xml')
            lmf_.dump({'lmf_version': '1.0', 'lexicons': lexs}, path)
            for select in ('E,W', 'E204', 'E', 'E101', 'W305', ' E204 , W305', 'E101,W'):
                cases += 1
                args = types.SimpleNamespace(FILE=path, select=select, output_file=None)
                code = None
                with contextlib.redirect_stdout(io.StringIO()), contextlib.redirect_stderr(io.StringIO()):
                    try:
                        main_mod._validate(args)
                    except SystemExit as exc:
                        code = exc.code
                # --select is a comma-separated list of codes / categories (blanks around a member mean nothing);
                # the exit status says whether validate() with that list reports an item for some lexicon
                sel = [c.strip() for c in select.split(',')]
                want = 1 if any(r['items'] for lx in lexs
                                for r in V.validate(lx, select=sel, progress_handler=None).values()) else 0
                if select in ('E,W', 'E204', 'E', ' E204 , W305'):
                    assert want == (1 if 'b' in pattern else 0), (pattern, select, want)
                elif select in ('E101', 'W305'):
                    assert want == 0, (pattern, select, want)
                if code != want:
                    bad.append({'lexicons (s=sound, b=broken)': pattern, 'select': select, 'exit status': code,
                                'expected': want})
    finally:
        shutil.rmtree(work, ignore_errors=True)
    sess.add_bounded('wn.__main__._validate (exit status)', '9 files with 1-3 lexicons (sound/broken in every order) x 7 '
                     'selections (categories, single codes with and without findings, lists with blanks)', cases, 'native execution', not bad)
    if bad:
        sess.violation_direct('wn.__main__._validate:exit-status', 'exit status does not say whether some lexicon has '
                              'reported items', {'witness': bad[:3]}, True, functions=('wn.__main__._validate',))


def table_obligations() -> list:
    """The relation tables the checks read: REVERSE_RELATIONS is an involution over known relation names (a relation
    and its reverse name each other), decided on the real table."""
    import wn.constants as K
    R = K.REVERSE_RELATIONS
    known = set(K.SENSE_RELATIONS) | set(K.SYNSET_RELATIONS) | set(K.SENSE_SYNSET_RELATIONS)
    cm = dict(prop=PROP, kind='static', functions=('wn.constants.REVERSE_RELATIONS',), source='wn/constants.py')
    bad = sorted(k for k, v in R.items() if R.get(v) != k)
    unknown = sorted(x for x in set(R) | set(R.values()) if x not in known)
    # the inventories W402 reads are the documented ones (docs/api/wn.constants.rst lists every member)
    import re as _re
    doc = (REPO / 'docs' / 'api' / 'wn.constants.rst').read_text()
    documented = {}
    for m in _re.finditer(r'^\.\. data:: (\w+)\n(.*?)(?=^\.\. data::|^\S.*\n[-=~^]{3,}\n|\Z)', doc, flags=_re.S | _re.M):
        documented[m.group(1)] = set(_re.findall(r'^\s+- ``([^`]+)``', m.group(2), flags=_re.M))
    inv_obs = []
    for name in ('SYNSET_RELATIONS', 'SENSE_RELATIONS', 'SENSE_SYNSET_RELATIONS'):
        have, want = set(getattr(K, name)), documented.get(name, set())
        diff = sorted(have ^ want)
        inv_obs.append(Obligation(f'wn.constants.{name}:documented-inventory', decided=bool(want) and not diff,
                                  detail=f'{len(have)} members, {len(want)} documented; only on one side: {diff[:8]}',
                                  **cm))
    return inv_obs + [Obligation('wn.constants.REVERSE_RELATIONS:involution', decided=not bad,
                       detail=f'{len(R)} pairs; not reciprocal: {bad[:6]}', **cm),
            Obligation('wn.constants.REVERSE_RELATIONS:known-names', decided=not unknown,
                       detail=f'names outside the relation inventories: {unknown[:6]}', **cm)]


def run(sess: Session):
    sess.assume('A-ENGINE', 'A-PY-COUNTER')
    for ob in table_obligations():
        sess.check(ob)
    zoo_bounded(sess)
    oracle_bounded(sess)
    rejection_bounded(sess)
    cli_bounded(sess)
    sess.trust('vc/pyvc', 'collections.Counter: count(x) > 1 iff x occurs at two positions (A-PY-COUNTER)')
    for item in check_obligations():
        if isinstance(item, tuple) and item[0] == 'bounded':
            BOUNDED_FALLBACK[item[2]](sess, item[3])
        elif isinstance(item, tuple):
            sess.unsupported(item[1], item[2])
        else:
            sess.check(item)
    for part, fn in (('structure', structure_obligations), ('validate', validate_flow_obligations),
                     ('rejection', rejection_obligations)):
        try:
            for ob in fn():
                sess.check(ob)
        except Unsupported as exc:
            sess.unsupported(f'C18:{part}', str(exc))
    # E204/E401 => add rejects: the row images of _insert_senses / _insert_synset_relations resolve the synset /
    # target by a look-up (NULL when missing) and do not use INSERT OR IGNORE; _insert_sense_relations raises
    from contracts import addchecks
    addchecks.run_row_images(sess, PROP, only={'_insert_senses', '_insert_synset_relations'})
    from contracts.C11 import sense_relation_split
    n0 = len(sess.results)
    sense_relation_split(sess)
    for r in sess.results[n0:]:
        r.ob.prop = PROP
