"""Sidecar specifications of the result of each query function of wn/_queries.py as a family over the tables of
wn/schema.sql, written from the meaning of the schema (foreign keys = "belongs to") and the property statements
(C01, C09, C10, C11) - independent of the SQL text.

spec_<fn>(db, a) -> Fam(binders=[Row...], guard, proj, order, distinct)     (a = the symbolic call arguments)

The check (contracts/querychecks.py) proves, per argument shape (= path of the real function):
  soundness     every row the real SELECT produces is a row of the specified family
  completeness  every row of the specified family is produced (witnesses for the joined tables are found by
                following foreign keys of the specification's rows)
  no-duplicates the joined rows are determined by the specification's rows
  order         same ORDER BY keys (or both unordered)
"""
from __future__ import annotations

from dataclasses import dataclass, field
from typing import Any

import z3

from vc.pyvc.values import SV, SList, LITS, lift, truthy, z_and, z_or, z_not, z_bool, fresh_name
from vc.sqlvc.encode import DB, seq_has


class Row:
    def __init__(self, db: DB, table: str, name: str = None, term=None):
        self.db = db
        self.table = table
        self.var = term if term is not None else z3.Int(fresh_name(f'spec_{name or table}'))
        self.is_binder = term is None

    def __getattr__(self, col):
        if col.startswith('_'):
            raise AttributeError(col)
        return self.db.value(self.table, col, self.var)

    @property
    def rowid(self):
        return SV('int', self.var)

    @property
    def present(self):
        return self.db.in_(self.table)(self.var)

    def ref(self, col: str) -> 'Row':
        """Row referenced by foreign key column `col`."""
        fk = [f for f in self.db.schema.table(self.table).fks if f.column == col][0]
        v = self.db.value(self.table, col, self.var)
        r = Row(self.db, fk.ref_table, term=v.z)
        r.null = v.none
        return r


@dataclass
class Fam:
    binders: list
    guard: Any
    proj: tuple
    order: list = field(default_factory=list)     # list of (SV, 'ASC'|'DESC'); empty = unspecified order
    distinct: bool = False


def eq(a, b):
    """SQL equality (NULL never equal)."""
    a = lift(a) if not isinstance(a, SV) else a
    b = lift(b, a.kind) if not isinstance(b, SV) else b
    core = a.z == b.z
    for x in (a, b):
        if x.none is not None:
            core = z3.And(z3.Not(x.none), core)
    return core


def member(x: SV, seq: SList):
    core = seq_has(seq, x.kind)(x.z)
    return z3.And(z3.Not(x.none), core) if x.none is not None else core


def given(v):
    """Python truthiness of an optional scalar argument."""
    return z_bool(truthy(v))


def nonempty(seq: SList):
    return seq.length > 0


def opt(cond, then):
    return z3.Implies(cond, then)


def scope(col: SV, a, name='lexicon_rowids'):
    s = a[name]
    return opt(nonempty(s), member(col, s))


def ili_id(db, ss: Row) -> SV:
    i = ss.ref('ili_rowid')
    v = db.value('ilis', 'id', i.var)
    none = z_or(i.null if i.null is not None else False, z_not(db.in_('ilis')(i.var)))
    return SV('str', v.z, z3.simplify(z_bool(none)))


# ---- senses ----------------------------------------------------------------------------------------------

def _sense_proj(db, s: Row):
    return (s.id, s.ref('entry_rowid').id, s.ref('synset_rowid').id, s.lexicon_rowid, s.rowid)


def spec_get_entry_senses(db, a):
    s = Row(db, 'senses', 's')
    return Fam([s], z_and(eq(s.entry_rowid, a['rowid']), member(s.lexicon_rowid, a['lexicon_rowids'])),
               _sense_proj(db, s), order=[(s.entry_rank, 'ASC')])


def spec_get_synset_members(db, a):
    s = Row(db, 'senses', 's')
    return Fam([s], z_and(eq(s.synset_rowid, a['rowid']), member(s.lexicon_rowid, a['lexicon_rowids'])),
               _sense_proj(db, s), order=[(s.synset_rank, 'ASC')])


def form_match(db, f: Row, a):
    return z_and(z_or(member(f.form, a['forms']),
                      z_and(z_bool(truthy(a['normalized'])), member(f.normalized_form, a['forms']))),
                 z_or(z_bool(truthy(a['search_all_forms'])), eq(f.rank, 0)))


def has_matching_form(db, entry_rowid: SV, a):
    f = Row(db, 'forms', 'f')
    return z3.Exists([f.var], z_and(f.present, eq(f.entry_rowid, entry_rowid), form_match(db, f, a)))


def spec_find_senses(db, a):
    s = Row(db, 'senses', 's')
    e = s.ref('entry_rowid')
    g = z_and(opt(given(a['id']), eq(s.id, a['id'])),
              opt(nonempty(a['forms']), has_matching_form(db, s.entry_rowid, a)),
              opt(given(a['pos']), eq(e.pos, a['pos'])),
              scope(s.lexicon_rowid, a))
    return Fam([s], g, _sense_proj(db, s), distinct=True)


# ---- synsets ---------------------------------------------------------------------------------------------

def _synset_proj(db, ss: Row):
    return (ss.id, ss.pos, ili_id(db, ss), ss.lexicon_rowid, ss.rowid)


def spec_get_synsets_for_ilis(db, a):
    ss = Row(db, 'synsets', 'ss')
    i = ili_id(db, ss)
    return Fam([ss], z_and(member(i, a['ilis']), member(ss.lexicon_rowid, a['lexicon_rowids'])),
               _synset_proj(db, ss), distinct=True)


# ---- relations -------------------------------------------------------------------------------------------------

def _types(db, rel: Row, a):
    t = rel.ref('type_rowid')
    name = db.value('relation_types', 'type', t.var)
    star = seq_has(a['relation_types'], 'str')(LITS.lit('*'))
    wanted = z_or(z_not(nonempty(a['relation_types'])), star, member(name, a['relation_types']))
    return name, wanted


def _lexspec(db, rel: Row):
    from vc.sqlvc.encode import concat_fn
    lx = rel.ref('lexicon_rowid')
    c = concat_fn()
    return SV('str', c(c(db.col('lexicons', 'id')(lx.var), LITS.lit(':')), db.col('lexicons', 'version')(lx.var)))


def spec_get_synset_relations(db, a):
    rel = Row(db, 'synset_relations', 'rel')
    tgt = rel.ref('target_rowid')
    name, wanted = _types(db, rel, a)
    S = a['lexicon_rowids']
    g = z_and(member(rel.source_rowid, a['source_rowids']), wanted, member(rel.lexicon_rowid, S),
              member(tgt.lexicon_rowid, S))
    return Fam([rel], g, (name, _lexspec(db, rel), rel.metadata, rel.source_rowid) + _synset_proj(db, tgt),
               distinct=True)


def spec_get_sense_synset_relations(db, a):
    rel = Row(db, 'sense_synset_relations', 'rel')
    tgt = rel.ref('target_rowid')
    name, wanted = _types(db, rel, a)
    S = a['lexicon_rowids']
    g = z_and(eq(rel.source_rowid, a['source_rowid']), wanted, member(rel.lexicon_rowid, S),
              member(tgt.lexicon_rowid, S))
    return Fam([rel], g, (name, _lexspec(db, rel), rel.metadata, rel.source_rowid) + _synset_proj(db, tgt),
               distinct=True)


def spec_get_sense_relations(db, a):
    rel = Row(db, 'sense_relations', 'rel')
    tgt = rel.ref('target_rowid')
    name, wanted = _types(db, rel, a)
    S = a['lexicon_rowids']
    g = z_and(eq(rel.source_rowid, a['source_rowid']), wanted, member(rel.lexicon_rowid, S),
              member(tgt.lexicon_rowid, S))
    return Fam([rel], g, (name, _lexspec(db, rel), rel.metadata) + _sense_proj(db, tgt), distinct=True)


# ---- secondary data ----------------------------------------------------------------------------------------------

def spec_get_definitions(db, a):
    d = Row(db, 'definitions', 'd')
    s = d.ref('sense_rowid')
    sid = db.value('senses', 'id', s.var)
    sid = SV('str', sid.z, z3.simplify(z_bool(z_or(s.null if s.null is not None else False,
                                                    z_not(db.in_('senses')(s.var))))))
    return Fam([d], z_and(eq(d.synset_rowid, a['synset_rowid']), member(d.lexicon_rowid, a['lexicon_rowids'])),
               (d.definition, d.language, sid, d.rowid))


def spec_get_examples(db, a):
    table = {'senses': 'sense_examples', 'synsets': 'synset_examples'}[a['table']]
    col = {'senses': 'sense_rowid', 'synsets': 'synset_rowid'}[a['table']]
    x = Row(db, table, 'x')
    return Fam([x], z_and(eq(getattr(x, col), a['rowid']), member(x.lexicon_rowid, a['lexicon_rowids'])),
               (x.example, x.language, x.rowid))


def spec_get_sense_counts(db, a):
    c = Row(db, 'counts', 'c')
    return Fam([c], z_and(eq(c.sense_rowid, a['sense_rowid']), member(c.lexicon_rowid, a['lexicon_rowids'])),
               (c.count, c.rowid))


def spec_get_syntactic_behaviours(db, a):
    link = Row(db, 'syntactic_behaviour_senses', 'link')
    sb = link.ref('syntactic_behaviour_rowid')
    return Fam([link], z_and(eq(link.sense_rowid, a['rowid']), member(sb.lexicon_rowid, a['lexicon_rowids'])),
               (sb.frame,))


def spec_get_form_tags(db, a):
    t = Row(db, 'tags', 't')
    return Fam([t], eq(t.form_rowid, a['form_rowid']), (t.tag, t.category))


def spec_get_form_pronunciations(db, a):
    p = Row(db, 'pronunciations', 'p')
    return Fam([p], eq(p.form_rowid, a['form_rowid']), (p.value, p.variety, p.notation, p.phonemic, p.audio))


def spec_get_lexicon_dependencies(db, a):
    d = Row(db, 'lexicon_dependencies', 'd')
    return Fam([d], eq(d.dependent_rowid, a['rowid']),
               (d.provider_id, d.provider_version, d.provider_url, d.provider_rowid))


def spec_find_proposed_ilis(db, a):
    p = Row(db, 'proposed_ilis', 'p')
    ss = p.ref('synset_rowid')
    none_id = SV('str', z3.Const('null:str', __import__('vc.pyvc.values', fromlist=['UStr']).UStr), z3.BoolVal(True))
    g = z_and(opt(z3.Not(a['synset_rowid'].none), eq(p.synset_rowid, a['synset_rowid'])),
              opt(nonempty(a['lexicon_rowids']),
                  z_and(z_not(ss.null) if ss.null is not None else True, db.in_('synsets')(ss.var),
                        member(ss.lexicon_rowid, a['lexicon_rowids']))))
    return Fam([p], g, (none_id, lift('proposed'), p.definition, p.rowid))


# ---- entries (grouped) --------------------------------------------------------------------------------------------

def spec_find_entries(db, a):
    e = Row(db, 'entries', 'e')
    g = z_and(opt(given(a['id']), eq(e.id, a['id'])),
              opt(nonempty(a['forms']), has_matching_form(db, e.rowid, a)),
              opt(given(a['pos']), eq(e.pos, a['pos'])),
              scope(e.lexicon_rowid, a))
    fam = Fam([e], g, (e.id, e.pos, None, e.lexicon_rowid, e.rowid), order=[(e.rowid, 'ASC')], distinct=True)
    # component 2: the forms of the entry, lemma first, then in rank (= document) order
    f = Row(db, 'forms', 'f')
    fam.inner = {2: Fam([f], eq(f.entry_rowid, e.rowid), (f.form, f.id, f.script, f.rowid),
                        order=[(f.rank, 'ASC')])}
    fam.group_witness = lambda erow: lemma_of(db, erow)
    return fam


def lemma_of(db, entry_term):
    """RI (proved as row image of _insert_forms): every stored entry has a lemma form (rank 0)."""
    f = z3.Function('lemma_form_of' + db.tag, z3.IntSort(), z3.IntSort())
    return f(entry_term)


def lemma_axiom(db):
    r = z3.Int('r$lemma')
    f = lemma_of(db, r)
    return z3.ForAll([r], z3.Implies(db.in_('entries')(r), z3.And(
        db.in_('forms')(f), db.col('forms', 'entry_rowid')(f) == r)), patterns=[db.in_('entries')(r)])


def spec_find_synsets(db, a):
    ss = Row(db, 'synsets', 'ss')
    sfree = Row(db, 'senses', 's')       # the sense through which a form reaches the synset
    by_form = z3.Exists([sfree.var], z_and(sfree.present, eq(sfree.synset_rowid, ss.rowid),
                                           has_matching_form(db, sfree.entry_rowid, a)))
    g = z_and(opt(given(a['id']), eq(ss.id, a['id'])),
              opt(nonempty(a['forms']), by_form),
              opt(given(a['pos']), eq(ss.pos, a['pos'])),
              opt(given(a['ili']), eq(ili_id(db, ss), a['ili'])),
              scope(ss.lexicon_rowid, a))
    return Fam([ss], g, _synset_proj(db, ss), distinct=True, order=None)


def spec__find_existing_ilis(db, a):
    i = Row(db, 'ilis', 'i')
    st = i.ref('status_rowid')
    ss = Row(db, 'synsets', 'ss')
    used = z3.Exists([ss.var], z_and(ss.present, eq(ss.ili_rowid, i.rowid), member(ss.lexicon_rowid, a['lexicon_rowids'])))
    status = db.value('ili_statuses', 'status', st.var)
    g = z_and(opt(given(a['id']), eq(i.id, a['id'])), opt(given(a['status']), eq(status, a['status'])),
              opt(nonempty(a['lexicon_rowids']), used))
    return Fam([i], g, (i.id, status, i.definition, i.rowid), distinct=True)
