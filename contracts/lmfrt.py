"""Round trip of the WN-LMF writer and reader of wn/lmf.py, element kind by element kind (C02; reused by C03/C20).

For an element kind K and an LMF version v the following composition is executed symbolically, every step being
the REAL code (AST re-read on every run):

    x  (a record in the loader's normal form, symbolic)                         shapes from lmf's TypedDicts
    E  = W_K(x, v)              the real writer function (_build_* / _dump_*)    Element = contracts.lmfstubs.Element
    a  = bridge(E)              A-XML: serialisation by ElementTree / quoteattr and parsing by expat deliver the
                                element name, its attributes (dc:NAME -> "<uri> NAME", the uri dump() declares),
                                its children in order and its character data unchanged
    r0 = start(tag, a); children...; char_data(text); end(tag)                  the real expat handlers
    r  = _validate_*(r0)        the real post-processing
    obligation:  r == x restricted to what v can express

Children: child builders called by W_K are replaced by their contract (an opaque Built(kind, argument)); each
child list is then read back through a representative element (the list's binder stays free, so the obligation
holds for every element), which requires the reader to treat list children independently and in order - that is the
separate `start` step obligation (R:list-append) over an arbitrary prior list.
"""
from __future__ import annotations

import re
import typing

import z3

from wn import lmf
from wn._util import version_info
from vc.core import Obligation, Unsupported
from vc.pyvc.values import (SV, SRec, SOptRec, SList, SObj, Slot, Lit, Loop, Seq, Binder, LITS, UStr, SORTS,
                            z_and, z_or, z_not, z_bool, fresh_name)
from vc.pyvc.interp import explore, source_span, MList, MDict, Interp, PyRaise
from vc.pyvc import builtins_sym as B
from contracts import lmfstubs, addmodel
from contracts.common import lit_axioms, path_id

OPT = {'record_dicts': True, 'predicate_simple_ifs': True, 'predicate_all_ifs_in': {'_meta_dict'}}
PACKAGES = ('wn', 'contracts.lmfstubs')
VERSIONS = ['1.0', '1.1', '1.2', '1.3']

# ---- what a version can express (sidecar knowledge, from the WN-LMF DTDs) -------------------------------------------
V11_ONLY = {
    ('Lexicon', 'logo'), ('Lexicon', 'requires'), ('Lexicon', 'extends'), ('Lexicon', 'frames'),
    ('Lemma', 'pronunciations'), ('Form', 'pronunciations'), ('Form', 'id'),
    ('Sense', 'subcat'), ('Synset', 'members'), ('Synset', 'lexfile'),
    ('SyntacticBehaviour', 'id'),
}
V10_ONLY = {('LexicalEntry', 'frames'), ('SyntacticBehaviour', 'senses')}
DEFAULT_TRUE = {'lexicalized', 'phonemic'}
TEXT_KINDS = {'Pronunciation', 'Tag', 'Definition', 'ILIDefinition', 'Example'}


def expressible(kind: str, key: str, version: str) -> bool:
    k = kind.replace('External', '')
    if k == 'LexiconExtension':
        k = 'Lexicon'
    if (k, key) in V11_ONLY:
        return version != '1.0'
    if (k, key) in V10_ONLY:
        return version == '1.0'
    return True


# ---- symbolic records in the loader's normal form -------------------------------------------------------------------

class NF:
    """Collects the normal-form facts of every record (and list representative) created for one run."""

    def __init__(self):
        self.facts: list = []
        self.records: list = []
        self.ext = z3.Bool('extension')     # the enclosing lexicon is a lexicon extension

    def add(self, f):
        if f is not True:
            self.facts.append(f)


def _is_td(t):
    return isinstance(t, type) and issubclass(t, dict) and hasattr(t, '__required_keys__')


def _fn(name, idx, sort):
    if idx:
        return z3.Function(name, *[i.sort() for i in idx], sort)(*idx)
    return z3.Const(name, sort)


def wsnorm(z):
    return B.uf('str_wsnorm', UStr, UStr)(z)


def nf_record(alts: list, name: str, nf: NF, idx: tuple = (), kind: str = '') -> SRec:
    """Record of the union of the TypedDict alternatives; facts: it is an instance of one alternative."""
    hints: dict = {}
    for td in alts:
        for k, v in typing.get_type_hints(td).items():
            if k in hints and hints[k] != v:
                a, b = hints[k], v
                if typing.get_origin(a) is list and typing.get_origin(b) is list:
                    hints[k] = list[typing.Union[typing.get_args(a)[0], typing.get_args(b)[0]]]
                else:
                    hints[k] = typing.Union[a, b]
            else:
                hints[k] = v
    rec = SRec(name)
    rec.alternatives = [td.__name__ for td in alts]
    rec.kind = kind or alts[0].__name__
    nf.records.append(rec)
    required_all = set.intersection(*[set(td.__required_keys__) for td in alts])
    for k, tp in hints.items():
        present = True if k in required_all else _fn(f'{name}.{k}.present', idx, z3.BoolSort())
        rec.slots[k] = Slot(present, nf_value(tp, f'{name}.{k}', nf, idx, rec.kind, k))
    # one of the alternatives
    if len(alts) > 1 or True:
        cases = []
        for td in alts:
            keys = set(typing.get_type_hints(td))
            c = []
            for k, s in rec.slots.items():
                if k in td.__required_keys__:
                    c.append(z_bool(s.present))
                elif k not in keys:
                    c.append(z_not(z_bool(s.present)))
            cases.append(z_and(*c))
        nf.add(z_or(*cases))
    # value facts
    for k, s in rec.slots.items():
        p = z_bool(s.present)
        v = s.value
        if k == 'external' and isinstance(v, SV):
            nf.add(z3.Implies(p, v.z))                         # the loader stores True
            nf.add(z3.Implies(p, nf.ext))                      # externals only occur in lexicon extensions
        if k == 'id' and isinstance(v, SV):
            nf.add(z3.Implies(p, v.z != LITS.lit('')))         # identifiers are not empty
        if k == 'lemma' and isinstance(v, SRec) and 'external' in rec.slots and 'external' in v.slots:
            # an external entry can only hold an external lemma and vice versa
            nf.add(z3.Implies(p, z_bool(rec.slots['external'].present) == z_bool(v.slots['external'].present)))
        if k == 'text' and isinstance(v, SV) and v.kind == 'str':
            nf.add(wsnorm(v.z) == v.z)                         # character data is whitespace-normalised
        if isinstance(v, SList):
            nf.add(z3.Implies(p, v.length > 0))                # the loader creates a list with its first child
            nf.add(v.length >= 0)
    return rec


def nf_value(tp, name, nf: NF, idx, kind, key):
    origin = typing.get_origin(tp)
    args = typing.get_args(tp)
    if _is_td(tp) and tp.__name__ == 'Metadata' or (
            origin is typing.Union and any(_is_td(a) and a.__name__ == 'Metadata' for a in args)):
        rec = SRec(name)
        rec.kind = 'Metadata'
        nf.records.append(rec)
        for k in typing.get_type_hints(lmf.Metadata):
            # load() leaves confidenceScore a string (lmf._validate_metadata is never called)
            rec.slots[k] = Slot(_fn(f'{name}.{k}.present', idx, z3.BoolSort()), SV('str', _fn(f'{name}.{k}', idx, UStr)))
        present = z3.Not(_fn(name + '.isNone', idx, z3.BoolSort()))
        # start(): `meta or None` - a stored metadata dict is never empty
        nf.add(z3.Implies(present, z_or(*[z_bool(s.present) for s in rec.slots.values()])))
        return SOptRec(present, rec)
    if tp is str:
        return SV('str', _fn(name, idx, UStr))
    if tp is int:
        return SV('int', _fn(name, idx, z3.IntSort()))
    if tp is bool or origin is typing.Literal:
        return SV('bool', _fn(name, idx, z3.BoolSort()))
    if origin is typing.Union:
        nonnone = [a for a in args if a is not type(None)]
        if all(_is_td(a) for a in nonnone):
            return nf_record(nonnone, name, nf, idx)
        if len(nonnone) == 1:
            return nf_value(nonnone[0], name, nf, idx, kind, key)
    if origin is list:
        elem_t = args[0]

        def make(path, eidx, elem_t=elem_t):
            return nf_value(elem_t, path, nf, tuple(eidx), kind, key)
        return SList(name, make, tuple(idx))
    if _is_td(tp):
        return nf_record([tp], name, nf, idx)
    raise Unsupported(f'no normal-form value for {tp!r} at {name}')


# ---- contracts for the run ------------------------------------------------------------------------------------------

class Built(SObj):
    """Result of a child builder (contract): the element the real builder yields for `arg` (checked on its own)."""

    def __init__(self, fn, args):
        super().__init__(type('Built', (), {}), name=fresh_name('built'))
        self.fn = fn
        self.args = args


BUILDERS = ['_build_lemma', '_build_form', '_build_pronunciation', '_build_tag', '_build_sense', '_build_example',
            '_build_count', '_build_definition', '_build_ili_definition', '_build_relation',
            '_build_syntactic_behaviour']
DUMPERS = ['_dump_dependency', '_dump_lexical_entry', '_dump_synset', '_dump_syntactic_behaviour']


def make_contracts(captured: list, emitted: list, stub: set):
    def el(it, args, kw, node):
        return it.instantiate(lmfstubs.Element, args, kw, node)

    def tostring(it, args, kw, node):
        cap = getattr(it, 'cap', None)
        if cap is not None:
            it.list_append(cap, args[0])       # keeps the iteration structure (Requires inside a loop)
        captured.append(args[0])
        return B.I.opaque_str('xml', args[:1])

    def parser_create(it, args, kw, node):
        return SObj(type('XMLParser', (), {}), {'CurrentLineNumber': SV('int', z3.Int('line'))}, name='expat')

    c = {'xml.etree.ElementTree.Element': el, 'wn.lmf._tostring': tostring,
         'pyexpat.ParserCreate': parser_create, 'xml.parsers.expat.ParserCreate': parser_create}
    for b in BUILDERS:
        if b in stub:
            c['wn.lmf.' + b] = (lambda it, args, kw, node, b=b: Built(b, list(args)))
    for d in DUMPERS:
        if d in stub:
            def dumped(it, args, kw, node, d=d):
                emitted.append((d, list(args)))
                return None
            c['wn.lmf.' + d] = dumped
    return c


# ---- the reader ------------------------------------------------------------------------------------------------------

class Reader:
    def __init__(self, it: Interp, version: str):
        self.it = it
        self.version = version
        self.root = SRec('root')
        self.root.owned = True
        self.parser = it.call(lmf._make_parser, [self.root, version, addmodel.Progress()], {})
        self.start = self.parser.attrs['StartElementHandler']
        self.end = self.parser.attrs['EndElementHandler']
        self.char = self.parser.attrs['CharacterDataHandler']
        self.stack = self.start.env.lookup('stack')

    def bridge(self, attrib: SRec, dc_uri: str) -> SRec:
        """A-XML: attribute names as expat reports them (namespace_separator ' ')."""
        out = SRec('attrs')
        out.owned = True
        for k, s in attrib.slots.items():
            if s.present is False:
                continue
            name = f'{dc_uri} {k[3:]}' if k.startswith('dc:') else k
            out.slots[name] = Slot(s.present, s.value)
        return out


def dc_uri_written(version: str) -> tuple:
    """The header lines dump() prints for `version` (symbolic execution of the real dump with the file object
    stubbed), the namespace uri it binds to the dc: prefix and the lexicons handed to _dump_lexicon."""
    from vc.pyvc.interp import SymMethod
    lines = []
    dumped = []

    def fake_print(it, args, kw, node):
        if args and isinstance(args[0], str):
            lines.append(args[0])
        else:
            lines.append(None)
        return None

    class Out(SObj):
        def __init__(self):
            super().__init__(type('TextIO', (), {}), name='out')

        def __vc_enter__(self, it):
            return self

        def __vc_exit__(self, it, exc):
            return False

    def path_ctor(it, args, kw, node):
        o = SObj(type('Path', (), {}), name='dest')

        def ga(it2, name, node2, o=o):
            if name == 'expanduser':
                return SymMethod(lambda i, a, k, n: o, 'expanduser')
            if name == 'open':
                return SymMethod(lambda i, a, k, n: Out(), 'open')
            raise Unsupported('Path.' + name)
        o.vc_getattr = ga
        return o

    def dump_lexicon(it, args, kw, node):
        dumped.append(args)
        lines.append(('lexicon', args[0]))
        return None

    lexs = MList(['LEX1', 'LEX2'])

    def run(it):
        res = SRec('res', {'lmf_version': Slot(True, version), 'lexicons': Slot(True, lexs)})
        it.call(lmf.dump, [res, 'dest'], {})
    outs = explore(run, contracts={'pathlib.Path': path_ctor, 'builtins.print': fake_print,
                                   'wn.lmf._dump_lexicon': dump_lexicon},
                   packages=('wn',), options=OPT)
    if len(outs) != 1 or outs[0].kind != 'return':
        raise Unsupported(f'dump(): {outs}')
    strs = [x for x in lines if isinstance(x, str)]
    m = re.search(r'xmlns:dc="([^"]*)"', ' '.join(strs))
    return lines, (m.group(1) if m else None), dumped


# ---- reading an element the writer produced -------------------------------------------------------------------------

class RoundTrip:
    """One run (one path) of write -> bridge -> read for a group root."""

    def __init__(self, it: Interp, version: str, uri: str):
        self.it = it
        self.version = version
        self.vinfo = version_info(version)
        self.uri = uri
        self.reader = Reader(it, version)
        self.binders: list = []          # binders of the representatives (their constraints are in the pc)

    # -- writer -------------------------------------------------------------------------------------------------
    def build(self, fn: str, args: list):
        """Call the REAL builder (its own children come from the builder contracts)."""
        return self.it.call_function(getattr(lmf, fn), args, {})

    # -- reader -------------------------------------------------------------------------------------------------
    def read(self, E: SObj, depth: int) -> SRec:
        it = self.it
        rd = self.reader
        tag = E.attrs['tag']
        if not isinstance(tag, str):
            raise Unsupported('symbolic element name')
        attrs = rd.bridge(E.attrs['attrib'], self.uri)
        attrs.tag = tag
        it.call(rd.start, [tag, attrs], {})
        if depth > 0:
            for node in list(E.attrs['children'].nodes):
                self.read_child(node, attrs, depth - 1)
        text = E.attrs['text']
        if text is not None:
            it.call(rd.char, [text], {})
        it.call(rd.end, [tag], {})
        return attrs

    def read_child(self, node, parent: SRec, depth: int):
        it = self.it
        if isinstance(node, Lit):
            if node.guard is not True and not it.ctx.branch(z_bool(node.guard)):
                return
            E = self.element_of(node.elem)
            self.read(E, depth)
            return
        if len(node.binders) != 1 or len(node.kids) != 1 or not isinstance(node.kids[0], Lit):
            raise Unsupported('child list with nested iteration')
        if getattr(node, 'reverse', False) or getattr(node, 'order', None) is not None or \
                getattr(node, 'unordered', False):
            raise Unsupported('children written in another order than the list')
        b = node.binders[0]
        kid = node.kids[0]
        guard = z_and(node.guard, kid.guard)
        # representative element: the binder stays a free constant constrained by the path condition
        it.ctx.assume(b.constraint)
        if guard is not True:
            g = z3.simplify(z_bool(guard))
            if not z3.is_true(g):
                it.ctx.assume(g)
        self.binders.append(b)
        E = self.element_of(kid.elem)
        rec = self.read(E, depth)
        key = lmf._VALID_ELEMS[self.version].get(rec.tag)
        slot = parent.slots.get(key)
        if slot is None or not isinstance(slot.value, MList) or not slot.value.is_concrete() or \
                slot.value.items() != [rec]:
            raise Unsupported(f'reader did not put the <{rec.tag}> child into parent[{key!r}] as a fresh list')
        # the list as read for ALL elements: same handler, independent of siblings (R:list-append)
        lst = MList(nodes=[Loop([b], guard, [Lit(rec)])])
        lst.read_of = (b, guard)
        nonempty = _nonempty(b, guard)
        src = getattr(node, 'src', None)
        parent.slots[key] = Slot(nonempty, lst)
        parent.slots[key].binder = b

    def element_of(self, v):
        if isinstance(v, Built):
            return self.build(v.fn, v.args)
        if isinstance(v, SObj) and v.cls is lmfstubs.Element:
            return v
        raise Unsupported(f'child {v!r} is not an element')


def _nonempty(b: Binder, guard):
    """exists i. constraint(i) and guard  - quantifier-free for range binders with an iteration-independent guard."""
    c = b.constraint
    from vc.pyvc.interp import contains_binder
    try:
        if z3.is_and(c) and c.num_args() == 2 and not contains_binder(SV('bool', z_bool(guard)), [b.var]):
            lo, hi = c.arg(0), c.arg(1)
            if lo.decl().kind() == z3.Z3_OP_GE and lo.arg(0).eq(b.var) and z3.is_int_value(lo.arg(1)) and \
                    lo.arg(1).as_long() == 0 and hi.decl().kind() == z3.Z3_OP_LT and hi.arg(0).eq(b.var):
                return z3.And(hi.arg(1) > 0, z_bool(guard))
    except Exception:
        pass
    return z3.Exists([b.var], z_and(b.constraint, z_bool(guard)))


# ---- comparison of the re-read record with the input ----------------------------------------------------------------

def explicit_false_facts(nf: NF) -> list:
    """Restriction of known finding K19: lexicalized / phonemic, when present, are False."""
    out = []
    for rec in nf.records:
        for k, s in rec.slots.items():
            if k in DEFAULT_TRUE and isinstance(s.value, SV):
                out.append(z3.Implies(z_bool(s.present), z3.Not(s.value.z)))
    return out


def restrictions(nf: NF) -> dict:
    return {'K7': nonempty_facts(nf), 'K19': explicit_false_facts(nf)}


_SUFFIX = {None: '', 'K7': ':optional', 'K19': ':default-true'}


def nonempty_facts(nf: NF) -> list:
    """Restriction of known finding K7: optional string attributes (and metadata values) are not the empty string."""
    out = []
    for rec in nf.records:
        for k, s in rec.slots.items():
            if isinstance(s.value, SV) and s.value.kind == 'str' and k not in ('text', 'ili'):
                if s.present is True and rec.kind != 'Metadata':
                    continue
                out.append(z3.Implies(z_bool(s.present), s.value.z != LITS.lit('')))
    return out


class Cmp:
    def __init__(self, version: str):
        self.version = version
        self.goals: list = []       # (label, goal or bool, k7-sensitive)

    def add(self, label, goal, k7=False):
        # third component: id of the known finding whose formal restriction applies to this goal (or None)
        self.goals.append((label, goal, 'K7' if k7 is True else (k7 or None)))

    def record(self, x: SRec, r, path: str, deep: bool = True, levels: int = 9):
        """levels: how many levels of children were read back (children below are checked by their own group)."""
        if isinstance(r, SOptRec):
            self.add(f'{path}:present', z_bool(r.present))
            r = r.rec
        if not isinstance(r, SRec):
            self.add(f'{path}:is-record', False)
            return
        kind = getattr(x, 'kind', '')
        for k in dict.fromkeys(list(x.slots) + list(r.slots)):
            sx = x.slots.get(k)
            sr = r.slots.get(k)
            exp = expressible(kind, k, self.version) and sx is not None
            px = z_bool(sx.present) if (sx is not None and exp) else z3.BoolVal(False)
            pr = z_bool(sr.present) if sr is not None else z3.BoolVal(False)
            lab = f'{path}.{k}'
            if not exp or sx is None:
                if sr is not None and sr.present is not False:
                    self.add(f'{lab}:absent', z3.Not(pr))
                continue
            xv = sx.value
            is_child = isinstance(xv, SRec) or (isinstance(xv, SList) and isinstance(xv.at(z3.IntVal(0)), SRec))
            if is_child and levels <= 0:
                continue                 # not read back in this group
            if k in DEFAULT_TRUE:
                # the value by its effect (absent = true, the DTD default) and, strictly, the presence of the key
                # (an explicit true is not written back: known finding K19)
                self.default_true(lab, px, xv, pr, sr.value if sr is not None else None)
                self.add(f'{lab}:presence', px == pr, 'K19')
                continue
            k7 = isinstance(xv, (SV, SOptRec))
            self.add(f'{lab}:presence', px == pr, k7)
            if sr is None:
                continue
            both = z3.And(px, pr)
            self.value(lab, xv, sr.value, both, deep, k7, levels)

    def default_true(self, lab, px, xv, pr, rv):
        eff_x = z3.If(px, xv.z, z3.BoolVal(True))
        if rv is None:
            self.add(f'{lab}:default', eff_x)
            return
        from vc.pyvc.values import Mixed
        alts = rv.alts if isinstance(rv, Mixed) else [(True, rv)]
        self.add(f'{lab}:default', z3.Implies(z3.Not(pr), eff_x))
        for g, v in alts:
            g = z_and(pr, g)
            if isinstance(v, bool):
                self.add(f'{lab}:value', z3.Implies(z_bool(g), eff_x == z3.BoolVal(v)))
            elif isinstance(v, SV) and v.kind == 'bool':
                self.add(f'{lab}:value', z3.Implies(z_bool(g), eff_x == v.z))
            else:
                self.add(f'{lab}:type', z3.Not(z_bool(g)))      # a non-bool must not remain

    def value(self, lab, xv, rv, cond, deep, k7=False, levels=9):
        from vc.pyvc.values import Mixed
        if isinstance(rv, Mixed):
            for g, v in rv.alts:
                self.value(lab, xv, v, z3.And(cond, z_bool(g)), deep, k7, levels)
            return
        if isinstance(xv, SV):
            if isinstance(rv, (str, bool, int)) and not isinstance(rv, SV):
                from vc.pyvc.values import lift
                rv = lift(rv, xv.kind)
            if not isinstance(rv, SV) or rv.kind != xv.kind:
                self.add(f'{lab}:type', z3.Not(cond), k7)
                return
            g = xv.z == rv.z
            if rv.none is not None:
                g = z3.And(z3.Not(rv.none), g)
            self.add(f'{lab}:value', z3.Implies(cond, g), k7)
            return
        if isinstance(xv, SOptRec):             # metadata
            if rv is None:
                self.add(f'{lab}:none', z3.Implies(cond, z3.Not(z_bool(xv.present))), True)
                return
            if isinstance(rv, SOptRec):
                self.add(f'{lab}:none', z3.Implies(cond, z_bool(xv.present) == z_bool(rv.present)), True)
                rrec, both = rv.rec, z3.And(cond, z_bool(xv.present), z_bool(rv.present))
            elif isinstance(rv, SRec):
                self.add(f'{lab}:none', z3.Implies(cond, z_bool(xv.present)), True)
                rrec, both = rv, z3.And(cond, z_bool(xv.present))
            else:
                self.add(f'{lab}:type', z3.Not(cond))
                return
            for k in dict.fromkeys(list(xv.rec.slots) + list(rrec.slots)):
                sx, sr = xv.rec.slots.get(k), rrec.slots.get(k)
                px = z_bool(sx.present) if sx is not None else z3.BoolVal(False)
                pr = z_bool(sr.present) if sr is not None else z3.BoolVal(False)
                self.add(f'{lab}.{k}:presence', z3.Implies(both, px == pr), True)
                if sx is not None and sr is not None:
                    self.value(f'{lab}.{k}', sx.value, sr.value, z3.And(both, px, pr), deep, True)
            return
        if isinstance(xv, SRec):
            if deep:
                self.record(xv, rv, lab, deep, levels - 1)
            else:
                self.add(f'{lab}:is-record', isinstance(rv, (SRec, SOptRec)))
            return
        if isinstance(xv, SList):
            probe = xv.at(z3.IntVal(0))
            if isinstance(probe, SRec):
                ro = getattr(rv, 'read_of', None)
                if ro is None:
                    self.add(f'{lab}:list', False)
                    return
                b, guard = ro
                ident = getattr(b, 'key', None) or ()
                ok = len(ident) >= 2 and ident[1] == xv.name
                self.add(f'{lab}:list-source', ok)
                if ok and deep:
                    rec = rv.nodes[0].kids[0].elem
                    self.record(xv.at(b.var), rec, f'{lab}[i]', deep, levels - 1)
                return
            same = rv is xv or getattr(rv, 'seq', None) is xv
            if same:
                self.add(f'{lab}:tokens', True)
            else:
                self.add(f'{lab}:tokens', z3.Not(cond))      # any other value must be unreachable
            return
        self.add(f'{lab}:unsupported-value', False)


# ---- groups -----------------------------------------------------------------------------------------------------------

def _validate_call(fn):
    return lambda it, rec, ext: it.call(getattr(lmf, fn), [MList([rec]), ext] if fn != '_validate_frames'
                                        else [MList([rec])], {})


GROUPS = {
    # name: (TypedDict alternatives, writer, writer kind, depth of children read, validator)
    'lemma': ([lmf.Lemma, lmf.ExternalLemma], '_build_lemma', 'build', 2, '_validate_forms'),
    'form': ([lmf.Form, lmf.ExternalForm], '_build_form', 'build', 2, '_validate_forms'),
    'sense': ([lmf.Sense, lmf.ExternalSense], '_build_sense', 'build', 2, '_validate_senses'),
    'frame': ([lmf.SyntacticBehaviour], '_build_syntactic_behaviour', 'build', 2, '_validate_frames'),
    'synset': ([lmf.Synset, lmf.ExternalSynset], '_dump_synset', 'dump', 2, '_validate_synsets'),
    # the entry with its lemma / forms / senses / frames but not their children (groups above)
    'entry': ([lmf.LexicalEntry, lmf.ExternalLexicalEntry], '_dump_lexical_entry', 'dump', 1, '_validate_entries'),
}


def run_group(group: str, version: str, uri: str):
    """-> list of (outcome, x, r, nf) per path."""
    alts, writer, wkind, depth, validator = GROUPS[group]
    captured: list = []

    def run(it):
        captured.clear()
        del B.JOINED_TERMS[:]
        nf = NF()
        x = nf_record(alts, group, nf)
        ext = SV('bool', nf.ext)
        if version == '1.0':
            nf.add(z3.Not(ext.z))            # LMF 1.0 has no lexicon extensions: nothing external to express
        for f in nf.facts:
            it.ctx.assume(f)
        n0 = len(nf.facts)
        rt = RoundTrip(it, version, uri)
        if wkind == 'build':
            E = rt.build(writer, [x, rt.vinfo])
        else:
            rt.build(writer, [x, SObj(type('TextIO', (), {}), name='out'), rt.vinfo])
            if len(captured) != 1:
                raise Unsupported(f'{writer} serialised {len(captured)} elements')
            E = captured[0]
        # the facts about representatives are created lazily: assume them as they appear
        for f in nf.facts[n0:]:
            it.ctx.assume(f)
        n0 = len(nf.facts)
        r0 = rt.read(E, depth)
        for f in nf.facts[n0:]:
            it.ctx.assume(f)
        _validate_call(validator)(it, r0, ext)
        rt.joined = list(B.JOINED_TERMS)
        return x, r0, nf, rt

    contracts = make_contracts(captured, [], set(BUILDERS))
    return explore(run, contracts=contracts, packages=PACKAGES, options=OPT)


def group_obligations(group: str, version: str, uri: str, prop: str) -> list:
    """-> list of (merged obligation, [individual obligations]) ; the individual ones are only discharged when the
    merged one (their conjunction) is not."""
    alts, writer, wkind, depth, validator = GROUPS[group]
    name = f'wn.lmf.{writer}'
    cm = dict(prop=prop, functions=(name, 'wn.lmf._make_parser.start', 'wn.lmf._make_parser.char_data',
                                    'wn.lmf._make_parser.end', f'wn.lmf.{validator}', 'wn.lmf._meta_dict'),
              source=source_span(getattr(lmf, writer)), assumptions_used=('A-XML', 'A-SPLIT', 'A-PY-INTSTR'))
    obs = []
    outs = run_group(group, version, uri)
    obs.append((Obligation(f'{name}:{version}:paths', kind='structure', decided=len(outs) > 0,
                           detail=f'{len(outs)} feasible paths', **cm), []))
    for n, o in enumerate(outs):
        base = f'{name}:{version}:p{n}'
        if o.kind == 'raise':
            # what dump() writes must be accepted by load(): no path of write -> read -> validate raises
            obs.append((Obligation(f'{base}:accepted', kind='safety', assumptions=list(o.pc) + lit_axioms(),
                                   goal=z3.BoolVal(False),
                                   detail=f'reading back what {writer} wrote raises {o.exc.exc_type.__name__} '
                                          f'{o.exc.args} at lmf.py:{getattr(o.exc.node, "lineno", "?")} '
                                          f'(path {path_id(o)[:60]})', **cm), []))
            continue
        x, r, nf, rt = o.value
        rt.terms = list(o.pc) + [a for mr in o.may_raise for a in mr[1]] + terms_of(r)
        asm = list(o.pc) + list(nf.facts) + lit_axioms() + py_axioms(rt)
        first = True
        for k, (exc_type, assumptions, node, what, *rest) in enumerate(o.may_raise):
            obs.append((Obligation(f'{base}:accepted#{k}', kind='safety',
                                   assumptions=list(assumptions[:-1]) + list(nf.facts) + lit_axioms() + py_axioms(rt),
                                   goal=z3.Not(assumptions[-1]), vacuity=False,
                                   detail=f'{exc_type.__name__} ({what}, lmf.py:{getattr(node, "lineno", "?")}) while '
                                          f'reading back what {writer} wrote',
                                   **cm), []))
        c = Cmp(version)
        c.record(x, r, group, levels=depth)
        restr = restrictions(nf)
        groups: dict = {}
        for label, goal, sens in c.goals:
            rec_path = label.split(':')[0].rsplit('.', 1)[0]
            groups.setdefault((rec_path, sens), []).append((label, goal))
        for (rec_path, sens), items in groups.items():
            singles = []
            for label, goal in items:
                if isinstance(goal, bool):
                    singles.append(Obligation(f'{base}:rt:{label}', kind='post', decided=goal,
                                              detail='structure of the re-read record', **cm))
                else:
                    singles.append(Obligation(f'{base}:rt:{label}', kind='post', assumptions=asm, goal=goal,
                                              finding=sens, restricted=restr[sens] if sens else None,
                                              vacuity=False, replay=make_replay(group, version, x),
                                              detail=f'load(dump(x)) == x restricted to LMF {version}: {label}', **cm))
            zgoals = [g for _, g in items if not isinstance(g, bool)]
            decided = all(g for _, g in items if isinstance(g, bool))
            if not decided or not zgoals:
                obs.extend((s, []) for s in singles)
                continue
            merged = Obligation(f'{base}:rt:{rec_path}{_SUFFIX[sens]}', kind='post', assumptions=asm,
                                goal=z3.And(*zgoals), vacuity=first,
                                finding=sens, restricted=restr[sens] if sens else None,
                                detail=f'load(dump(x)) == x restricted to LMF {version}: fields '
                                       f'{[l for l, _ in items]}'[:400], **cm)
            first = False
            obs.append((merged, singles))
    return obs


def terms_of(v, depth=0) -> list:
    """z3 terms occurring in a value (record tree)."""
    from vc.pyvc.values import Mixed
    out = []
    if depth > 8:
        return out
    if isinstance(v, SV):
        out.append(v.z)
    elif isinstance(v, SRec):
        for s in v.slots.values():
            if z3.is_expr(s.present):
                out.append(s.present)
            out += terms_of(s.value, depth + 1)
    elif isinstance(v, SOptRec):
        out += terms_of(v.rec, depth + 1)
    elif isinstance(v, Mixed):
        for g, x in v.alts:
            if z3.is_expr(g):
                out.append(g)
            out += terms_of(x, depth + 1)
    elif isinstance(v, MList):
        for _, _, e, _ in v.leaves():
            out += terms_of(e, depth + 1)
    return out


def group_job(args) -> list:
    """Worker: explore one group x version, discharge, return picklable results."""
    from vc.core import remote_result
    group, version, uri, prop = args
    try:
        obs = lexicon_obligations(version, uri, prop) if group == 'lexicon' else \
            group_obligations(group, version, uri, prop)
    except Unsupported as exc:
        w = '_dump_lexicon' if group == 'lexicon' else GROUPS[group][1]
        return [{'unsupported': f'wn.lmf.{w}:{version}', 'reason': str(exc)}]
    out = []
    for merged, singles in obs:
        d = remote_result(merged)
        if d['verdict'] == 'discharged' or not singles or \
                (d['verdict'] == 'refuted' and d['restricted_verdict'] == 'discharged'):
            out.append(d)
            continue
        for ob in singles:           # name the field(s) that fail
            out.append(remote_result(ob))
    return out


def py_axioms(rt) -> list:
    """Ground instances of Python facts used by the round trip (A-PY-INTSTR): int(str(n)) == n and
    ' '.join(str(n).split()) == str(n)."""
    out = []
    # A-PY-INTSTR, instantiated for every str(n) the path builds
    seen, stack, terms = set(), [t for t in getattr(rt, 'terms', []) if z3.is_expr(t)], []
    while stack:
        t = stack.pop()
        if t.get_id() in seen:
            continue
        seen.add(t.get_id())
        if z3.is_quantifier(t):
            stack.append(t.body())
            continue
        if z3.is_app(t):
            if t.decl().name() == 'str_of_int':
                terms.append(t)
            stack.extend(t.children())
    for t in terms:
        out += [B.uf('int_of_str', UStr, z3.IntSort())(t) == t.arg(0),
                B.uf('is_int_str', UStr, z3.BoolSort())(t), wsnorm(t) == t]
    for z, toks in getattr(rt, 'joined', []):
        ne = toks.nonempty() if hasattr(toks, 'nonempty') else (len(toks) > 0)
        # A-SPLIT: a non-empty list of non-empty tokens joins to a non-empty string
        out.append(z3.Implies(z_bool(ne), z != LITS.lit('')))
    return out


def header_obligations(version, lines, uri, dumped, prop) -> list:
    import io
    cm = dict(prop=prop, functions=('wn.lmf.dump', 'wn.lmf._read_header'), source=source_span(lmf.dump),
              assumptions_used=())
    obs = []
    strs = [x for x in lines if isinstance(x, str)]
    hdr = '\n'.join(strs[:2]) + '\n'
    try:
        got = lmf._read_header(io.BytesIO(hdr.encode('utf-8')))
    except lmf.LMFError as exc:
        got = f'LMFError: {exc}'
    obs.append(Obligation(f'wn.lmf.dump:{version}:header-accepted', kind='post', decided=(got == version),
                          detail=f'the two header lines dump() writes for {version} are read back by _read_header as '
                                 f'{got!r}', **cm))
    obs.append(Obligation(f'wn.lmf.dump:{version}:dc-namespace', kind='post',
                          decided=(uri == lmf._DC_URIS[version] and
                                   all(k.startswith(uri + ' ') or ' ' not in k for k in lmf._NS_ATTRS[version])),
                          detail=f'dump() binds dc: to {uri!r}, the uri the reader maps for {version}', **cm))
    shape = [('s' if isinstance(x, str) else 'L') for x in lines]
    order_ok = shape == ['s', 's', 's', 'L', 'L', 's'] and [a[0] for a in dumped] == ['LEX1', 'LEX2'] and \
        strs[2].startswith('<LexicalResource') and strs[3] == '</LexicalResource>' and \
        all(tuple(a[2]) == tuple(version_info(version)) for a in dumped)
    obs.append(Obligation(f'wn.lmf.dump:{version}:lexicons-in-order', kind='structure', decided=order_ok,
                          detail='header, <LexicalResource>, one _dump_lexicon per lexicon in list order with the '
                                 'resource version, </LexicalResource>', **cm))
    return obs


# ---- the lexicon element itself --------------------------------------------------------------------------------------

def run_lexicon(version: str, uri: str):
    """_dump_lexicon: start tag written by hand (attributes from _build_lexicon_attrib through quoteattr), Extends /
    Requires through _dump_dependency, then entries, synsets, frames by their own dump functions (contracts)."""
    captured: list = []
    emitted: list = []
    printed: list = []
    quoted: list = []
    attribs: list = []

    def fake_print(it, args, kw, node):
        printed.append(args[0] if args else None)
        return None

    def quoteattr(it, args, kw, node):
        quoted.append(args[0])
        return B.I.opaque_str('quoted', args)

    def attrib_wrapper(it, args, kw, node):
        a = it.call_function(lmf._build_lexicon_attrib, args, kw)
        attribs.append(a)
        return a

    def run(it):
        for lst in (captured, emitted, printed, quoted, attribs):
            del lst[:]
        del B.JOINED_TERMS[:]
        nf = NF()
        x = nf_record([lmf.Lexicon, lmf.LexiconExtension], 'lexicon', nf)
        ext = SV('bool', nf.ext)
        nf.add(ext.z == z_bool(x.slots['extends'].present))
        if version == '1.0':
            nf.add(z3.Not(ext.z))
        for f in nf.facts:
            it.ctx.assume(f)
        n0 = len(nf.facts)
        rt = RoundTrip(it, version, uri)
        out = SObj(type('TextIO', (), {}), name='out')
        it.cap = MList()
        it.call_function(lmf._dump_lexicon, [x, out, rt.vinfo], {})
        for f in nf.facts[n0:]:
            it.ctx.assume(f)
        n0 = len(nf.facts)
        closing = [p for p in printed if isinstance(p, str) and p.strip().startswith('</')]
        if len(closing) != 1 or len(attribs) != 1:
            raise Unsupported('_dump_lexicon: start/end tag not recognised')
        tag = closing[0].strip()[2:-1]
        # the element as serialised: start tag attributes + the dependency elements, in the order written
        E = SObj(lmfstubs.Element, {'tag': tag, 'attrib': attribs[0], 'text': None,
                                    'children': it.cap})
        r0 = rt.read(E, 1)
        for f in nf.facts[n0:]:
            it.ctx.assume(f)
        r = it.call(lmf._validate, [r0], {})
        rt.joined = list(B.JOINED_TERMS)
        rt.emitted = list(emitted)
        rt.quoted = list(quoted)
        rt.attrib = attribs[0]
        rt.tag = tag
        return x, r, nf, rt

    contracts = make_contracts(captured, emitted, set(BUILDERS) | {'_dump_lexical_entry', '_dump_synset',
                                                                  '_dump_syntactic_behaviour'})
    contracts['builtins.print'] = fake_print
    contracts['xml.sax.saxutils.quoteattr'] = quoteattr
    contracts['wn.lmf._build_lexicon_attrib'] = attrib_wrapper
    return explore(run, contracts=contracts, packages=PACKAGES, options=OPT)


def lexicon_obligations(version: str, uri: str, prop: str) -> list:
    name = 'wn.lmf._dump_lexicon'
    cm = dict(prop=prop, functions=(name, 'wn.lmf._build_lexicon_attrib', 'wn.lmf._dump_dependency',
                                    'wn.lmf._make_parser.start', 'wn.lmf._make_parser.end', 'wn.lmf._validate',
                                    'wn.lmf._validate_lexicon', 'wn.lmf._meta_dict'),
              source=source_span(lmf._dump_lexicon), assumptions_used=('A-XML',))
    obs = []
    outs = run_lexicon(version, uri)
    obs.append((Obligation(f'{name}:{version}:paths', kind='structure', decided=len(outs) > 0,
                           detail=f'{len(outs)} feasible paths', **cm), []))
    for n, o in enumerate(outs):
        base = f'{name}:{version}:p{n}'
        if o.kind == 'raise':
            obs.append((Obligation(f'{base}:accepted', kind='safety', assumptions=list(o.pc) + lit_axioms(),
                                   goal=z3.BoolVal(False),
                                   detail=f'reading back what _dump_lexicon wrote raises {o.exc.exc_type.__name__} '
                                          f'{o.exc.args} at lmf.py:{getattr(o.exc.node, "lineno", "?")}', **cm), []))
            continue
        x, r, nf, rt = o.value
        rt.terms = list(o.pc) + terms_of(r)
        asm = list(o.pc) + list(nf.facts) + lit_axioms() + py_axioms(rt)
        for k, (exc_type, assumptions, node, what, *rest) in enumerate(o.may_raise):
            obs.append((Obligation(f'{base}:accepted#{k}', kind='safety',
                                   assumptions=list(assumptions[:-1]) + list(nf.facts) + lit_axioms(),
                                   goal=z3.Not(assumptions[-1]), vacuity=False,
                                   detail=f'{exc_type.__name__} ({what}, lmf.py:{getattr(node, "lineno", "?")}) while '
                                          f'reading back what _dump_lexicon wrote', **cm), []))
        # element type
        is_ext = z_bool(x.slots['extends'].present)
        obs.append((Obligation(f'{base}:element', kind='post', assumptions=asm,
                               goal=(is_ext if rt.tag == 'LexiconExtension' else z3.Not(is_ext))
                               if rt.tag in ('Lexicon', 'LexiconExtension') else z3.BoolVal(False),
                               detail=f'<{rt.tag}> is written iff the lexicon has/has not an `extends`', **cm), []))
        # every attribute value goes through quoteattr(str(value))
        qids = {q.z.get_id() for q in rt.quoted if isinstance(q, SV)} | \
               {q for q in rt.quoted if isinstance(q, str)}
        missing = [k for k, s in rt.attrib.slots.items() if s.present is not False and not (
            (isinstance(s.value, SV) and s.value.z.get_id() in qids) or (isinstance(s.value, str) and s.value in qids))]
        obs.append((Obligation(f'{base}:attributes-quoted', kind='structure', decided=not missing,
                               detail=f'attribute values written without xml.sax.saxutils.quoteattr: {missing} '
                                      '(A-XML is assumed for quoteattr / ElementTree only)', **cm), []))
        # children order: entries, synsets, frames (>= 1.1) through their dump functions, each list in order
        want = [('_dump_lexical_entry', 'entries'), ('_dump_synset', 'synsets')]
        if version != '1.0':
            want.append(('_dump_syntactic_behaviour', 'frames'))
        got = []
        for fn, args in rt.emitted:
            a = args[0]
            src = None
            for key in ('entries', 'synsets', 'frames'):
                sl = x.slots[key].value
                if isinstance(a, SRec) and a.name == sl.name:
                    src = key
            got.append((fn, src))
        obs.append((Obligation(f'{base}:children', kind='structure', decided=(got == want),
                               detail=f'child elements dumped: {got}; expected every element of {want} in list order',
                               **cm), []))
        c = Cmp(version)
        c.record(x, r, 'lexicon', levels=1)
        # entries / synsets / frames are not read back here
        goals = [(l, g, s) for l, g, s in c.goals if l.split(':')[0].split('.')[1].split('[')[0]
                 not in ('entries', 'synsets', 'frames')]
        restr = restrictions(nf)
        groups: dict = {}
        for label, goal, sens in goals:
            groups.setdefault((label.split(':')[0].rsplit('.', 1)[0], sens), []).append((label, goal))
        for (rec_path, sens), items in groups.items():
            singles = []
            for label, goal in items:
                if isinstance(goal, bool):
                    singles.append(Obligation(f'{base}:rt:{label}', kind='post', decided=goal,
                                              detail='structure of the re-read record', **cm))
                else:
                    singles.append(Obligation(f'{base}:rt:{label}', kind='post', assumptions=asm, goal=goal,
                                              finding=sens, restricted=restr[sens] if sens else None,
                                              vacuity=False, replay=make_replay('lexicon', version, x),
                                              detail=f'load(dump(x)) == x restricted to LMF {version}: {label}', **cm))
            zgoals = [g for _, g in items if not isinstance(g, bool)]
            if not all(g for _, g in items if isinstance(g, bool)) or not zgoals:
                obs.extend((s, []) for s in singles)
                continue
            obs.append((Obligation(f'{base}:rt:{rec_path}{_SUFFIX[sens]}', kind='post', assumptions=asm,
                                   goal=z3.And(*zgoals), finding=sens,
                                   restricted=restr[sens] if sens else None,
                                   detail=f'load(dump(x)) == x restricted to LMF {version}: '
                                          f'{[l for l, _ in items]}'[:400], **cm), singles))
    return obs


# ---- counterexample replay: z3 model -> concrete record -> the real dump / load ------------------------------------

class Concretiser:
    def __init__(self, model):
        self.m = model
        self.names: dict = {}
        for s, c in LITS.by_text.items():
            v = model.eval(c, model_completion=True)
            self.names[str(v)] = s

    def string(self, z) -> str:
        v = str(self.m.eval(z, model_completion=True))
        if v not in self.names:
            self.names[v] = f'v{len(self.names)}'
        return self.names[v]

    def truth(self, b) -> bool:
        if isinstance(b, bool):
            return b
        return z3.is_true(self.m.eval(b, model_completion=True))

    def value(self, v, depth=0):
        if isinstance(v, SV):
            if v.kind == 'str':
                return self.string(v.z)
            if v.kind == 'bool':
                return self.truth(v.z)
            if v.kind == 'int':
                return self.m.eval(v.z, model_completion=True).as_long()
            return str(self.m.eval(v.z, model_completion=True))
        if isinstance(v, SOptRec):
            return self.value(v.rec, depth) if self.truth(v.present) else None
        if isinstance(v, SRec):
            return {k: self.value(s.value, depth + 1) for k, s in v.slots.items() if self.truth(s.present)}
        if isinstance(v, SList):
            n = self.m.eval(v.length, model_completion=True).as_long()
            n = max(0, min(n, 3))
            return [self.value(v.at(z3.IntVal(i)), depth + 1) for i in range(n)]
        if v is None or isinstance(v, (str, int, bool)):
            return v
        return repr(v)


def wrap_for_roundtrip(group: str, rec: dict, version: str) -> dict:
    """A minimal resource holding the record of `group`."""
    lex = {'id': 'w', 'label': 'L', 'language': 'en', 'email': 'e', 'license': 'l', 'version': '1', 'meta': None}
    external = bool(rec.get('external')) if isinstance(rec, dict) else False
    if group == 'lexicon':
        return {'lmf_version': version, 'lexicons': [rec]}
    if external:
        lex['extends'] = {'id': 'base', 'version': '1'}
    lemma = {'writtenForm': 'w', 'partOfSpeech': 'n'}
    if group == 'lemma':
        e = {'id': 'w-e', 'lemma': rec}
        e.update({'external': True} if external else {'meta': None})
        lex['entries'] = [e]
    elif group == 'form':
        lex['entries'] = [{'id': 'w-e', 'meta': None, 'lemma': lemma, 'forms': [rec]}]
        if external:
            lex['entries'] = [{'id': 'w-e', 'external': True, 'forms': [rec]}]
    elif group == 'sense':
        lex['entries'] = [{'id': 'w-e', 'meta': None, 'lemma': lemma, 'senses': [rec]}]
        if external:
            lex['entries'] = [{'id': 'w-e', 'external': True, 'senses': [rec]}]
    elif group == 'frame':
        if version == '1.0':
            lex['entries'] = [{'id': 'w-e', 'meta': None, 'lemma': lemma, 'frames': [rec]}]
        else:
            lex['frames'] = [rec]
    elif group == 'synset':
        lex['synsets'] = [rec]
    elif group == 'entry':
        lex['entries'] = [rec]
    return {'lmf_version': version, 'lexicons': [lex]}


def make_replay(group: str, version: str, x: SRec):
    """replay(result) for an obligation of the round trip of `group`: the solver's model as a concrete record, run
    through the real lmf.dump / lmf.load; reproduced iff the reloaded resource differs from the dumped one
    (restricted to the version) or the real code raises."""
    def replay(res):
        import os
        import tempfile
        if res.z3model is None:
            return {'reproduced': False}
        m = small_model(res, [x])
        from bounded import lmfgen
        from bounded.lmf_roundtrip import diff
        rec = Concretiser(m).value(x)
        resource = wrap_for_roundtrip(group, rec, version)
        out = {'input_resource': resource, 'call': f'lmf.dump(resource, f); lmf.load(f)  [LMF {version}]'}
        d = tempfile.mkdtemp(prefix='wnreplay')
        try:
            p = os.path.join(d, 'r.xml')
            lmf.dump(resource, p)
            back = lmf.load(p, progress_handler=None)
            want = lmfgen.project(resource, version)
            delta = diff(back, want)
            out['observed'] = '; '.join(delta) if delta else 'round trip is the identity on this input'
            out['reproduced'] = bool(delta)
        except Exception as exc:   # noqa: BLE001
            out['observed'] = f'{type(exc).__name__}: {exc}'
            out['reproduced'] = True
        finally:
            import shutil
            shutil.rmtree(d, ignore_errors=True)
        return out
    return replay


def length_caps(v, cap: int, depth: int = 0) -> list:
    """Constraints 0 <= len <= cap for every list reachable from the record (elements 0..cap-1 instantiated)."""
    out = []
    if depth > 6:
        return out
    if isinstance(v, SOptRec):
        v = v.rec
    if isinstance(v, SRec):
        for s in v.slots.values():
            out += length_caps(s.value, cap, depth + 1)
    elif isinstance(v, SList):
        out += [v.length >= 0, v.length <= cap]
        for i in range(cap):
            out += length_caps(v.at(z3.IntVal(i)), cap, depth + 1)
    return out


def small_model(res, records, caps=(1, 2, 3)):
    """A model of the refuted obligation with short lists (so that the witness survives concretisation); falls back
    to the solver's own model."""
    ob = res.ob
    for cap in caps:
        s = z3.Solver()
        s.set('timeout', 8000)
        from vc.core import relevant_axioms
        for a in list(ob.assumptions) + relevant_axioms(ob):
            s.add(a)
        s.add(z3.Not(ob.goal))
        for r in records:
            for c in length_caps(r, cap):
                s.add(c)
        if s.check() == z3.sat:
            return s.model()
    return res.z3model
