"""Row-image obligations for wn/_add.py: every _insert_* / _update_lookup_tables / _insert_lexicon is executed
symbolically (real body) inside the symbolic execution of the real _add_lexical_resource, and at each call its
effect log (INSERT/UPDATE statements, their SQL text and parameter families) is compared with the statements the
sidecar specification (contracts/spec_add.py) prescribes for the same arguments:

   <fn>:statements      same tables, same conflict clauses, in the same order
   <fn>:<table>:rows    family equality of the row images (column by column, one row per element, same order)
   <fn>:<table>:bind    placeholders and parameters align (count, kinds)
   <fn>:update:...      SET values and WHERE condition equivalent for a generic row
"""
from __future__ import annotations

import z3

import wn._add as A
from vc.core import Obligation, Session, Unsupported
from vc.pyvc.values import (SV, SObj, SRec, SList, Seq, Lit, Loop, Slot, LITS, z_and, z_or, z_not, z_bool, lift,
                            fresh_name)
from vc.pyvc.interp import (Event, MList, MDict, MSet, ParamSeq, PyRaise, map_seq, source_span, Closure)
from vc.pyvc import famcmp
from vc.pyvc.dbmodel import World, flatten_params, ConnObj
from vc.sqlvc import parse as P
from vc.sqlvc.encode import Encoder, Params, BindError, Scope
from contracts import spec_add, addmodel
from contracts.common import lit_axioms

CHECKED = {
    '_insert_entries': 'spec_insert_entries',
    '_insert_forms': 'spec_insert_forms',
    '_insert_pronunciations': 'spec_insert_pronunciations',
    '_insert_tags': 'spec_insert_tags',
    '_insert_senses': 'spec_insert_senses',
    '_insert_adjpositions': 'spec_insert_adjpositions',
    '_insert_counts': 'spec_insert_counts',
    '_insert_synsets': 'spec_insert_synsets',
    '_insert_synset_definitions': 'spec_insert_synset_definitions',
    '_insert_synset_relations': 'spec_insert_synset_relations',
    '_insert_examples': 'spec_insert_examples',
    '_insert_sense_relations': 'spec_insert_sense_relations',
    '_insert_syntactic_behaviours': 'spec_insert_syntactic_behaviours',
    '_update_lookup_tables': 'spec_update_lookup_tables',
    '_insert_lexicon': 'spec_insert_lexicon',
}


class _Shim:
    """Stands in for the interpreter when named parameters are read from a record copy: a missing key would
    make sqlite3 raise (no value supplied for the binding) - collected as conditions of the bind obligation."""

    def __init__(self, needs):
        self.needs = needs

        class _C:
            preds = []
            generic = []
        self.ctx = _C()

    def safety_check(self, cond, exc_type, node, what):
        self.needs.append((cond, what))


class RowObj(SObj):
    """A generic row of a table for UPDATE conditions: attributes are the columns."""

    def __init__(self, db, table, r):
        super().__init__(type('Row', (), {}), name=f'{table}@{r}')
        self.db, self.table, self.r = db, table, r

    def vc_getattr(self, it, name, node):
        return self.db.value(self.table, name, self.r)


def dsl_contracts(world: World, conn_of) -> dict:
    """row / ROWID / NEWROWID used by the specifications."""

    def h_row(it, args, kwargs, node):
        d = MDict()
        for k, v in kwargs.items():
            d.d[k] = v
        return d

    def h_rowid(it, args, kwargs, node):
        table = args[0]
        kwargs = dict(kwargs)
        join = kwargs.pop('_join', None)
        enc = Encoder(world.db, Params())
        keys = []
        jkeys = []
        for k, v in kwargs.items():
            if join and k.startswith(join[0] + '.'):
                jkeys.append((k.split('.', 1)[1], v))
            else:
                keys.append((k, v))
        if join:
            jrow = enc.lookup(join[0], 'rowid', sorted(jkeys, key=lambda kv: kv[0]))
            keys.append((join[1], jrow))
        keys.sort(key=lambda kv: kv[0])
        res = enc.lookup(table, 'rowid', keys)
        for s in enc.side:
            it.ctx.assume(s)
        return res

    def h_newrowid(it, args, kwargs, node):
        return conn_of(it).lastrowid_v

    return {spec_add.__dict__.get('row', 'contracts.spec_add.row'): h_row, 'row': h_row}, h_row, h_rowid, h_newrowid


def make_checked(world: World, name: str):
    fn = getattr(A, name)
    spec = getattr(spec_add, CHECKED[name])

    def handler(it, args, kwargs, node):
        n0 = len(it.ctx.effects)
        p0 = len(it.ctx.preds)
        conn = getattr(it, '_vc_conn', None)
        ret = it.call_function(fn, args, kwargs)
        real_events = [e for e in it.ctx.effects[n0:] if e.kind in ('execute', 'executemany')]
        conn = getattr(it, '_vc_conn', None)
        if name == '_insert_lexicon':
            # the rowid of the new lexicons row (cursor.lastrowid right after the INSERT)
            conn.lastrowid_v = ret[0] if isinstance(ret, tuple) else conn.lastrowid_v
        n1 = len(it.ctx.effects)
        exp = it.call_function(spec, args, kwargs)
        upd = {}
        if isinstance(exp, MList):
            for k, node_ in enumerate(exp.nodes):
                item = node_.elem if isinstance(node_, Lit) else None
                if isinstance(item, tuple) and item and item[0] == 'update':
                    r = z3.Int(fresh_name('upd_row'))
                    c = it.truth(it.call(item[3], [RowObj(world.db, item[1], r)], {}))
                    upd[k] = (r, z_bool(c))
        exp_ret = None
        if name == '_insert_lexicon':
            exp_ret = it.call_function(spec_add.spec_insert_lexicon_returns, args[:1], {})
        del it.ctx.effects[n1:]        # specifications are pure
        it.ctx.effects.append(Event('contract', guard=it.ctx.current_guard(), binders=list(it.ctx.all_binders()),
                                    node=node, extra={'fn': name, 'real': real_events, 'spec': exp, 'ret': ret,
                                                      'assumptions': it.ctx.assumptions(), 'p0': p0,
                                                      'args': args, 'upd': upd, 'exp_ret': exp_ret,
                                                      'assumptions_after': it.ctx.assumptions()},
                                    pc_len=len(it.ctx.pc)))
        return ret
    return handler


def explore_checked(world: World):
    conn_holder = {}

    def conn_of(it):
        return it._vc_conn
    _, h_row, h_rowid, h_newrowid = dsl_contracts(world, conn_of)
    contracts = {}
    for name in CHECKED:
        contracts[getattr(A, name)] = make_checked(world, name)
    # DSL names are plain globals of spec_add: inject handlers as AbstractFn objects
    from vc.pyvc.interp import AbstractFn
    spec_add.row = AbstractFn('row', h_row)
    spec_add.ROWID = AbstractFn('ROWID', h_rowid)
    spec_add.NEWROWID = AbstractFn('NEWROWID', h_newrowid)
    res, outs = addmodel.explore_add(world, contracts)
    return res, outs


def insert_image(world: World, ev: Event, p0: int):
    """(table, conflict, Seq of MDict rows) of a real INSERT event."""
    stmt: P.Insert = ev.extra['stmt']
    table = world.schema.table(stmt.table)
    cols = stmt.columns or [c.name for c in table.columns]
    if len(cols) != len(stmt.values):
        raise BindError(f'INSERT INTO {stmt.table}: {len(stmt.values)} values for {len(cols)} columns')
    nparam = ev.extra['nparam']
    side = []
    needs = []

    def image_of(params_value):
        p = flatten_params(params_value)
        if p.positional and len(p.positional) != nparam:
            raise BindError(f'INSERT INTO {stmt.table}: {len(p.positional)} parameters for {nparam} placeholders')
        enc = Encoder(world.db, p)
        rec = getattr(p, 'rec', None)
        if rec is not None:
            from vc.pyvc.dbmodel import _RecParams
            enc.params = _RecParams(p, rec, _Shim(needs))
        d = MDict()
        for c, vexpr in zip(cols, stmt.values):
            col = table.col(c)
            if isinstance(vexpr, P.LitV) and vexpr.value is None and col is not None and col.pk:
                continue       # null for INTEGER PRIMARY KEY = new rowid
            d.d[c] = enc.expr(vexpr, Scope())
        side.extend(enc.side)
        return d
    if ev.kind == 'execute':
        rows = Seq([Lit(image_of(ev.params), z_and(*ev.extra.get('preds', [])[p0:]))])
    else:
        src = ev.params
        if isinstance(src, MList):
            seq = src.as_seq()
        elif isinstance(src, Seq):
            seq = src
        elif hasattr(src, 'as_seq'):
            seq = src.as_seq()
        else:
            raise Unsupported(f'executemany parameters of type {type(src).__name__}')
        rows = map_seq(seq, image_of)
    conflict = stmt.or_action
    if stmt.do_update is not None or stmt.do_nothing:
        conflict = 'UPSERT'
    return stmt.table, conflict, rows, side


def return_obligations(world: World, qn: str, ev: Event, common: dict) -> list:
    """The value handed back to the caller (here: the rowids later used to resolve every reference of the lexicon)."""
    ret, exp = ev.extra['ret'], ev.extra['exp_ret']
    asm = list(ev.extra['assumptions_after']) + lit_axioms()
    obs = []
    if not (isinstance(ret, tuple) and isinstance(exp, tuple) and len(ret) == len(exp)):
        return [Obligation(f'{qn}:returns', kind='post', decided=False, detail='shape of the returned value', **common)]
    for k, (a, b) in enumerate(zip(ret, exp)):
        if not (isinstance(a, SV) and isinstance(b, SV)):
            obs.append(Obligation(f'{qn}:returns[{k}]', kind='post', decided=a is b, detail='returned value', **common))
            continue
        # UNIQUE (id, version) of lexicons, instantiated for the two row terms
        uniq = world.db.ground_unique([('lexicons', a.z), ('lexicons', b.z)])
        goal = a.z == b.z
        if b.none is not None:
            goal = z3.Implies(z3.Not(b.none), goal)
        obs.append(Obligation(f'{qn}:returns[{k}]', kind='post', assumptions=asm + uniq, goal=goal,
                              detail='returns (rowid of the new lexicon, rowid of the base lexicon with exactly the id and '
                                     'version of <Extends>, or the new rowid itself)', **common))
    return obs


def contract_obligations(world: World, prop: str, out, ev: Event) -> list:
    name = ev.extra['fn']
    fn = getattr(A, name)
    qn = f'wn._add.{name}'
    base_asm = list(ev.extra['assumptions']) + lit_axioms()
    real = ev.extra['real']
    spec = ev.extra['spec']
    p0 = ev.extra['p0']
    common = dict(prop=prop, functions=(qn,), source=source_span(fn), assumptions_used=('A-SQLITE',))
    obs = []
    spec_items = spec.items() if isinstance(spec, MList) and spec.is_concrete() else None
    if spec_items is None:
        # statements appended under a condition (e.g. only for extensions): Lit nodes with guards
        spec_nodes = spec.nodes
        spec_items = []
        for n in spec_nodes:
            if not isinstance(n, Lit):
                raise Unsupported('specification with a symbolic number of statements')
            spec_items.append((n.elem, n.guard))
    else:
        spec_items = [(x, True) for x in spec_items]
    # align statements
    real_stmts = []
    for e in real:
        st = e.extra['stmt']
        if isinstance(st, (P.Select, P.WithStmt, P.Pragma)):
            continue
        real_stmts.append(e)
    kinds_real = [(type(e.extra['stmt']).__name__.lower(), e.extra['stmt'].table) for e in real_stmts]
    kinds_spec = [(s[0][0], s[0][1]) for s in spec_items]
    if kinds_real != kinds_spec:
        obs.append(Obligation(f'{qn}:statements', kind='post', decided=False,
                              detail=f'statements executed {kinds_real} differ from the prescribed {kinds_spec}',
                              **common))
        return obs
    obs.append(Obligation(f'{qn}:statements', kind='post', decided=True,
                          detail=f'{len(kinds_real)} statements in the prescribed order', **common))
    if ev.extra.get('exp_ret') is not None:
        obs.extend(return_obligations(world, qn, ev, common))
    for k_item, (e, (s, sguard)) in enumerate(zip(real_stmts, spec_items)):
        st = e.extra['stmt']
        e.extra.setdefault('preds', [])
        if isinstance(st, P.Insert):
            try:
                table, conflict, rows, side = insert_image(world, e, p0)
            except BindError as be:
                obs.append(Obligation(f'{qn}:{st.table}:bind', kind='sql', decided=False, detail=str(be), **common))
                continue
            obs.append(Obligation(f'{qn}:{st.table}:bind', kind='sql', decided=True,
                                  detail='placeholders and parameters align', **common))
            _, stable, sconf, srows = s
            if (conflict or None) != (sconf or None):
                obs.append(Obligation(f'{qn}:{table}:conflict', kind='sql', decided=False,
                                      detail=f'conflict clause {conflict!r} where {sconf!r} is prescribed', **common))
                continue
            sseq = srows.as_seq() if isinstance(srows, MList) else srows
            if sguard is not True:
                sseq = Seq([famcmp_with_guard(n, sguard) for n in sseq.nodes])
            if e.kind == 'execute':
                g = z_and(*[x for x in []])
            try:
                goals = famcmp.seq_goals(rows, sseq, base_asm + side, name=f'{table}')
            except famcmp.ShapeMismatch as sm:
                obs.append(Obligation(f'{qn}:{table}:rows', kind='post', decided=False,
                                      detail=f'stored rows have a different shape than prescribed: {sm}', **common))
                continue
            for gname, asm, goal in goals:
                obs.append(Obligation(f'{qn}:{table}:rows:{gname}', kind='post', assumptions=asm, goal=goal,
                                      detail=f'row image of {table} (columns, one row per element, order)',
                                      **common))
        elif isinstance(st, P.Update):
            _, stable, ssets, scond = s
            r = z3.Int(fresh_name('upd_row'))
            p = flatten_params(e.params)
            enc = Encoder(world.db, p)
            scope = Scope({st.table: ('table', st.table, r)}, [st.table])
            real_cond = enc.cond(st.where, scope) if st.where is not None else z3.BoolVal(True)
            obs_sets = []
            rsets = {c: enc.expr(v, scope) for c, v in st.sets}
            obs.append(Obligation(f'{qn}:update:{st.table}:set', kind='sql',
                                  assumptions=base_asm + enc.side,
                                  goal=z_bool(famcmp.value_eq(MDictOf(rsets), MDictOf(dict(ssets.d)))),
                                  detail='SET clause', **common))
            sr, sc = ev.extra['upd'][k_item]
            sc = z3.substitute(sc, (sr, r))
            obs.append(Obligation(f'{qn}:update:{st.table}:where', kind='sql',
                                  assumptions=base_asm + enc.side + [world.db.in_(st.table)(r)],
                                  goal=real_cond == sc,
                                  detail='WHERE clause selects exactly the prescribed rows', **common))
    return obs


def MDictOf(d):
    m = MDict()
    m.d = dict(d)
    return m


def famcmp_with_guard(node, g):
    from vc.pyvc.interp import _with_guard
    return _with_guard(node, g)


def run_row_images(sess: Session, prop: str, only=None):
    world = World()
    sess.assume('A-SQLITE', 'A-ENGINE', 'A-BATCH')
    res, outs = explore_checked(world)
    n = 0
    for out in outs:
        for ev in out.effects:
            if ev.kind != 'contract':
                continue
            if only is not None and ev.extra['fn'] not in only:
                continue
            n += 1
            try:
                for ob in contract_obligations(world, prop, out, ev):
                    sess.check(ob)
            except Unsupported as exc:
                sess.unsupported(f'wn._add.{ev.extra["fn"]}:row-image', str(exc))
    return world, res, outs
