"""C01 - the query API reports exactly the content of every added lexicon.

  1. row images        wn/_add.py: every _insert_* / _update_lookup_tables / _insert_lexicon stores exactly the rows the
                       sidecar specification prescribes (columns, one row per element, order, look-up keys)    pyvc+sqlvc
  2. query results     wn/_queries.py: every query returns exactly the specified family (sound, complete, no
                       duplicates, order, grouping)                                                           pyvc+sqlvc
  3. accessor flows    wn/_core.py: every accessor passes the right rowid / table / scope and builds its result from the
                       right columns                                                                          pyvc
  4. converters        columns holding dicts/bools are declared META/BOOLEAN and the converters are registered static
  5. bounded           _batch partitions its input; _collect_frames (dict-of-lists accumulation) against its
                       contract on all small lexicons                                              bounded, not proved
Composition (hand-argued glue, DESIGN §5 C01.4): a value stored by 1 under the key a query of 2 selects is what the
accessor of 3 returns.
"""
from __future__ import annotations

import ast
import inspect
import textwrap

import z3

import wn._db
import wn._add as A
from vc.core import Obligation, Session, Unsupported, REPO
from vc.pyvc.interp import source_span
from vc.sqlvc.schema import load_schema
from contracts import addchecks, querychecks, coreflows

PROP = 'C01'

# columns whose specified value is a dict (metadata) / bool: from the row-image specification
META_COLUMNS = [('lexicons', 'metadata'), ('entries', 'metadata'), ('senses', 'metadata'), ('synsets', 'metadata'),
                ('definitions', 'metadata'), ('sense_examples', 'metadata'), ('synset_examples', 'metadata'),
                ('counts', 'metadata'), ('synset_relations', 'metadata'), ('sense_relations', 'metadata'),
                ('sense_synset_relations', 'metadata'), ('ilis', 'metadata'), ('proposed_ilis', 'metadata')]
BOOL_COLUMNS = [('senses', 'lexicalized'), ('synsets', 'lexicalized'), ('pronunciations', 'phonemic'),
                ('lexicons', 'modified')]


def converter_obligations() -> list:
    schema = load_schema()
    obs = []
    src = str(REPO / 'wn' / 'schema.sql')
    for t, c in META_COLUMNS:
        col = schema.table(t).col(c)
        obs.append(Obligation(f'wn/schema.sql:decl:{t}.{c}', PROP, 'static', decided=col is not None and
                              col.decl == 'META', detail=f'declared {col.decl if col else None} (must be META so '
                              f'that the dict converter applies)', functions=('wn/schema.sql',), source=src))
    for t, c in BOOL_COLUMNS:
        col = schema.table(t).col(c)
        obs.append(Obligation(f'wn/schema.sql:decl:{t}.{c}', PROP, 'static', decided=col is not None and
                              col.decl == 'BOOLEAN', detail=f'declared {col.decl if col else None}',
                              functions=('wn/schema.sql',), source=src))
    # wn/_db.py registers adapter + converters under those declared names and connect() asks for PARSE_DECLTYPES
    tree = ast.parse((REPO / 'wn' / '_db.py').read_text())
    regs = {}
    for n in ast.walk(tree):
        if isinstance(n, ast.Call) and ast.unparse(n.func) in ('sqlite3.register_converter', 'sqlite3.register_adapter'):
            regs[ast.unparse(n.func) + ':' + ast.unparse(n.args[0])] = ast.unparse(n.args[1])
    want = {"sqlite3.register_converter:'meta'": '_convert_dict', "sqlite3.register_converter:'boolean'":
            '_convert_boolean', 'sqlite3.register_adapter:dict': '_adapt_dict'}
    for k, v in want.items():
        obs.append(Obligation(f'wn._db:converters:{k.split(":")[1]}', PROP, 'static', decided=regs.get(k) == v,
                              detail=f'{k} -> {regs.get(k)} (expected {v})', functions=('wn._db',)))
    # connect() asks for PARSE_DECLTYPES on every path (symbolic execution of connect(), shared with C05)
    from contracts import C05 as _c05
    for ob in _c05.pragma_obligations():
        if ob.name == 'wn._db.connect:converters:detect-types':
            ob.prop = PROP
            obs.append(ob)
    # the converters themselves: json round trip / bool(int(.)) - executed on the real functions (A-JSON)
    import json
    samples = [{}, {'note': 'x'}, {'source': 'a "quoted" <&> \t\n \U0001F600', 'confidenceScore': '0.5'}]
    rt = all(wn._db._convert_dict(wn._db._adapt_dict(d)) == d for d in samples)
    bl = wn._db._convert_boolean(b'0') is False and wn._db._convert_boolean(b'1') is True
    obs.append(Obligation('wn._db:converters:roundtrip', PROP, 'static', decided=rt and bl,
                          detail='_convert_dict(_adapt_dict(d)) == d on samples; _convert_boolean', functions=(
                              'wn._db._adapt_dict', 'wn._db._convert_dict', 'wn._db._convert_boolean'),
                          assumptions_used=('A-JSON',)))
    return obs


def build_lexid_map_obligations() -> list:
    from contracts import spec_add, addmodel
    from vc.pyvc import shapes
    from vc.pyvc.values import mk
    import wn.lmf as lmf
    lex = shapes.sym_record([lmf.Lexicon, lmf.LexiconExtension], 'lexicon')
    lexid, extid = mk('int', 'lexid'), mk('int', 'extid')
    return coreflows.compare_flows(PROP, 'wn._add._build_lexid_map', A._build_lexid_map,
                                   spec_build_lexid_map, [lex, lexid, extid], {})


def spec_build_lexid_map(lexicon, lexid, extid):
    # identifiers declared External... (entries, senses, synsets) belong to the extended lexicon
    m = {}
    if lexid != extid:
        m.update((e['id'], extid) for e in lexicon.get('entries', []) if e.get('external', False) is True)
        m.update((s['id'], extid) for e in lexicon.get('entries', []) for s in e.get('senses', [])
                 if s.get('external', False) is True)
        m.update((ss['id'], extid) for ss in lexicon.get('synsets', []) if ss.get('external', False) is True)
    return m


def bounded_checks(sess: Session):
    from bounded import add_bounded as B
    cases, bad = B.check_batch()
    sess.add_bounded('wn._add._batch', 'BATCH_SIZE in 1..4 x input length 0..13 x {list, iterator, generator}; '
                     'real BATCH_SIZE at lengths 0,1,N-1,N,N+1,2N,2N+1', cases, 'small-scope enumeration', not bad)
    if bad:
        sess.violation_direct('wn._add._batch:partition', 'batches do not partition the input',
                              {'witness': bad[0]}, True, functions=('wn._add._batch',))
    collect_frames_bounded(sess)
    order_bounded(sess)


def order_bounded(sess: Session):
    """The queries for tags, pronunciations, examples, counts and definitions have no ORDER BY: that they report document
    order rests on SQLite returning the rows of one parent in insertion order (trusted, A-SQLITE) - which also depends
    on the indexes schema.sql declares.  Observed here on a real database: one document whose repeated children are not
    in sorted order and contain repeats."""
    from bounded import order_doc
    try:
        bad = order_doc.check()
    except Exception as exc:   # noqa: BLE001 - add() or a query raises on this valid document
        import traceback
        bad = [('add() / query of the document', f'{type(exc).__name__}: {exc}', 'no exception; ' +
                traceback.format_exc().strip().splitlines()[-3].strip())]
    sess.add_bounded('wn.add + Form.tags / pronunciations, Sense.examples / counts, Synset.examples / definition, '
                     'Word.forms / senses (document order, repeats kept)', 'one document: 3 forms with 0-5 tags and 0-4 '
                     'pronunciations, 3 senses with 0-4 examples and counts, 3 synsets with 0-4 examples, 0-2 definitions; '
                     'none of the lists sorted, each with a repeat; a synset without partOfSpeech, pronunciations with '
                     'phonemic=false / notation / audio, empty metadata values, two sense-synset relations differing only in '
                     'dc:type', 1, 'real add() to a real database, public API', not bad)
    if bad:
        sess.violation_direct('wn.add/query:document-order', f'{bad[0][0]} reports {bad[0][1]}, the document has '
                              f'{bad[0][2]}', {'witness': [list(b) for b in bad[:4]]}, True,
                              functions=('wn._queries.get_form_tags', 'wn._queries.get_form_pronunciations',
                                         'wn._queries.get_examples', 'wn._queries.get_sense_counts'))


def collect_frames_bounded(sess: Session):
    from bounded import add_bounded as B
    cases, mutated, wrong = B.check_collect_frames()
    sess.add_bounded('wn._add._collect_frames', '<= 2 lexicon-level frames x 1 entry x <= 2 senses x all subcat '
                     'subsets x 4 entry-level frame variants', cases, 'small-scope enumeration', not (mutated or wrong))
    if mutated:
        sess.violation_direct('wn._add._collect_frames:frame(lexicon)',
                              'the lexicon passed in is modified (the caller\'s in-memory resource changes)',
                              {'witness': mutated[0]}, True, functions=('wn._add._collect_frames',))
    if wrong:
        sess.violation_direct('wn._add._collect_frames:result', 'sense-frame links differ from the contract',
                              {'witness': wrong[0]}, True, functions=('wn._add._collect_frames',))


def run(sess: Session):
    sess.assume('A-SQLITE', 'A-DECL', 'A-JSON', 'A-ORDER', 'A-ENGINE', 'A-BATCH')
    sess.trust('SQLite statement semantics as encoded by vc/sqlvc', 'PARSE_DECLTYPES applies the registered '
               'converters (A-DECL)', 'json round trip of str->str dicts (A-JSON)',
               'row order of SELECTs without ORDER BY left to SQLite (A-ORDER): examples, counts, tags, '
               'pronunciations, frames, definitions are compared as unordered families')
    addchecks.run_row_images(sess, PROP)
    querychecks.run_result_checks(sess, PROP)
    coreflows.run_flows(sess, PROP)
    for part, fn in (('converters', converter_obligations), ('lexidmap', build_lexid_map_obligations),
                     ('no-raise', add_no_raise_obligations), ('batch-loops', batch_loop_obligations)):
        try:
            for ob in fn():
                sess.check(ob)
        except Unsupported as exc:
            sess.unsupported(f'C01:{part}', str(exc))
    bounded_checks(sess)
    # 'no character of any stored string is altered': what the loader does to element text (shared with C20)
    from contracts import C20 as _c20
    _c20.normalize_space_bounded(sess)
    sess.note('composition of 1-3 into the per-observable statements of the property is hand-argued (DESIGN §5 C01.4)')


def add_no_raise_obligations() -> list:
    """A valid document (a resource in the loader's normal form: every element is an instance of one of its
    TypedDict alternatives) never makes the real _insert_* code raise KeyError / TypeError / IndexError /
    AttributeError: every subscript of an optional key is guarded."""
    from contracts import lmfrt, addmodel
    from contracts.common import lit_axioms
    from vc.pyvc.dbmodel import World
    from vc.pyvc.values import SList, SRec, SOptRec
    from wn import lmf
    world = World()
    res, outs = addmodel.explore_add(world)
    obs = []
    name = 'wn._add._add_lexical_resource'
    cm = dict(prop=PROP, functions=(name,), source=source_span(A._add_lexical_resource), assumptions_used=())
    for n, o in enumerate(outs):
        if o.kind == 'raise' and o.exc.exc_type in (KeyError, TypeError, IndexError, AttributeError):
            obs.append(Obligation(f'{name}:no-raise:p{n}', kind='safety', assumptions=list(o.pc) + lit_axioms(),
                                  goal=z3.BoolVal(False),
                                  detail=f'{o.exc.exc_type.__name__} {o.exc.args} on a valid resource', **cm))
            continue
        for k, (exc_type, assumptions, node, what, *rest) in enumerate(o.may_raise):
            if exc_type not in (KeyError, TypeError, IndexError, AttributeError):
                continue
            if exc_type is TypeError and 'NoneType' in str(what) and 'not subscriptable' in str(what):
                # cur.execute(base lexicon look-up).fetchone()[0] for a lexicon extension: the row exists because
                # _precheck skips extensions whose base is not installed (obligation of C07, not repeated here)
                continue
            binders = rest[0] if rest else []
            nf = lmfrt.NF()
            root = lmfrt.nf_record([lmf.LexicalResource], 'res', nf)
            # normal-form facts of the elements the failing statement is about (the binders' list elements)
            for b in binders:
                key = getattr(b, 'key', None) or ()
                if len(key) < 2 or key[0] != 'list' or not str(key[1]).startswith('res.'):
                    continue
                parts = str(key[1]).split('.')[1:]
                cur = root
                ok = True
                used = [x for x in binders if (getattr(x, 'key', None) or ('', ''))[0] == 'list']
                for depth, part in enumerate(parts):
                    slot = cur.slots.get(part) if isinstance(cur, SRec) else None
                    if slot is None or not isinstance(slot.value, SList):
                        ok = False
                        break
                    want = 'res.' + '.'.join(parts[:depth + 1])
                    bb = [x for x in used if x.key[1] == want]
                    if not bb:
                        ok = False
                        break
                    cur = slot.value.at(bb[0].var)
                if not ok:
                    continue
            line = getattr(node, 'lineno', '?')
            obs.append(Obligation(f'{name}:no-raise#{k}', kind='safety',
                                  assumptions=list(assumptions[:-1]) + list(nf.facts) + lit_axioms(),
                                  goal=z3.Not(assumptions[-1]),
                                  detail=f'{exc_type.__name__} ({what}) at line {line} of the enclosing function: a '
                                         f'valid document must not make the insert code raise', **cm))
    return obs


def batch_loop_obligations() -> list:
    """Side condition of the chunk homomorphism (A-BATCH) under which the body of `for batch in _batch(xs)` is
    executed once on a generic chunk: apart from the database cursor and the progress handler, the body carries no
    state from one batch to the next - every container it mutates and every name it re-binds is (re)created inside
    the body before use.  Decided on the AST of wn/_add.py."""
    import ast as _ast
    from wn import _add
    obs = []
    src = inspect.getsource(_add)
    tree = _ast.parse(src)
    MUT = {'append', 'extend', 'add', 'update', 'setdefault', 'insert', 'pop', 'clear', 'remove', 'discard',
           'appendleft', 'popitem'}
    ALLOWED = {'cur', 'progress', 'conn'}
    nloops = 0
    for fn in [n for n in _ast.walk(tree) if isinstance(n, _ast.FunctionDef)]:
        for loop in [n for n in _ast.walk(fn) if isinstance(n, _ast.For)]:
            it = loop.iter
            if not (isinstance(it, _ast.Call) and isinstance(it.func, _ast.Name) and it.func.id == '_batch'):
                continue
            nloops += 1
            bound = {}       # name -> first line where the body binds it
            for node in _ast.walk(_ast.Module(body=loop.body, type_ignores=[])):
                targets = []
                if isinstance(node, _ast.Assign):
                    targets = node.targets
                elif isinstance(node, (_ast.AnnAssign,)):
                    targets = [node.target]
                elif isinstance(node, _ast.For):
                    targets = [node.target]
                for t in targets:
                    for nm in _ast.walk(t):
                        if isinstance(nm, _ast.Name) and isinstance(nm.ctx, _ast.Store):
                            bound.setdefault(nm.id, node.lineno)
            carried = []
            for node in _ast.walk(_ast.Module(body=loop.body, type_ignores=[])):
                recv = None
                if isinstance(node, _ast.Call) and isinstance(node.func, _ast.Attribute) and node.func.attr in MUT:
                    recv = node.func.value
                elif isinstance(node, _ast.AugAssign):
                    recv = node.target
                elif isinstance(node, (_ast.Assign, _ast.Delete)):
                    for t in (node.targets if isinstance(node, (_ast.Assign, _ast.Delete)) else []):
                        if isinstance(t, _ast.Subscript):
                            recv = t.value
                while isinstance(recv, (_ast.Subscript, _ast.Attribute)):
                    recv = recv.value
                if isinstance(recv, _ast.Name) and recv.id not in ALLOWED:
                    if recv.id not in bound or bound[recv.id] > node.lineno:
                        carried.append(f'{recv.id} (line {node.lineno})')
            # carried state that is written to the database INSIDE the loop is re-written by every later batch (a
            # certain defect as soon as there are two batches); carried state that is only consumed after the loop
            # may be fine, but the once-per-generic-chunk execution cannot justify it: unsupported, not a violation
            names = {c.split(' ')[0] for c in carried}
            written_inside = set()
            for node in _ast.walk(_ast.Module(body=loop.body, type_ignores=[])):
                if isinstance(node, _ast.Call) and isinstance(node.func, _ast.Attribute) and \
                        node.func.attr in ('execute', 'executemany', 'executescript'):
                    for a in node.args:
                        for nm in _ast.walk(a):
                            if isinstance(nm, _ast.Name) and nm.id in names:
                                written_inside.add(nm.id)
            if carried and not written_inside:
                raise Unsupported(f'wn._add.{fn.name}: the loop over _batch(...) at line {loop.lineno} keeps state across '
                                  f'batches ({sorted(names)}); the chunk abstraction does not cover it')
            obs.append(Obligation(f'wn._add.{fn.name}:batch-loop@{loop.lineno - fn.lineno}:no-carried-state', PROP,
                                  'static', decided=not carried,
                                  detail=('the body mutates state created outside the loop over batches: '
                                          + ', '.join(sorted(set(carried))) if carried else
                                          'every container mutated in the body is created in the body'),
                                  functions=(f'wn._add.{fn.name}',), source=f'wn/_add.py:{loop.lineno}',
                                  assumptions_used=('A-BATCH',)))
    obs.append(Obligation('wn._add:batch-loops:found', PROP, 'static', decided=nloops > 0,
                          detail=f'{nloops} loops over _batch(...)', functions=('wn._add',)))
    return obs
