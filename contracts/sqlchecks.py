"""Scoping and non-interference (2-safety) obligations over the SQL that the real query functions build."""
from __future__ import annotations

import inspect
from typing import Any, Optional

import z3

from vc.core import Obligation, Session, Unsupported
from vc.pyvc.values import (SV, SList, Seq, Lit, Loop, Binder, LITS, SORTS, z_and, z_or, z_not, z_bool)
from vc.pyvc.interp import explore, Outcome, MList, PyRaise
from vc.pyvc.dbmodel import World, SqlResult
from vc.pyvc import famcmp
from vc.sqlvc.encode import DB, seq_has
from vc.sqlvc.schema import Schema
from contracts.common import sym_args_for, fn_name, path_id, lit_axioms, all_leaves
from vc.pyvc.interp import source_span

# tables whose rows are not owned by a lexicon (shared lookup tables)
SHARED = {'ilis', 'ili_statuses', 'relation_types', 'lexfiles'}
# tables owned through a parent row: table -> (fk column, parent table)
OWNED_VIA = {
    'pronunciations': ('form_rowid', 'forms'),
    'tags': ('form_rowid', 'forms'),
    'adjpositions': ('sense_rowid', 'senses'),
    'proposed_ilis': ('synset_rowid', 'synsets'),
    'syntactic_behaviour_senses': ('syntactic_behaviour_rowid', 'syntactic_behaviours'),
    'lexicon_dependencies': ('dependent_rowid', 'lexicons'),
    'lexicon_extensions': ('extension_rowid', 'lexicons'),
}


def owner_term(db: DB, table: str, row):
    """z3 Int term: rowid of the lexicon owning `row` of `table`; None for shared tables."""
    if table in SHARED:
        return None
    if table == 'lexicons':
        return row
    t = db.schema.table(table)
    if t.col('lexicon_rowid') is not None:
        return db.col(table, 'lexicon_rowid')(row)
    if table in OWNED_VIA:
        fk, parent = OWNED_VIA[table]
        return owner_term(db, parent, db.col(table, fk)(row))
    raise Unsupported(f'no ownership rule for table {table}')


def concrete_owner(schema: Schema, table: str, row: dict, rows: dict):
    if table in SHARED:
        return None
    if table == 'lexicons':
        return row['__rowid__']
    if 'lexicon_rowid' in row:
        return row['lexicon_rowid']
    if table in OWNED_VIA:
        fk, parent = OWNED_VIA[table]
        prow = rows.get(parent, {}).get(row.get(fk))
        if prow is None:
            return -1
        return concrete_owner(schema, parent, prow, rows)
    return -1


def fk_closure(schema: Schema, keep: dict, rows: dict) -> dict:
    work = [(t, rid) for t, rs in keep.items() for rid in rs]
    while work:
        t, rid = work.pop()
        row = rows[t][rid]
        for fk in schema.table(t).fks:
            v = row.get(fk.column)
            if v is not None and v in rows.get(fk.ref_table, {}) and v not in keep.get(fk.ref_table, {}):
                keep.setdefault(fk.ref_table, {})[v] = rows[fk.ref_table][v]
                work.append((fk.ref_table, v))
    return keep


def make_scoping_replay(fn, args: dict, scope_name: str, world: World, seeds: list):
    """Differential replay on the real function: model database vs. the same database without the rows owned
    by lexicons outside the scope."""
    from vc.sqlvc import replay as R
    import tempfile
    from pathlib import Path

    def replay(res):
        conc = R.Concretizer(res.z3model)
        rows = R.rows_from_model(conc, world.db, seeds)
        cargs = R.concretize_args(conc, args, rows)
        scope = cargs[scope_name]
        schema = world.schema
        keep = {}
        for t, rs in rows.items():
            for rid, row in rs.items():
                ow = concrete_owner(schema, t, row, rows)
                if ow is not None and ow in scope:
                    keep.setdefault(t, {})[rid] = row
        keep = fk_closure(schema, keep, rows)
        tmp = Path(tempfile.mkdtemp(prefix='wnverif_'))
        try:
            R.build_database(schema, rows, tmp / 'full.db')
            R.build_database(schema, keep, tmp / 'scope.db')
            name = fn_name(fn)
            try:
                full = R.run_real(name, cargs, tmp / 'full.db')
            except Exception as exc:
                full = f'raised {type(exc).__name__}: {exc}'
            try:
                only = R.run_real(name, cargs, tmp / 'scope.db')
            except Exception as exc:
                only = f'raised {type(exc).__name__}: {exc}'
        finally:
            import shutil
            shutil.rmtree(tmp, ignore_errors=True)
        return {'reproduced': full != only, 'call': name, 'arguments': R._jsonable(cargs),
                'database_rows': R._jsonable(rows), 'rows_owned_by_scope': R._jsonable(keep),
                'observed_on_model_database': full,
                'observed_without_rows_outside_scope': only,
                'expected': 'identical results (rows owned by lexicons outside the scope must not matter)'}
    return replay


def make_2db_replay(fn, args: dict, w1: World, w2: World, seeds1: list, seeds2: list):
    from vc.sqlvc import replay as R
    import tempfile
    from pathlib import Path

    def replay(res):
        conc = R.Concretizer(res.z3model)
        rows1 = R.rows_from_model(conc, w1.db, seeds1)
        rows2 = R.rows_from_model(conc, w2.db, seeds2)
        allrows = {t: {**rows1.get(t, {}), **rows2.get(t, {})} for t in set(rows1) | set(rows2)}
        cargs = R.concretize_args(conc, args, allrows)
        tmp = Path(tempfile.mkdtemp(prefix='wnverif_'))
        name = fn_name(fn)
        try:
            R.build_database(w1.schema, rows1, tmp / 'db1.db')
            R.build_database(w1.schema, rows2, tmp / 'db2.db')
            outs = []
            for f in ('db1.db', 'db2.db'):
                try:
                    outs.append(R.run_real(name, cargs, tmp / f))
                except Exception as exc:
                    outs.append(f'raised {type(exc).__name__}: {exc}')
        finally:
            import shutil
            shutil.rmtree(tmp, ignore_errors=True)
        return {'reproduced': outs[0] != outs[1], 'call': name, 'arguments': R._jsonable(cargs),
                'database_1_rows': R._jsonable(rows1), 'database_2_rows': R._jsonable(rows2),
                'observed_on_database_1': outs[0], 'observed_on_database_2': outs[1],
                'expected': 'identical results: the two databases agree on everything owned by the scope'}
    return replay


def k1_restriction(dbs: list) -> list:
    """Formal restriction of known finding K1: no extension contributes forms / senses to entities of another
    lexicon, and tags / pronunciations are only attached by the lexicon owning the form."""
    out = []
    r = z3.Int('r')
    st = lambda t: z3.Function(f'stable[{t}]', z3.IntSort(), z3.BoolSort())
    for db in dbs:
        fin = db.in_('forms')(r)
        out.append(z3.ForAll([r], z3.Implies(fin, db.col('forms', 'lexicon_rowid')(r) ==
                                             db.col('entries', 'lexicon_rowid')(db.col('forms', 'entry_rowid')(r))),
                             patterns=[fin]))
        sin = db.in_('senses')(r)
        out.append(z3.ForAll([r], z3.Implies(sin, z3.And(
            db.col('senses', 'lexicon_rowid')(r) ==
            db.col('entries', 'lexicon_rowid')(db.col('senses', 'entry_rowid')(r)),
            db.col('senses', 'lexicon_rowid')(r) ==
            db.col('synsets', 'lexicon_rowid')(db.col('senses', 'synset_rowid')(r)))), patterns=[sin]))
        for t in ('tags', 'pronunciations'):
            tin = db.in_(t)(r)
            out.append(z3.ForAll([r], z3.Implies(z3.And(tin, st('forms')(db.col(t, 'form_rowid')(r))),
                                                 st(t)(r)), patterns=[tin]))
    return out


def explore_query(fn, args: dict, world: World, extra_contracts: Optional[dict] = None, pre=()):
    contracts = world.contracts()
    if extra_contracts:
        contracts.update(extra_contracts)
    return explore(lambda it: it.call(fn, [], dict(args)), contracts=contracts, pre=pre)


def nested_binders(guard) -> list:
    """Existentially quantified row binders inside a guard (IN (SELECT ...)): returns [(vars, body)]."""
    out = []

    def walk(t):
        if z3.is_quantifier(t):
            if t.is_exists():
                n = t.num_vars()
                vs = [z3.Const(t.var_name(i) + '?n', t.var_sort(i)) for i in range(n)]
                body = z3.substitute_vars(t.body(), *reversed(vs))
                out.append((vs, body))
                walk(body)
            return
        if z3.is_app(t):
            for c in t.children():
                walk(c)
    if guard is not True and guard is not False:
        walk(guard)
    return out


def table_rows_in(formula, db: DB) -> list:
    """(table, rowterm) for every application T.in(row) occurring positively as a conjunct."""
    out = []

    def walk(t):
        if z3.is_and(t):
            for c in t.children():
                walk(c)
        elif z3.is_app(t) and t.decl().name().endswith('.in' + db.tag) and t.num_args() == 1:
            name = t.decl().name()
            table = name[:-len('.in' + db.tag)] if db.tag else name[:-3]
            out.append((table, t.arg(0)))
    walk(formula)
    return out


def scoping_obligations(sess: Session, fn, out: Outcome, world: World, scope_seq: SList, prop: str,
                        extra_assumptions=(), finding_for=None, companions=(), args=None,
                        scope_name='lexicon_rowids') -> list:
    """Every row of a lexicon-owned table that the SELECTs of this path range over is owned by a member of
    the scope sequence."""
    obs = []
    db = world.db
    in_s = seq_has(scope_seq, 'int')
    name = fn_name(fn)
    pid = path_id(out)
    k = 0

    for ev in out.effects:
        if ev.kind != 'execute' or 'seq' not in ev.extra:
            continue
        seq: Seq = ev.extra['seq']
        for binders, guard, elem, loops in seq.leaves():
            cons = [b.constraint for b in binders]
            base = list(out.pc[:ev.pc_len]) + list(extra_assumptions) + cons + [z_bool(guard)] + \
                lit_axioms()
            seeds = [(b.key[1], b.var) for b in binders if b.key and b.key[0] == 'table']
            nested = nested_binders(z_bool(guard))
            for vs, body in nested:
                seeds += table_rows_in(body, db)
            rp = make_scoping_replay(fn, args, scope_name, world, seeds) if args is not None else None
            uniq = db.ground_unique(seeds)
            for b in binders:
                if b.key and b.key[0] == 'table':
                    table, alias = b.key[1], b.key[2]
                    if alias in companions:
                        continue     # row reached through a foreign key of an in-scope row (see 2-safety)
                    ow = owner_term(db, table, b.var)
                    if ow is None:
                        continue
                    fid = finding_for(name, alias) if finding_for else None
                    obs.append(Obligation(
                        f'{name}:scoping:{alias}:{pid}', prop, 'sql', base, in_s(ow),
                        detail=f'row of {table} AS {alias} used by the query must be owned by a selected lexicon',
                        functions=(name,), assumptions_used=('A-SQLITE',), finding=fid,
                        model_vars=[b.var, ow], source=source_span(fn), replay=rp, realizability=uniq,
                        restricted=k1_restriction([db]) if fid == 'K1' else None))
            # rows bound inside IN (SELECT ...) sub-queries
            for vs, body in nested:
                for table, row in table_rows_in(body, db):
                    ow = owner_term(db, table, row)
                    if ow is None:
                        continue
                    k += 1
                    fid = finding_for(name, 'sub:' + table) if finding_for else None
                    obs.append(Obligation(
                        f'{name}:scoping:sub.{table}:{pid}', prop, 'sql', base + [body], in_s(ow),
                        detail=f'row of {table} matched inside a sub-select must be owned by a selected lexicon',
                        functions=(name,), assumptions_used=('A-SQLITE',), finding=fid,
                        model_vars=[row, ow], source=source_span(fn), realizability=uniq,
                        restricted=k1_restriction([db]) if fid == 'K1' else None,
                        replay=make_scoping_replay(fn, args, scope_name, world,
                                                   seeds + [(t2, r2) for t2, r2 in table_rows_in(body, db)])
                        if args is not None else None))
    return obs


# ---------------------------------------------------------------------------------------------
# 2-safety: two database states that agree on everything owned by the scope

def agreement_axioms(schema: Schema, db1: DB, db2: DB, in_s, restrict_tables=None) -> list:
    """db1 and db2 agree on every row owned by a lexicon in S, on the lexicons rows of S, and on rows of the
    shared tables that exist in both; both satisfy the declared foreign keys (A-SQLITE + C05.3)."""
    ax = []
    r = z3.Int('r')
    stable = {t: z3.Function(f'stable[{t}]', z3.IntSort(), z3.BoolSort()) for t in schema.tables}
    for t in schema.tables.values():
        if restrict_tables is not None and t.name not in restrict_tables:
            continue
        cols_eq = []
        for c in t.columns:
            if c.pk and c.decl == 'INTEGER':
                continue
            cols_eq.append(db1.col(t.name, c.name)(r) == db2.col(t.name, c.name)(r))
            if db1.nullable(t.name, c.name):
                cols_eq.append(db1.null(t.name, c.name)(r) == db2.null(t.name, c.name)(r))
        in1, in2 = db1.in_(t.name)(r), db2.in_(t.name)(r)
        st = stable[t.name](r)
        # stable rows exist in both databases with the same content
        ax.append(z3.ForAll([r], z3.Implies(z3.And(st, z3.Or(in1, in2)), z3.And(in1, in2, *cols_eq)),
                            patterns=[z3.MultiPattern(st, in1), z3.MultiPattern(st, in2)]))
        # rows referenced by a foreign key of a stable row are stable (they cannot be deleted without the
        # referencing row being deleted or changed: C05.1/2, rows are never updated in place)
        for fk in t.fks:
            if (t.name, fk.column) == ('lexicon_dependencies', 'provider_rowid'):
                continue      # a provider can be removed on its own (the link is then set to NULL)
            v1 = db1.value(t.name, fk.column, r)
            nn = z3.Not(v1.none) if v1.none is not None else z3.BoolVal(True)
            ax.append(z3.ForAll([r], z3.Implies(z3.And(st, in1, nn), stable[fk.ref_table](v1.z)),
                                patterns=[z3.MultiPattern(st, in1)]))
        if t.name in SHARED:
            continue
        o1, o2 = owner_term(db1, t.name, r), owner_term(db2, t.name, r)
        ax.append(z3.ForAll([r], z3.Implies(z3.And(in1, in_s(o1)), st), patterns=[in1]))
        ax.append(z3.ForAll([r], z3.Implies(z3.And(in2, in_s(o2)), st), patterns=[in2]))
    ax += db1.fk_axioms(restrict_tables) + db2.fk_axioms(restrict_tables)
    return ax


def realizability_axioms(db1: DB, db2: DB, restrict_tables) -> list:
    return (db1.unique_axioms(restrict_tables) + db2.unique_axioms(restrict_tables)
            + db1.positive_rowid_axioms() + db2.positive_rowid_axioms())


def tables_of(outs) -> set:
    ts = set()
    for o in outs:
        for ev in o.effects:
            seq = ev.extra.get('seq') if ev.kind == 'execute' else None
            if seq is None:
                continue
            for binders, guard, elem, _ in seq.leaves():
                for b in binders:
                    if b.key and b.key[0] == 'table':
                        ts.add(b.key[1])
                _collect_tables(z_bool(guard), ts)
                _collect_tables_value(elem, ts)
    return ts


def _collect_tables(t, ts, seen=None):
    seen = seen if seen is not None else set()
    stack = [t]
    while stack:
        x = stack.pop()
        if x.get_id() in seen:
            continue
        seen.add(x.get_id())
        if z3.is_quantifier(x):
            stack.append(x.body())
        elif z3.is_app(x):
            n = x.decl().name()
            if '.' in n and x.num_args() >= 1:
                ts.add(n.split('.')[0].split('[')[-1])
            stack.extend(x.children())


def _collect_tables_value(v, ts):
    if isinstance(v, SV):
        _collect_tables(v.z, ts)
        if v.none is not None:
            _collect_tables(v.none, ts)
    elif isinstance(v, tuple):
        for x in v:
            _collect_tables_value(x, ts)


def close_tables(schema: Schema, ts: set) -> set:
    """Tables reachable through foreign keys / ownership parents (needed for the FK axioms)."""
    ts = {t for t in ts if t in schema.tables}
    changed = True
    while changed:
        changed = False
        for t in list(ts):
            for fk in schema.table(t).fks:
                if fk.ref_table not in ts:
                    ts.add(fk.ref_table)
                    changed = True
            if t in OWNED_VIA and OWNED_VIA[t][1] not in ts:
                ts.add(OWNED_VIA[t][1])
                changed = True
    return ts


def noninterference_obligations(sess: Session, fn, args: dict, scope_seq: SList, prop: str,
                                schema: Schema, extra_contracts=None, finding_for=None,
                                row_in_scope=None, pre=()) -> list:
    """Same function, same arguments, two databases agreeing on the scope: same result family.
    row_in_scope(db, args) -> extra assumption tying a rowid argument to an in-scope row (call-site
    precondition), applied to both databases."""
    w1, w2 = World(schema, '@1'), World(schema, '@2')
    outs1 = explore_query(fn, args, w1, extra_contracts, pre)
    outs2 = explore_query(fn, args, w2, extra_contracts, pre)
    by2 = {tuple(o.decisions): o for o in outs2}
    in_s = seq_has(scope_seq, 'int')
    name = fn_name(fn)
    tabs = close_tables(schema, tables_of(outs1) | tables_of(outs2))
    ax = agreement_axioms(schema, w1.db, w2.db, in_s, tabs)
    obs = []
    for o1 in outs1:
        o2 = by2.get(tuple(o1.decisions))
        pid = path_id(o1)
        if o2 is None or o1.kind != o2.kind:
            obs.append(Obligation(f'{name}:noninterference:paths:{pid}', prop, 'sql', decided=False,
                                  detail='the two runs take different paths: control flow depends on '
                                         'rows outside the scope', functions=(name,)))
            continue
        if o1.kind == 'raise':
            continue
        extra = []
        if row_in_scope is not None:
            extra = list(row_in_scope(w1.db, args)) + list(row_in_scope(w2.db, args))
        try:
            l1, l2 = all_leaves(o1.value), all_leaves(o2.value)
        except Unsupported:
            # scalar results (fetchone()[0] ...): compare values directly
            g = famcmp.value_eq(o1.value, o2.value)
            obs.append(Obligation(f'{name}:noninterference:value:{pid}', prop, 'sql',
                                  ax + extra + list(o1.pc) + list(o2.pc) + lit_axioms(), z_bool(g),
                                  functions=(name,), assumptions_used=('A-SQLITE',),
                                  finding=finding_for(name, 'noninterference') if finding_for else None,
                                  source=source_span(fn)))
            continue
        if len(l1) != len(l2):
            obs.append(Obligation(f'{name}:noninterference:shape:{pid}', prop, 'sql', decided=False,
                                  functions=(name,)))
            continue
        for k, ((b1, g1, e1, _), (b2, g2, e2, _)) in enumerate(zip(l1, l2)):
            subst = [(y.var, x.var) for x, y in zip(b1, b2) if not x.var.eq(y.var)]
            c1 = [b.constraint for b in b1]
            c2 = [famcmp.subst_guard(b.constraint, subst) for b in b2]
            g2s = famcmp.subst_guard(z_bool(g2), subst)
            e2s = famcmp.subst_value(e2, subst)
            base = ax + extra + list(o1.pc) + lit_axioms()
            fid = finding_for(name, 'noninterference') if finding_for else None
            seeds1 = [(b.key[1], b.var) for b in b1 if b.key and b.key[0] == 'table']
            for vs, body in nested_binders(z_bool(g1)):
                seeds1 += table_rows_in(body, w1.db)
            seeds2 = [(b.key[1], b.var) for b in b1 if b.key and b.key[0] == 'table']
            rp = make_2db_replay(fn, args, w1, w2, seeds1, seeds2)
            real = w1.db.ground_unique(seeds1) + w2.db.ground_unique(seeds2)
            # db1 row present  =>  db2 row present with the same projection, and conversely
            obs.append(Obligation(
                f'{name}:noninterference:1to2:{pid}#{k}', prop, 'sql', base + c1 + [z_bool(g1)],
                z_and(*c2, g2s, z_bool(famcmp.value_eq(e1, e2s))),
                detail='a result row over database 1 must be a result row over database 2 (same values)',
                functions=(name,), assumptions_used=('A-SQLITE',), finding=fid,
                model_vars=[b.var for b in b1], source=source_span(fn), replay=rp, realizability=real,
                restricted=k1_restriction([w1.db, w2.db]) if fid == 'K1' else None))
            obs.append(Obligation(
                f'{name}:noninterference:2to1:{pid}#{k}', prop, 'sql', base + c2 + [g2s],
                z_and(*c1, z_bool(g1), z_bool(famcmp.value_eq(e1, e2s))),
                detail='a result row over database 2 must be a result row over database 1 (same values)',
                functions=(name,), assumptions_used=('A-SQLITE',), finding=fid,
                model_vars=[b.var for b in b1], source=source_span(fn), replay=rp, realizability=real,
                restricted=k1_restriction([w1.db, w2.db]) if fid == 'K1' else None))
    return obs
