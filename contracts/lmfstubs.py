"""Interpreted stand-ins used when the writer/reader of wn/lmf.py are executed symbolically.

Element mirrors the part of xml.etree.ElementTree.Element the writer uses (constructor with attrib/extra keyword
attributes, .text, append/extend/set); its methods are ordinary Python that the symbolic interpreter executes like
the code under verification.  What is TRUSTED about the real class is stated as assumption A-XML in C02.
"""


class Element:
    def __init__(self, tag, attrib={}, **extra):
        self.tag = tag
        self.attrib = {}
        self.attrib.update(attrib)
        self.attrib.update(extra)
        self.text = None
        self.children = []

    def append(self, child):
        self.children.append(child)

    def extend(self, children):
        self.children.extend(children)

    def set(self, key, value):
        self.attrib[key] = value
