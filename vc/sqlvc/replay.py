"""Concretise a z3 counter-model of an SQL obligation into a real SQLite database + arguments, and run the
real query function on it (replay on the real code).

Oracle for scoping / non-interference replays (differential, generic): the real function is run on the
model database and on the same database with every row owned by a lexicon outside the scope removed (or, for
2-safety models, on the two model databases); different results = reproduced violation.
"""
from __future__ import annotations

import importlib
import json
import os
import shutil
import sqlite3
import tempfile
from pathlib import Path
from typing import Any, Optional

import z3

from vc.pyvc.values import SV, SList, LITS, UStr, Meta, EMPTY_META
from vc.sqlvc.encode import DB, seq_has
from vc.sqlvc.schema import Schema


class Concretizer:
    def __init__(self, model: z3.ModelRef):
        self.m = model
        self.strs: dict = {}
        self.metas: dict = {}
        # interned literals keep their text
        for text, c in LITS.by_text.items():
            try:
                v = model.eval(c, model_completion=True)
                self.strs.setdefault(str(v), text)
            except z3.Z3Exception:
                pass

    def val(self, term, kind: str):
        v = self.m.eval(term, model_completion=True)
        if kind == 'int':
            return v.as_long()
        if kind == 'bool':
            return 1 if z3.is_true(v) else 0
        if kind == 'str':
            k = str(v)
            if k not in self.strs:
                self.strs[k] = f's{len(self.strs)}'
            return self.strs[k]
        if kind == 'meta':
            k = str(v)
            e = str(self.m.eval(EMPTY_META, model_completion=True))
            if k == e:
                return {}
            if k not in self.metas:
                self.metas[k] = {'note': f'm{len(self.metas)}'}
            return self.metas[k]
        if kind == 'real':
            return float(v.as_fraction())
        raise ValueError(kind)

    def truth(self, term) -> bool:
        return z3.is_true(self.m.eval(term, model_completion=True))


def rows_from_model(conc: Concretizer, db: DB, seeds: list) -> dict:
    """seeds: [(table, z3 row term)] -> {table: {rowid: {col: value}}} closed under foreign keys."""
    schema = db.schema
    out: dict = {}
    work = []
    for table, term in seeds:
        try:
            work.append((table, conc.val(term, 'int')))
        except Exception:
            pass
    seen = set()
    while work:
        table, rid = work.pop()
        if (table, rid) in seen:
            continue
        seen.add((table, rid))
        r = z3.IntVal(rid)
        if not conc.truth(db.in_(table)(r)):
            continue
        t = schema.table(table)
        row = {}
        for c in t.columns:
            if c.pk and c.decl == 'INTEGER':
                row[c.name] = rid
                continue
            if db.nullable(table, c.name) and conc.truth(db.null(table, c.name)(r)):
                row[c.name] = None
            else:
                row[c.name] = conc.val(db.col(table, c.name)(r), c.kind)
        row['__rowid__'] = rid
        out.setdefault(table, {})[rid] = row
        for fk in t.fks:
            v = row.get(fk.column)
            if v is not None:
                work.append((fk.ref_table, v))
    return out


def concretize_args(conc: Concretizer, args: dict, rows: dict) -> dict:
    """Symbolic call arguments -> concrete Python values (lists from the has-predicate over candidates)."""
    out = {}
    int_cands = set()
    str_cands = set(conc.strs.values())
    for table, rs in rows.items():
        for row in rs.values():
            for k, v in row.items():
                if isinstance(v, int) and not isinstance(v, bool):
                    int_cands.add(v)
                elif isinstance(v, str):
                    str_cands.add(v)
    inv_strs = {v: k for k, v in conc.strs.items()}
    for name, a in args.items():
        if isinstance(a, SV):
            if a.none is not None and conc.truth(a.none):
                out[name] = None
            else:
                v = conc.val(a.z, a.kind)
                out[name] = bool(v) if a.kind == 'bool' else v
        elif isinstance(a, SList):
            n = conc.val(a.length, 'int')
            # explicit elements of the model first
            elems = []
            probe = a.at(z3.IntVal(0))
            kind = probe.kind
            for i in range(min(max(n, 0), 6)):
                e = a.at(z3.IntVal(i))
                elems.append(conc.val(e.z, kind))
            has = seq_has(a, kind)
            cands = int_cands if kind == 'int' else str_cands
            for c in sorted(cands, key=repr):
                term = z3.IntVal(c) if kind == 'int' else None
                if kind == 'str':
                    # find a z3 value for this string: only literals / model values are known
                    continue
                if conc.truth(has(term)) and c not in elems:
                    elems.append(c)
            if kind == 'int':
                elems = [e for e in elems if conc.truth(has(z3.IntVal(e)))] or elems
            out[name] = list(dict.fromkeys(elems))
        else:
            out[name] = a
    return out


def build_database(schema: Schema, rows: dict, path: Path):
    """Create a database file with wn's real schema and the given rows (foreign keys off while loading)."""
    conn = sqlite3.connect(str(path))
    conn.executescript(schema.text)
    conn.execute('PRAGMA foreign_keys = OFF')
    for table, rs in rows.items():
        t = schema.table(table)
        for rid, row in sorted(rs.items()):
            cols = ['rowid'] + [c.name for c in t.columns if not (c.pk and c.decl == 'INTEGER')]
            vals = [rid] + [_sql_value(row.get(c.name), c) for c in t.columns
                            if not (c.pk and c.decl == 'INTEGER')]
            conn.execute(f'INSERT INTO {table} ({",".join(cols)}) VALUES ({",".join("?" * len(vals))})', vals)
    # the two statuses wn creates at initialisation, if the model did not use their rowids
    conn.commit()
    conn.close()


def _sql_value(v, col):
    if isinstance(v, dict):
        return json.dumps(v)
    return v


def run_real(fn_qualname: str, args: dict, dbfile: Path) -> Any:
    """Call the real function of /repo against the given database file (fresh process-level state)."""
    import wn
    import wn._db
    mod_name, _, fname = fn_qualname.rpartition('.')
    old_dir = wn.config.data_directory
    tmpdir = Path(tempfile.mkdtemp(prefix='wnverif_replay_'))
    try:
        wn.config.data_directory = tmpdir
        shutil.copy(dbfile, wn.config.database_path)
        for c in list(wn._db.pool.values()):
            c.close()
        wn._db.pool.clear()
        mod = importlib.import_module(mod_name)
        fn = getattr(mod, fname)
        wn._db.COMPATIBLE_SCHEMA_HASHES.add(_schema_hash(wn.config.database_path))
        res = fn(**args)
        if not isinstance(res, (list, tuple, dict, str, int, float, bool, type(None))):
            res = list(res)
        return _jsonable(res)
    finally:
        for c in list(wn._db.pool.values()):
            c.close()
        wn._db.pool.clear()
        wn.config.data_directory = old_dir
        shutil.rmtree(tmpdir, ignore_errors=True)


def _schema_hash(path) -> str:
    import wn._db
    conn = sqlite3.connect(str(path))
    try:
        return wn._db.schema_hash(conn)
    finally:
        conn.close()


def _jsonable(x):
    if isinstance(x, (list, tuple)):
        return [_jsonable(v) for v in x]
    if isinstance(x, dict):
        return {str(k): _jsonable(v) for k, v in x.items()}
    if isinstance(x, (str, int, float, bool, type(None))):
        return x
    return repr(x)


def restrict_to_scope(schema: Schema, rows: dict, scope_ids: list, owner_of) -> dict:
    """Rows owned by the scope (+ shared tables), closed downwards: owned rows whose owner is outside go."""
    out = {}
    for table, rs in rows.items():
        for rid, row in rs.items():
            ow = owner_of(table, row, rows)
            if ow is None or ow in scope_ids:
                out.setdefault(table, {})[rid] = row
    return out
