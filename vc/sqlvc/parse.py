"""Tokenizer and recursive-descent parser for the SQL subset used by wn (see DESIGN §2.2).

Input: a list of parts (str | ('qs'|'vs', seq)) as pyvc extracts it from the real code, or a plain str.
Anything outside the subset raises Unsupported (undecided), never a wrong parse: every statement must be
consumed to the end.
"""
from __future__ import annotations

import re
from dataclasses import dataclass, field
from typing import Any, Optional

from vc.core import Unsupported

KEYWORDS = {
    'SELECT', 'DISTINCT', 'FROM', 'JOIN', 'ON', 'WHERE', 'AND', 'OR', 'NOT', 'IN', 'AS', 'ORDER', 'BY',
    'LIMIT', 'WITH', 'RECURSIVE', 'VALUES', 'UNION', 'ALL', 'INSERT', 'INTO', 'IGNORE', 'REPLACE', 'CONFLICT',
    'DO', 'UPDATE', 'SET', 'DELETE', 'PRAGMA', 'NULL', 'IS', 'ISNULL', 'NOTNULL', 'GLOB', 'LIKE', 'ASC',
    'DESC', 'INNER', 'LEFT', 'OUTER', 'CROSS', 'GROUP', 'HAVING', 'EXISTS', 'CASE', 'WHEN', 'THEN', 'ELSE',
    'END', 'BETWEEN', 'OFFSET', 'NOTHING',
}


@dataclass
class Tok:
    kind: str      # kw | id | num | str | dqstr | param | nparam | op | group
    val: Any
    pos: int = 0


_TOKEN_RE = re.compile(r'''
    (?P<ws>\s+|--[^\n]*)|
    (?P<num>\d+(\.\d+)?)|
    (?P<nparam>:[A-Za-z_][A-Za-z0-9_]*)|
    (?P<param>\?)|
    (?P<str>'(?:[^']|'')*')|
    (?P<dqstr>"(?:[^"]|"")*")|
    (?P<id>[A-Za-z_][A-Za-z0-9_]*)|
    (?P<op>\|\||<=|>=|<>|!=|==|[(),.*=<>+\-/;])
''', re.X)


def tokenize(parts) -> list[Tok]:
    if isinstance(parts, str):
        parts = [parts]
    toks: list[Tok] = []
    for part in parts:
        if not isinstance(part, str):
            toks.append(Tok('group', part))
            continue
        pos = 0
        while pos < len(part):
            m = _TOKEN_RE.match(part, pos)
            if not m:
                raise Unsupported(f'SQL tokenizer: unexpected character {part[pos]!r} in {part[max(0,pos-20):pos+20]!r}')
            pos = m.end()
            k = m.lastgroup
            if k == 'ws':
                continue
            v = m.group(k)
            if k == 'id' and v.upper() in KEYWORDS:
                toks.append(Tok('kw', v.upper(), m.start()))
            elif k == 'str':
                toks.append(Tok('str', v[1:-1].replace("''", "'"), m.start()))
            elif k == 'dqstr':
                toks.append(Tok('dqstr', v[1:-1].replace('""', '"'), m.start()))
            elif k == 'num':
                toks.append(Tok('num', int(v) if '.' not in v else float(v), m.start()))
            else:
                toks.append(Tok(k, v, m.start()))
    return toks


# ---------------------------------------------------------------------------------------------
# AST

@dataclass
class Col:
    table: Optional[str]
    name: str


@dataclass
class LitV:
    value: Any        # int | float | str | None


@dataclass
class Param:
    index: Optional[int] = None     # positional: textual order
    name: Optional[str] = None      # named


@dataclass
class Func:
    name: str          # upper-cased function name
    args: list


@dataclass
class GroupRef:
    kind: str         # qs | vs
    seq: Any
    index: int        # textual order among all placeholders (occupies one slot)


@dataclass
class Bin:
    op: str           # = != < <= > >= AND OR || + - GLOB
    left: Any
    right: Any


@dataclass
class Not:
    arg: Any


@dataclass
class IsNull:
    arg: Any
    negated: bool = False


@dataclass
class InExpr:
    arg: Any
    source: Any        # Select | list[expr] | GroupRef | CteRef(name)
    negated: bool = False


@dataclass
class CteRef:
    name: str


@dataclass
class ScalarSub:
    select: Any


@dataclass
class Star:
    table: Optional[str] = None


@dataclass
class FromItem:
    source: Any            # table name (str) | Select
    alias: str
    on: Any = None         # join condition
    join: str = 'inner'


@dataclass
class Select:
    distinct: bool
    cols: list             # list of (expr, alias|None)
    frm: list              # list[FromItem]
    where: Any = None
    order: list = field(default_factory=list)    # list of (expr, 'ASC'|'DESC')
    limit: Any = None
    union: Any = None      # (all?, Select)


@dataclass
class Cte:
    name: str
    cols: list
    body: Any              # Select | ('values', GroupRef) | ('values_rows', [[expr]])
    recursive: bool = False


@dataclass
class WithStmt:
    ctes: list
    body: Any


@dataclass
class Insert:
    table: str
    or_action: Optional[str]     # IGNORE | REPLACE | None
    columns: Optional[list]
    values: list                 # list[expr]
    conflict_target: Optional[list] = None
    do_update: Optional[list] = None      # list of (col, expr)
    do_update_where: Any = None
    do_nothing: bool = False


@dataclass
class Update:
    table: str
    sets: list         # (col, expr)
    where: Any


@dataclass
class Delete:
    table: str
    where: Any


@dataclass
class Pragma:
    name: str
    value: Any


class Parser:
    def __init__(self, toks: list[Tok]):
        self.toks = toks
        self.i = 0
        self.nparam = 0

    # -- helpers ----------------------------------------------------------------------------
    def peek(self, k=0) -> Optional[Tok]:
        return self.toks[self.i + k] if self.i + k < len(self.toks) else None

    def at_kw(self, *kws) -> bool:
        t = self.peek()
        return t is not None and t.kind == 'kw' and t.val in kws

    def at_op(self, *ops) -> bool:
        t = self.peek()
        return t is not None and t.kind == 'op' and t.val in ops

    def take(self) -> Tok:
        t = self.peek()
        if t is None:
            raise Unsupported('SQL parser: unexpected end of statement')
        self.i += 1
        return t

    def expect_kw(self, kw):
        t = self.take()
        if t.kind != 'kw' or t.val != kw:
            raise Unsupported(f'SQL parser: expected {kw}, got {t.val!r}')

    def expect_op(self, op):
        t = self.take()
        if t.kind != 'op' or t.val != op:
            raise Unsupported(f'SQL parser: expected {op!r}, got {t.val!r}')

    def ident(self) -> str:
        t = self.take()
        if t.kind == 'id':
            return t.val
        if t.kind == 'dqstr':
            return t.val
        if t.kind == 'kw' and t.val in ('REPLACE',):
            return t.val.lower()
        raise Unsupported(f'SQL parser: expected identifier, got {t.val!r}')

    # -- statements -------------------------------------------------------------------------
    def statement(self):
        if self.at_kw('WITH'):
            st = self.with_stmt()
        elif self.at_kw('SELECT'):
            st = self.select()
        elif self.at_kw('INSERT'):
            st = self.insert()
        elif self.at_kw('UPDATE'):
            st = self.update()
        elif self.at_kw('DELETE'):
            st = self.delete()
        elif self.at_kw('PRAGMA'):
            st = self.pragma()
        else:
            t = self.peek()
            raise Unsupported(f'SQL statement starting with {t.val if t else None!r}')
        if self.at_op(';'):
            self.take()
        if self.peek() is not None:
            raise Unsupported(f'SQL parser: trailing tokens from {self.peek().val!r}')
        return st

    def with_stmt(self):
        self.expect_kw('WITH')
        recursive = False
        if self.at_kw('RECURSIVE'):
            self.take()
            recursive = True
        ctes = []
        while True:
            name = self.ident()
            cols = []
            if self.at_op('('):
                self.take()
                cols.append(self.ident())
                while self.at_op(','):
                    self.take()
                    cols.append(self.ident())
                self.expect_op(')')
            self.expect_kw('AS')
            self.expect_op('(')
            if self.at_kw('VALUES'):
                self.take()
                t = self.peek()
                if t.kind == 'group' and t.val[0] == 'vs':
                    self.take()
                    g = GroupRef('vs', t.val[1], self.nparam)
                    self.nparam += 1
                    body = ('values', g)
                else:
                    rows = []
                    while True:
                        self.expect_op('(')
                        row = [self.expr()]
                        while self.at_op(','):
                            self.take()
                            row.append(self.expr())
                        self.expect_op(')')
                        rows.append(row)
                        if self.at_op(','):
                            self.take()
                            continue
                        break
                    body = ('values_rows', rows)
            else:
                body = self.select()
            self.expect_op(')')
            ctes.append(Cte(name, cols, body, recursive))
            if self.at_op(','):
                self.take()
                continue
            break
        if self.at_kw('SELECT'):
            body = self.select()
        elif self.at_kw('DELETE'):
            body = self.delete()            # a write statement that does not START with a write keyword
        elif self.at_kw('INSERT'):
            body = self.insert()
        elif self.at_kw('UPDATE'):
            body = self.update()
        else:
            raise Unsupported('WITH followed by an unknown statement')
        return WithStmt(ctes, body)

    def select(self):
        self.expect_kw('SELECT')
        distinct = False
        if self.at_kw('DISTINCT'):
            self.take()
            distinct = True
        elif self.at_kw('ALL'):
            self.take()
        cols = [self.result_col()]
        while self.at_op(','):
            self.take()
            cols.append(self.result_col())
        frm = []
        if self.at_kw('FROM'):
            self.take()
            frm.append(self.from_item())
            while True:
                join = None
                if self.at_kw('JOIN'):
                    self.take()
                    join = 'inner'
                elif self.at_kw('INNER') and self.peek(1) and self.peek(1).val == 'JOIN':
                    self.take(); self.take()
                    join = 'inner'
                elif self.at_kw('CROSS') and self.peek(1) and self.peek(1).val == 'JOIN':
                    self.take(); self.take()
                    join = 'inner'
                elif self.at_kw('LEFT'):
                    raise Unsupported('LEFT JOIN')
                elif self.at_op(','):
                    self.take()
                    join = 'inner'
                if join is None:
                    break
                item = self.from_item()
                item.join = join
                if self.at_kw('ON'):
                    self.take()
                    item.on = self.expr()
                frm.append(item)
        where = None
        if self.at_kw('WHERE'):
            self.take()
            where = self.expr()
        if self.at_kw('GROUP', 'HAVING'):
            raise Unsupported('GROUP BY / HAVING')
        union = None
        if self.at_kw('UNION'):
            self.take()
            all_ = False
            if self.at_kw('ALL'):
                self.take()
                all_ = True
            union = (all_, self.select())
            return Select(distinct, cols, frm, where, [], None, union)
        order = []
        if self.at_kw('ORDER'):
            self.take()
            self.expect_kw('BY')
            while True:
                e = self.expr()
                d = 'ASC'
                if self.at_kw('ASC', 'DESC'):
                    d = self.take().val
                order.append((e, d))
                if self.at_op(','):
                    self.take()
                    continue
                break
        limit = None
        if self.at_kw('LIMIT'):
            self.take()
            limit = self.expr()
            if self.at_kw('OFFSET') or self.at_op(','):
                raise Unsupported('LIMIT with OFFSET')
        return Select(distinct, cols, frm, where, order, limit, None)

    def result_col(self):
        if self.at_op('*'):
            self.take()
            return (Star(None), None)
        t, t1, t2 = self.peek(), self.peek(1), self.peek(2)
        if t and t.kind == 'id' and t1 and t1.kind == 'op' and t1.val == '.' and t2 and t2.kind == 'op' and t2.val == '*':
            self.take(); self.take(); self.take()
            return (Star(t.val), None)
        e = self.expr()
        alias = None
        if self.at_kw('AS'):
            self.take()
            alias = self.ident()
        elif self.peek() is not None and self.peek().kind == 'id':
            alias = self.ident()
        return (e, alias)

    def from_item(self):
        if self.at_op('('):
            self.take()
            if self.at_kw('SELECT'):
                sub = self.select()
            else:
                raise Unsupported('parenthesised FROM item that is not a SELECT')
            self.expect_op(')')
            alias = None
            if self.at_kw('AS'):
                self.take()
            alias = self.ident()
            return FromItem(sub, alias)
        name = self.ident()
        alias = name
        if self.at_kw('AS'):
            self.take()
            alias = self.ident()
        elif self.peek() is not None and self.peek().kind == 'id':
            alias = self.ident()
        return FromItem(name, alias)

    def insert(self):
        self.expect_kw('INSERT')
        action = None
        if self.at_kw('OR'):
            self.take()
            action = self.take().val
            if action not in ('IGNORE', 'REPLACE'):
                raise Unsupported(f'INSERT OR {action}')
        self.expect_kw('INTO')
        table = self.ident()
        columns = None
        if self.at_op('('):
            self.take()
            columns = [self.ident()]
            while self.at_op(','):
                self.take()
                columns.append(self.ident())
            self.expect_op(')')
        self.expect_kw('VALUES')
        self.expect_op('(')
        values = [self.expr()]
        while self.at_op(','):
            self.take()
            values.append(self.expr())
        self.expect_op(')')
        if self.at_op(','):
            raise Unsupported('multi-row INSERT')
        ins = Insert(table, action, columns, values)
        if self.at_kw('ON'):
            self.take()
            self.expect_kw('CONFLICT')
            if self.at_op('('):
                self.take()
                ins.conflict_target = [self.ident()]
                while self.at_op(','):
                    self.take()
                    ins.conflict_target.append(self.ident())
                self.expect_op(')')
            self.expect_kw('DO')
            if self.at_kw('NOTHING'):
                self.take()
                ins.do_nothing = True
            else:
                self.expect_kw('UPDATE')
                self.expect_kw('SET')
                ins.do_update = []
                while True:
                    c = self.ident()
                    self.expect_op('=')
                    ins.do_update.append((c, self.expr()))
                    if self.at_op(','):
                        self.take()
                        continue
                    break
                if self.at_kw('WHERE'):
                    self.take()
                    ins.do_update_where = self.expr()
        return ins

    def update(self):
        self.expect_kw('UPDATE')
        if self.at_kw('OR'):
            raise Unsupported('UPDATE OR ...')
        table = self.ident()
        self.expect_kw('SET')
        sets = []
        while True:
            c = self.ident()
            self.expect_op('=')
            sets.append((c, self.expr()))
            if self.at_op(','):
                self.take()
                continue
            break
        where = None
        if self.at_kw('WHERE'):
            self.take()
            where = self.expr()
        return Update(table, sets, where)

    def delete(self):
        self.expect_kw('DELETE')
        self.expect_kw('FROM')
        table = self.ident()
        where = None
        if self.at_kw('WHERE'):
            self.take()
            where = self.expr()
        return Delete(table, where)

    def pragma(self):
        self.expect_kw('PRAGMA')
        name = self.ident()
        value = None
        if self.at_op('='):
            self.take()
            t = self.take()
            value = t.val
        elif self.at_op('('):
            self.take()
            value = self.take().val
            self.expect_op(')')
        return Pragma(name, value)

    # -- expressions (SQLite precedence: OR < AND < NOT < comparison/IN/IS/GLOB < ||/+/- ) -----------
    def expr(self):
        return self.or_expr()

    def or_expr(self):
        e = self.and_expr()
        while self.at_kw('OR'):
            self.take()
            e = Bin('OR', e, self.and_expr())
        return e

    def and_expr(self):
        e = self.not_expr()
        while self.at_kw('AND'):
            self.take()
            e = Bin('AND', e, self.not_expr())
        return e

    def not_expr(self):
        if self.at_kw('NOT'):
            self.take()
            return Not(self.not_expr())
        return self.cmp_expr()

    def cmp_expr(self):
        e = self.add_expr()
        while True:
            if self.at_op('=', '==', '!=', '<>', '<', '<=', '>', '>='):
                op = self.take().val
                op = {'==': '=', '<>': '!='}.get(op, op)
                e = Bin(op, e, self.add_expr())
            elif self.at_kw('GLOB'):
                self.take()
                e = Bin('GLOB', e, self.add_expr())
            elif self.at_kw('LIKE', 'BETWEEN'):
                raise Unsupported('LIKE/BETWEEN')
            elif self.at_kw('ISNULL'):
                self.take()
                e = IsNull(e)
            elif self.at_kw('NOTNULL'):
                self.take()
                e = IsNull(e, True)
            elif self.at_kw('IS'):
                self.take()
                neg = False
                if self.at_kw('NOT'):
                    self.take()
                    neg = True
                if self.at_kw('NULL'):
                    self.take()
                    e = IsNull(e, neg)
                else:
                    # null-safe comparison: never NULL (two NULLs are equal, NULL and a value are different)
                    e = Bin('IS NOT' if neg else 'IS', e, self.add_expr())
            elif self.at_kw('NOT') and self.peek(1) and self.peek(1).kind == 'kw' and self.peek(1).val == 'IN':
                self.take()
                self.take()
                e = InExpr(e, self.in_source(), True)
            elif self.at_kw('IN'):
                self.take()
                e = InExpr(e, self.in_source())
            else:
                return e

    def in_source(self):
        if self.at_op('('):
            self.take()
            if self.at_kw('SELECT'):
                src = self.select()
            else:
                t = self.peek()
                if t.kind == 'group' and t.val[0] == 'qs':
                    self.take()
                    src = GroupRef('qs', t.val[1], self.nparam)
                    self.nparam += 1
                elif self.at_op(')'):
                    src = []
                else:
                    src = [self.expr()]
                    while self.at_op(','):
                        self.take()
                        src.append(self.expr())
            self.expect_op(')')
            return src
        name = self.ident()
        return CteRef(name)

    def add_expr(self):
        e = self.atom()
        while self.at_op('||', '+', '-'):
            op = self.take().val
            e = Bin(op, e, self.atom())
        return e

    def atom(self):
        t = self.take()
        if t.kind == 'num':
            return LitV(t.val)
        if t.kind == 'str':
            return LitV(t.val)
        if t.kind == 'dqstr':
            # SQLite: a double-quoted string is an identifier if one exists, else a string literal.
            return Col(None, '"' + t.val)     # resolved by the encoder using the schema
        if t.kind == 'kw' and t.val == 'NULL':
            return LitV(None)
        if t.kind == 'param':
            p = Param(index=self.nparam)
            self.nparam += 1
            return p
        if t.kind == 'nparam':
            return Param(name=t.val[1:])
        if t.kind == 'op' and t.val == '(':
            if self.at_kw('SELECT'):
                s = self.select()
                self.expect_op(')')
                return ScalarSub(s)
            e = self.expr()
            self.expect_op(')')
            return e
        if t.kind == 'op' and t.val == '-':
            a = self.atom()
            if isinstance(a, LitV) and isinstance(a.value, (int, float)):
                return LitV(-a.value)
            return Bin('-', LitV(0), a)
        if t.kind == 'id':
            if self.at_op('.'):
                self.take()
                c = self.take()
                if c.kind not in ('id', 'kw', 'dqstr'):
                    raise Unsupported('SQL parser: bad column reference')
                return Col(t.val, c.val if c.kind != 'kw' else c.val.lower())
            if self.at_op('('):
                # scalar function call: parsed (so that shape checks can see it), encoded only for COALESCE
                self.take()
                args = []
                if not self.at_op(')'):
                    args.append(self.expr())
                    while self.at_op(','):
                        self.take()
                        args.append(self.expr())
                if not self.at_op(')'):
                    raise Unsupported(f'SQL function call {t.val}(: unbalanced')
                self.take()
                return Func(t.val.upper(), args)
            return Col(None, t.val)
        if t.kind == 'kw' and t.val in ('EXISTS', 'CASE'):
            raise Unsupported(f'SQL {t.val}')
        raise Unsupported(f'SQL parser: unexpected token {t.val!r}')


def parse_sql(parts):
    p = Parser(tokenize(parts))
    st = p.statement()
    return st, p.nparam
