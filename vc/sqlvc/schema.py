"""Schema of wn/schema.sql as SQLite itself parses it (in-memory database + PRAGMAs); re-read on every run."""
from __future__ import annotations

import re
import sqlite3
from dataclasses import dataclass, field
from importlib import resources
from pathlib import Path
from typing import Optional

from vc.core import REPO


@dataclass
class Column:
    name: str
    decl: str           # declared type, upper-case
    notnull: bool
    pk: bool
    default: Optional[str]

    @property
    def kind(self) -> str:
        d = self.decl
        if d == 'INTEGER':
            return 'int'
        if d == 'BOOLEAN':
            return 'bool'
        if d == 'META':
            return 'meta'
        return 'str'      # TEXT and anything else


@dataclass
class FK:
    column: str
    ref_table: str
    ref_column: str
    on_delete: str      # CASCADE | SET NULL | NO ACTION | RESTRICT


@dataclass
class Table:
    name: str
    columns: list
    fks: list
    uniques: list        # list of column-name tuples
    has_rowid_alias: bool

    def col(self, name: str) -> Optional[Column]:
        for c in self.columns:
            if c.name == name:
                return c
        return None

    @property
    def colnames(self):
        return [c.name for c in self.columns]


@dataclass
class Schema:
    tables: dict
    text: str

    def table(self, name: str) -> Table:
        return self.tables[name]


def schema_path() -> Path:
    return REPO / 'wn' / 'schema.sql'


def load_schema(path: Optional[Path] = None) -> Schema:
    text = (path or schema_path()).read_text()
    conn = sqlite3.connect(':memory:')
    conn.executescript(text)
    tables = {}
    names = [r[0] for r in conn.execute(
        "SELECT name FROM sqlite_master WHERE type='table' AND name NOT LIKE 'sqlite_%'")]
    for t in names:
        cols = []
        rowid_alias = False
        for cid, name, decl, notnull, dflt, pk in conn.execute(f'PRAGMA table_info({t})'):
            decl = (decl or '').upper()
            if pk and decl == 'INTEGER':
                rowid_alias = True
            cols.append(Column(name, decl, bool(notnull), bool(pk), dflt))
        fks = []
        for row in conn.execute(f'PRAGMA foreign_key_list({t})'):
            _id, _seq, ref, frm, to, _on_update, on_delete, _match = row
            fks.append(FK(frm, ref, to or 'rowid', on_delete.upper()))
        uniques = []
        for _seq, iname, unique, origin, _partial in conn.execute(f'PRAGMA index_list({t})'):
            if unique and origin in ('u', 'pk'):
                uniques.append(tuple(r[2] for r in conn.execute(f'PRAGMA index_info({iname})')))
        tables[t] = Table(t, cols, fks, uniques, rowid_alias)
    conn.close()
    return Schema(tables, text)
