"""z3 encoding of the parsed SQL over table relations (see DESIGN §2.2).

Tables: T_in : Int -> Bool (rowid membership), one function per column, one null-bit function per nullable
column.  Columns are typed from the declared type (INTEGER -> Int, BOOLEAN -> Bool, META -> Meta, TEXT ->
UStr).  A SELECT becomes a pyvc sequence tree (Loop over row binders, guard, projection), so that the Python
callers consume it with the same machinery as lists.
"""
from __future__ import annotations

from dataclasses import dataclass, field
from typing import Any, Optional

import z3

from vc.core import Unsupported
from vc.pyvc.values import (SV, SORTS, UStr, Meta, LITS, Seq, Lit, Loop, Binder, SList, lift, fresh_name,
                            z_and, z_or, z_not, z_bool, is_sym)
from vc.sqlvc import parse as P
from vc.sqlvc.schema import Schema, Table


class DB:
    """One database state."""

    def __init__(self, schema: Schema, tag: str = ''):
        self.schema = schema
        self.tag = tag
        self._f: dict = {}

    def _fn(self, name, *sorts):
        key = name + self.tag
        if key not in self._f:
            self._f[key] = z3.Function(key, *sorts)
        return self._f[key]

    def in_(self, table: str):
        self.schema.table(table)
        return self._fn(f'{table}.in', z3.IntSort(), z3.BoolSort())

    def col(self, table: str, col: str):
        t = self.schema.table(table)
        if col == 'rowid':
            return lambda r: r
        c = t.col(col)
        if c is None:
            raise Unsupported(f'unknown column {table}.{col}')
        if c.pk and c.decl == 'INTEGER':
            return lambda r: r
        return self._fn(f'{table}.{col}', z3.IntSort(), SORTS[c.kind])

    def colkind(self, table: str, col: str) -> str:
        if col == 'rowid':
            return 'int'
        return self.schema.table(table).col(col).kind

    def nullable(self, table: str, col: str) -> bool:
        if col == 'rowid':
            return False
        c = self.schema.table(table).col(col)
        return not c.notnull and not (c.pk and c.decl == 'INTEGER')

    def null(self, table: str, col: str):
        return self._fn(f'{table}.{col}.null', z3.IntSort(), z3.BoolSort())

    def value(self, table: str, col: str, row) -> SV:
        k = self.colkind(table, col)
        z = self.col(table, col)(row)
        n = self.null(table, col)(row) if self.nullable(table, col) else None
        return SV(k, z, n)

    # -- integrity constraints as axioms (A-SQLITE) -------------------------------------------
    def fk_axioms(self, tables=None) -> list:
        """Referential integrity for every declared foreign key (holds when PRAGMA foreign_keys=ON was
        executed on the connection: that is an obligation on wn._db.connect, see C05)."""
        out = []
        r = z3.Int('r')
        for t in self.schema.tables.values():
            if tables is not None and t.name not in tables:
                continue
            for fk in t.fks:
                v = self.value(t.name, fk.column, r)
                body = z3.Implies(
                    z3.And(self.in_(t.name)(r), z3.Not(v.none) if v.none is not None else True),
                    self.in_(fk.ref_table)(v.z))
                out.append(z3.ForAll([r], body, patterns=[self.in_(t.name)(r)]))
        return out

    def unique_axioms(self, tables=None) -> list:
        out = []
        r1, r2 = z3.Ints('r1 r2')
        for t in self.schema.tables.values():
            if tables is not None and t.name not in tables:
                continue
            for u in t.uniques:
                if any(self.schema.table(t.name).col(c).pk for c in u):
                    continue
                eqs = []
                for c in u:
                    a, b = self.value(t.name, c, r1), self.value(t.name, c, r2)
                    e = a.z == b.z
                    if a.none is not None:
                        # SQL UNIQUE treats NULLs as distinct
                        e = z3.And(z3.Not(a.none), z3.Not(b.none), e)
                    eqs.append(e)
                out.append(z3.ForAll([r1, r2], z3.Implies(
                    z3.And(self.in_(t.name)(r1), self.in_(t.name)(r2), *eqs), r1 == r2),
                    patterns=[z3.MultiPattern(self.in_(t.name)(r1), self.in_(t.name)(r2))]))
        return out

    def ground_unique(self, seeds: list) -> list:
        """UNIQUE constraints and positive rowids instantiated for the given (table, row term) seeds and the
        rows they reference through foreign keys (what a replay database will contain)."""
        terms: dict = {}
        for table, term in seeds:
            terms.setdefault(table, []).append(term)
        for table, term in list(seeds):
            for fk in self.schema.table(table).fks:
                v = self.value(table, fk.column, term)
                terms.setdefault(fk.ref_table, []).append(v.z)
        out = []
        for table, ts in terms.items():
            t = self.schema.table(table)
            uniq = []
            seen = set()
            for x in ts:
                if x.get_id() not in seen:
                    seen.add(x.get_id())
                    uniq.append(x)
            for x in uniq:
                out.append(z3.Implies(self.in_(table)(x), x > 0))
            for u in t.uniques:
                if any(t.col(c).pk for c in u):
                    continue
                for i in range(len(uniq)):
                    for j in range(i + 1, len(uniq)):
                        a, b = uniq[i], uniq[j]
                        eqs = []
                        for c in u:
                            va, vb = self.value(table, c, a), self.value(table, c, b)
                            e = va.z == vb.z
                            if va.none is not None:
                                e = z3.And(z3.Not(va.none), z3.Not(vb.none), e)
                            eqs.append(e)
                        out.append(z3.Implies(z3.And(self.in_(table)(a), self.in_(table)(b), *eqs), a == b))
        return out

    def positive_rowid_axioms(self) -> list:
        r = z3.Int('r')
        return [z3.ForAll([r], z3.Implies(self.in_(t)(r), r > 0), patterns=[self.in_(t)(r)])
                for t in self.schema.tables]


# ---------------------------------------------------------------------------------------------

@dataclass
class Scope:
    """Name resolution for one SELECT level."""
    items: dict = field(default_factory=dict)       # alias -> ('table', name, rowvar) | ('derived', cols{name: SV})
    order: list = field(default_factory=list)
    parent: Optional['Scope'] = None


@dataclass
class Params:
    positional: list = field(default_factory=list)   # slot list: ('one', value) | ('splat', seq)
    named: dict = field(default_factory=dict)
    row: Any = None                                   # tuple of values for executemany (generic row)


class Encoder:
    def __init__(self, db: DB, params: Params, ctes: Optional[dict] = None):
        self.db = db
        self.params = params
        self.ctes = dict(ctes or {})
        self.side: list = []       # side constraints (definitions of skolems)
        self.notes: list = []

    # -- parameters -----------------------------------------------------------------------------
    def param(self, p: P.Param) -> SV:
        if p.name is not None:
            if p.name not in self.params.named:
                raise Unsupported(f'named parameter :{p.name} not supplied')
            return self._as_sql_value(self.params.named[p.name])
        slots = self.params.positional
        if p.index >= len(slots):
            raise BindError(f'placeholder #{p.index} has no parameter (only {len(slots)} supplied)')
        kind, v = slots[p.index]
        if kind != 'one':
            raise BindError(f'placeholder #{p.index} is a single "?" but parameter slot {p.index} is a '
                            f'sequence splat')
        return self._as_sql_value(v)

    def group(self, g: P.GroupRef):
        slots = self.params.positional
        if g.index >= len(slots):
            raise BindError(f'placeholder group #{g.index} has no parameter')
        kind, v = slots[g.index]
        if kind != 'splat':
            raise BindError(f'placeholder group #{g.index} ({g.kind}) is bound to a single value')
        if v is not g.seq:
            raise BindError(f'placeholder group #{g.index} was generated from a different sequence than the '
                            f'one bound to it')
        return v

    def _as_sql_value(self, v) -> SV:
        if isinstance(v, SV):
            return v
        if v is None:
            return SV('str', z3.Const(fresh_name('null'), UStr), z3.BoolVal(True))
        if isinstance(v, (bool, int, float, str)):
            return lift(v)
        h = getattr(v, 'as_sql_value', None)
        if h is not None:
            return h()
        raise Unsupported(f'SQL parameter of type {type(v).__name__}')

    # -- membership in a bound sequence ----------------------------------------------------------
    def seq_member(self, seq, x: SV):
        from vc.pyvc.interp import MList
        if isinstance(seq, SList):
            f = seq_has(seq, x.kind)
            core = f(x.z)
        elif isinstance(seq, (MList, Seq)) or hasattr(seq, 'leaves'):
            from vc.pyvc.values import val_eq
            core = (seq.as_seq() if hasattr(seq, 'as_seq') else seq).contains(
                lambda e: z_bool(val_eq(self._coerce(e, x.kind), x)))
        else:
            raise Unsupported(f'membership in parameter sequence of type {type(seq).__name__}')
        if x.none is not None:
            return z3.And(z3.Not(x.none), core)
        return core

    def _coerce(self, e, kind):
        return e

    # -- expressions ---------------------------------------------------------------------------
    def expr(self, e, scope: Scope) -> SV:
        if isinstance(e, P.LitV):
            if e.value is None:
                return SV('str', z3.Const(fresh_name('null'), UStr), z3.BoolVal(True))
            return lift(e.value)
        if isinstance(e, P.Param):
            return self.param(e)
        if isinstance(e, P.Col):
            return self.column(e, scope)
        if isinstance(e, P.ScalarSub):
            return self.scalar_sub(e.select, scope)
        if isinstance(e, P.Func):
            if e.name in ('COALESCE', 'IFNULL') and len(e.args) == 2:
                a, b = self.expr(e.args[0], scope), self.expr(e.args[1], scope)
                if a.none is None:
                    return a
                if a.kind != b.kind:
                    raise Unsupported(f'{e.name} of different kinds')
                bn = b.none if b.none is not None else z3.BoolVal(False)
                return SV(a.kind, z3.If(a.none, b.z, a.z), z3.simplify(z3.And(a.none, bn)))
            raise Unsupported(f'SQL function call {e.name}()')
        if isinstance(e, P.Bin):
            if e.op in ('AND', 'OR'):
                return SV('bool', self.cond(e, scope))
            if e.op == '||':
                a, b = self.expr(e.left, scope), self.expr(e.right, scope)
                f = concat_fn()
                n = z_or(a.none if a.none is not None else False, b.none if b.none is not None else False)
                return SV('str', f(self._text(a), self._text(b)), None if z3.is_false(z_bool(n)) else n)
            if e.op in ('+', '-'):
                a, b = self.expr(e.left, scope), self.expr(e.right, scope)
                n = z_or(a.none if a.none is not None else False, b.none if b.none is not None else False)
                z = a.z + b.z if e.op == '+' else a.z - b.z
                return SV('int', z, None if z3.is_false(z_bool(n)) else n)
            return SV('bool', self.cond(e, scope))
        if isinstance(e, (P.Not, P.IsNull, P.InExpr)):
            return SV('bool', self.cond(e, scope))
        raise Unsupported(f'SQL expression {type(e).__name__}')

    def _text(self, v: SV):
        if v.kind == 'str':
            return v.z
        raise Unsupported('|| on non-text value')

    def column(self, c: P.Col, scope: Scope) -> SV:
        name = c.name
        if name.startswith('"'):
            # double-quoted: identifier if such a column is visible, else string literal (SQLite)
            raw = name[1:]
            try:
                return self.column(P.Col(c.table, raw), scope)
            except UnknownColumn:
                return lift(raw)
        s = scope
        while s is not None:
            if c.table is not None:
                if c.table in s.items:
                    return self._item_col(s.items[c.table], name, c)
            else:
                hits = []
                for alias in s.order:
                    it = s.items[alias]
                    if self._item_has(it, name):
                        hits.append(it)
                if len(hits) == 1:
                    return self._item_col(hits[0], name, c)
                if len(hits) > 1:
                    # SQLite: ambiguous column name is an error; here the first match in join order is
                    # what an unqualified name in an ON clause of the same item usually means
                    raise Unsupported(f'ambiguous column {name}')
            s = s.parent
        raise UnknownColumn(f'{c.table + "." if c.table else ""}{name}')

    def _item_has(self, it, name):
        if it[0] == 'table':
            return name == 'rowid' or self.db.schema.table(it[1]).col(name) is not None
        return name in it[1]

    def _item_col(self, it, name, c):
        if it[0] == 'table':
            if not self._item_has(it, name):
                raise UnknownColumn(f'{it[1]}.{name}')
            return self.db.value(it[1], name, it[2])
        if name not in it[1]:
            raise UnknownColumn(f'{c.table}.{name}')
        return it[1][name]

    # -- conditions (SQL three-valued logic: returns "is TRUE") ----------------------------------
    def cond(self, e, scope: Scope):
        t, _ = self.cond3(e, scope)
        return t

    def cond3(self, e, scope: Scope):
        """(is_true, is_false) as z3 Bools; unknown = neither."""
        if isinstance(e, P.Bin) and e.op == 'AND':
            t1, f1 = self.cond3(e.left, scope)
            t2, f2 = self.cond3(e.right, scope)
            return z_and(t1, t2), z_or(f1, f2)
        if isinstance(e, P.Bin) and e.op == 'OR':
            t1, f1 = self.cond3(e.left, scope)
            t2, f2 = self.cond3(e.right, scope)
            return z_or(t1, t2), z_and(f1, f2)
        if isinstance(e, P.Not):
            t, f = self.cond3(e.arg, scope)
            return f, t
        if isinstance(e, P.IsNull):
            v = self.expr(e.arg, scope)
            n = v.none if v.none is not None else z3.BoolVal(False)
            return (z_not(n), n) if e.negated else (n, z_not(n))
        if isinstance(e, P.InExpr):
            x = self.expr(e.arg, scope)
            m = self.in_source(x, e.source, scope)
            xn = x.none if x.none is not None else z3.BoolVal(False)
            t, f = m, z_and(z_not(xn), z_not(m))
            return (f, t) if e.negated else (t, f)
        if isinstance(e, P.Bin) and e.op in ('IS', 'IS NOT'):
            a, b = self.expr(e.left, scope), self.expr(e.right, scope)
            an = a.none if a.none is not None else z3.BoolVal(False)
            bn = b.none if b.none is not None else z3.BoolVal(False)
            same = z_or(z_and(an, bn), z_and(z_not(an), z_not(bn), self._compare('=', a, b)))
            return (z_not(same), same) if e.op == 'IS NOT' else (same, z_not(same))
        if isinstance(e, P.Bin):
            a, b = self.expr(e.left, scope), self.expr(e.right, scope)
            nn = z_and(z_not(a.none) if a.none is not None else True,
                       z_not(b.none) if b.none is not None else True)
            if e.op == 'GLOB':
                g = glob_fn()
                core = g(self._text(a), self._text(b))
            else:
                core = self._compare(e.op, a, b)
            return z_and(nn, core), z_and(nn, z_not(core))
        v = self.expr(e, scope)
        if v.kind == 'bool':
            n = v.none if v.none is not None else z3.BoolVal(False)
            return z_and(z_not(n), v.z), z_and(z_not(n), z_not(v.z))
        if v.kind == 'int':
            n = v.none if v.none is not None else z3.BoolVal(False)
            return z_and(z_not(n), v.z != 0), z_and(z_not(n), v.z == 0)
        raise Unsupported('SQL condition on non-boolean value')

    def _compare(self, op, a: SV, b: SV):
        az, bz = a.z, b.z
        if a.kind != b.kind:
            if {a.kind, b.kind} == {'bool', 'int'}:
                az = z3.If(a.z, 1, 0) if a.kind == 'bool' else a.z
                bz = z3.If(b.z, 1, 0) if b.kind == 'bool' else b.z
            else:
                # SQLite compares values of different storage classes as unequal (never raises)
                if op == '=':
                    return z3.BoolVal(False)
                if op == '!=':
                    return z3.BoolVal(True)
                raise Unsupported(f'SQL ordering comparison between {a.kind} and {b.kind}')
        if op == '=':
            return az == bz
        if op == '!=':
            return az != bz
        if a.kind not in ('int', 'real') and not (a.kind == 'bool'):
            raise Unsupported(f'SQL ordering comparison on {a.kind}')
        return {'<': az < bz, '<=': az <= bz, '>': az > bz, '>=': az >= bz}[op]

    def in_source(self, x: SV, src, scope: Scope):
        if isinstance(src, P.GroupRef):
            seq = self.group(src)
            return self.seq_member(seq, x)
        if isinstance(src, P.CteRef):
            cte = self.ctes.get(src.name)
            if cte is None:
                # IN tablename: first column? not used by wn
                raise Unsupported(f'IN {src.name}: not a CTE')
            return self.cte_member(cte, x)
        if isinstance(src, list):
            alts = []
            for e in src:
                v = self.expr(e, scope)
                alts.append(z_and(self._compare('=', x, v), z_not(v.none) if v.none is not None else True))
            core = z_or(*alts)
            return z_and(z_not(x.none), core) if x.none is not None else core
        if isinstance(src, P.Select):
            binders, guard, proj, _ = self.select_core(src, scope)
            if len(proj) != 1:
                raise Unsupported('IN (SELECT ...) with several columns')
            v = proj[0][1]
            body = z_and(*[b.constraint for b in binders], guard, self._compare('=', x, v),
                         z_not(v.none) if v.none is not None else True)
            vs = [b.var for b in binders]
            core = z3.Exists(vs, body) if vs else body
            return z_and(z_not(x.none), core) if x.none is not None else core
        raise Unsupported('IN source')

    def cte_member(self, cte: P.Cte, x: SV):
        if cte.body[0] == 'values' if isinstance(cte.body, tuple) else False:
            seq = self.group(cte.body[1])
            return self.seq_member(seq, x)
        if isinstance(cte.body, P.Select):
            return self.in_source(x, cte.body, Scope())
        raise Unsupported('membership in this kind of CTE')

    # -- scalar sub-select -----------------------------------------------------------------------
    def scalar_sub(self, sel: P.Select, scope: Scope) -> SV:
        if sel.union or sel.order or sel.limit is not None or sel.distinct or len(sel.cols) != 1 \
                or not sel.frm or any(not isinstance(f.source, str) for f in sel.frm):
            raise Unsupported('scalar sub-select shape')
        fi = sel.frm[0]
        table = fi.source
        if any(f.source in self.ctes for f in sel.frm):
            raise Unsupported('scalar sub-select over a CTE')
        for f in sel.frm:
            self.db.schema.table(f.source)
        aliases = {f.alias: f.source for f in sel.frm}
        conj = flatten_and(sel.where) if sel.where is not None else []
        for f in sel.frm[1:]:
            if f.on is not None:
                conj = flatten_and(f.on) + conj

        def alias_of(col: P.Col):
            if col.table is not None:
                return col.table if col.table in aliases else None
            hits = [a for a, t in aliases.items() if col.name == 'rowid' or self.db.schema.table(t).col(col.name)]
            return hits[0] if len(hits) == 1 else None

        def inner(e) -> bool:
            if isinstance(e, P.Col):
                return alias_of(e) is not None
            if isinstance(e, P.Bin):
                return inner(e.left) or inner(e.right)
            return False
        # (1) direct instantiation (single table):  <table>.rowid = outer term
        if len(sel.frm) == 1:
            row = None
            rest = []
            for c in conj:
                hit = False
                if isinstance(c, P.Bin) and c.op == '=' and row is None:
                    for l, r in ((c.left, c.right), (c.right, c.left)):
                        if isinstance(l, P.Col) and l.name == 'rowid' and alias_of(l) and not inner(r):
                            row = self.expr(r, scope)
                            hit = True
                            break
                if not hit:
                    rest.append(c)
            if row is not None:
                isc = Scope({fi.alias: ('table', table, row.z)}, [fi.alias], scope)
                found = z_and(self.db.in_(table)(row.z), z_not(row.none) if row.none is not None else True,
                              *[self.cond(c, isc) for c in rest])
                v = self.expr(sel.cols[0][0], isc)
                n = z_or(z_not(found), v.none if v.none is not None else False)
                return SV(v.kind, v.z, z3.simplify(z_bool(n)))
        # (2) keyed lookup(s): equalities (or disjunctions of equalities) per alias, joins by foreign key
        keys: dict = {a: [] for a in aliases}
        joins = []      # (main alias, fk col, joined alias)
        for c in conj:
            done = False
            if isinstance(c, P.Bin) and c.op == '=':
                l, r = c.left, c.right
                if isinstance(l, P.Col) and isinstance(r, P.Col) and alias_of(l) and alias_of(r):
                    for x, y in ((l, r), (r, l)):
                        if y.name == 'rowid' and x.name != 'rowid':
                            joins.append((alias_of(x), x.name, alias_of(y)))
                            done = True
                            break
                if not done:
                    for x, y in ((l, r), (r, l)):
                        if isinstance(x, P.Col) and alias_of(x) and not inner(y):
                            keys[alias_of(x)].append((x.name, self.expr(y, scope)))
                            done = True
                            break
            elif isinstance(c, P.Bin) and c.op == 'OR':
                alts = flatten_or(c)
                parts = []
                al = None
                for a in alts:
                    ok = False
                    if isinstance(a, P.Bin) and a.op in ('=', 'IS'):
                        for x, y in ((a.left, a.right), (a.right, a.left)):
                            if isinstance(x, P.Col) and alias_of(x) and not inner(y):
                                if al is None or al == alias_of(x):
                                    al = alias_of(x)
                                    # a null-safe comparison is a different key: `col IS NULL` matches rows that
                                    # `col = NULL` never does (the canonical row of the look-up differs)
                                    parts.append((x.name + (' IS' if a.op == 'IS' else ''), self.expr(y, scope)))
                                    ok = True
                                    break
                    if not ok:
                        parts = None
                        break
                if parts:
                    keys[al].append(('|'.join(p[0] for p in parts), tuple(p[1] for p in parts)))
                    done = True
            if not done:
                raise Unsupported('scalar sub-select with a condition that is not a key equality')
        resultcol = sel.cols[0][0]
        if not isinstance(resultcol, P.Col) or alias_of(resultcol) != fi.alias:
            raise Unsupported('scalar sub-select result expression')
        main_keys = list(keys[fi.alias])
        for (ma, fk, ja) in joins:
            if ma != fi.alias:
                raise Unsupported('scalar sub-select join shape')
            jk = sorted(keys[ja], key=lambda kv: kv[0])
            jrow = self.lookup(aliases[ja], 'rowid', jk)
            main_keys.append((fk, jrow))
        for a in aliases:
            if a != fi.alias and a not in [j[2] for j in joins]:
                raise Unsupported('scalar sub-select with an unjoined table')
        main_keys.sort(key=lambda kv: kv[0])
        return self.lookup(table, resultcol.name, main_keys)

    def lookup(self, table: str, resultcol: str, keys: list) -> SV:
        """(SELECT resultcol FROM table WHERE k1 = a1 AND (k2 = a2 OR k3 = a3) ...): some row with those key
        values (the first one SQLite finds; unique when the key is declared or assumed unique).  The row is a
        canonical uninterpreted function of the key values, so that the code and the specification denote the
        same row when they look up the same keys."""
        names = [k for k, _ in keys]
        flat_names, flat_vals = [], []
        for k, v in keys:
            if '|' in k:
                for kk, vv in zip(k.split('|'), v):
                    flat_names.append(kk)
                    flat_vals.append(vv)
            else:
                flat_names.append(k)
                flat_vals.append(v)
        col = lambda k: k[:-3] if k.endswith(' IS') else k      # noqa: E731  (null-safe key: see scalar())
        sorts = [SORTS[self.db.colkind(table, col(k))] for k in flat_names]
        fname = f'first[{table}.{"+".join(names)}]{self.db.tag}'
        row_f = z3.Function(fname, *sorts, z3.IntSort())
        found_f = z3.Function(fname + '.found', *sorts, z3.BoolSort())
        args = []
        vals = []
        for k, v, s in zip(flat_names, flat_vals, sorts):
            kind = self.db.colkind(table, col(k))
            v = self._as_sql_value(v)
            if v.kind != kind:
                if v.none is not None and z3.is_true(z3.simplify(v.none)):
                    v = SV(kind, z3.Const(f'null:{kind}', SORTS[kind]), z3.BoolVal(True))
                else:
                    raise BindError(f'lookup key {table}.{k} ({kind}) compared with a value of kind {v.kind}')
            # NULL never compares equal: normalise the value term so that equal look-ups give equal terms
            z = z3.If(v.none, z3.Const(f'null:{kind}', SORTS[kind]), v.z) if v.none is not None else v.z
            args.append(z3.simplify(z))
            vals.append(v)
        row = row_f(*args)
        # a conjunctive key that is NULL can never match
        conj_null = []
        i = 0
        eqs = [self.db.in_(table)(row)]
        for k, v in keys:
            group = k.split('|')
            alts = []
            for kk in group:
                val = vals[i]
                cv = self.db.value(table, col(kk), row)
                e = cv.z == val.z
                if cv.none is not None:
                    e = z3.And(z3.Not(cv.none), e)
                if val.none is not None:
                    e = z3.And(z3.Not(val.none), e)
                alts.append(e)
                i += 1
            if len(group) == 1 and vals[i - 1].none is not None:
                conj_null.append(vals[i - 1].none)
            eqs.append(z_or(*alts))
        found = z_and(found_f(*args), *[z_not(n) for n in conj_null])
        # defining axioms (instantiated for these arguments)
        self.side.append(z3.Implies(found, z3.And(*eqs)))
        r = z3.Int('r$lk')
        eqs_r = [z3.substitute(e, (row, r)) for e in eqs]
        unique = any(set(u) <= set(flat_names) for u in self.db.schema.table(table).uniques) and \
            all('|' not in k for k in names)
        concl = [found_f(*args)]
        if unique:
            concl.append(row == r)
        self.side.append(z3.ForAll([r], z3.Implies(z3.And(*eqs_r), z3.And(*concl)),
                                   patterns=[self.db.in_(table)(r)]))
        v = self.db.value(table, resultcol, row)
        n = z_or(z_not(found), v.none if v.none is not None else False)
        res = SV(v.kind, v.z, z3.simplify(z_bool(n)))
        res.lookup = (table, resultcol, tuple(names), tuple(args), found)
        res.lookup_keys = list(vals)
        return res

    def _refers_inner(self, col: P.Col, fi, table):
        if col.table is not None:
            return col.table == fi.alias
        return col.name == 'rowid' or self.db.schema.table(table).col(col.name) is not None

    def _mentions_inner(self, e, fi, table) -> bool:
        if isinstance(e, P.Col):
            return self._refers_inner(e, fi, table) if e.table in (None, fi.alias) and \
                (e.table == fi.alias or e.table is None and (
                    e.name == 'rowid' or self.db.schema.table(table).col(e.name) is not None)) else False
        if isinstance(e, P.Bin):
            return self._mentions_inner(e.left, fi, table) or self._mentions_inner(e.right, fi, table)
        return False

    # -- SELECT ---------------------------------------------------------------------------------
    def select_core(self, sel: P.Select, outer: Optional[Scope] = None):
        """-> (binders, guard, [(name, SV)], scope)"""
        if sel.union is not None:
            raise Unsupported('UNION outside of a recursive CTE')
        scope = Scope(parent=outer)
        binders: list[Binder] = []
        guards = []
        for fi in sel.frm:
            self.add_from_item(fi, scope, binders, guards)
            if fi.on is not None:
                guards.append(self.cond(fi.on, scope))
        if sel.where is not None:
            guards.append(self.cond(sel.where, scope))
        proj = []
        for e, alias in sel.cols:
            if isinstance(e, P.Star):
                for a in scope.order:
                    it = scope.items[a]
                    if e.table is not None and a != e.table:
                        continue
                    if it[0] == 'table':
                        for c in self.db.schema.table(it[1]).columns:
                            proj.append((c.name, self.db.value(it[1], c.name, it[2])))
                    else:
                        proj.extend(it[1].items())
                continue
            v = self.expr(e, scope)
            name = alias or (e.name if isinstance(e, P.Col) else None)
            proj.append((name, v))
        return binders, z_and(*guards), proj, scope

    def add_from_item(self, fi: P.FromItem, scope: Scope, binders, guards):
        src = fi.source
        if isinstance(src, str) and src in self.ctes:
            cte = self.ctes[src]
            if isinstance(cte.body, P.Select):
                sub_b, sub_g, sub_p, _ = self.select_core(cte.body, None)
                cols = {}
                names = cte.cols or [n for n, _ in sub_p]
                for n, (_, v) in zip(names, sub_p):
                    cols[n] = v
                binders.extend(sub_b)
                guards.append(sub_g)
                scope.items[fi.alias] = ('derived', cols)
                scope.order.append(fi.alias)
                return
            if isinstance(cte.body, tuple) and cte.body[0] == 'values':
                seq = self.group(cte.body[1])
                if not isinstance(seq, SList):
                    raise Unsupported('FROM over a VALUES cte bound to a non-list')
                i = z3.Int(fresh_name(fi.alias + '_i'))
                binders.append(Binder(i, seq.range_constraint(i), 'cte ' + src, ('cte', src)))
                elem = seq.at(i)
                scope.items[fi.alias] = ('derived', {cte.cols[0]: self._as_sql_value(elem)})
                scope.order.append(fi.alias)
                return
            raise Unsupported('FROM over this kind of CTE')
        if isinstance(src, str):
            self.db.schema.table(src) if src in self.db.schema.tables else (_ for _ in ()).throw(
                Unsupported(f'unknown table {src}'))
            r = z3.Int(fresh_name(f'{fi.alias}_row'))
            binders.append(Binder(r, self.db.in_(src)(r), f'{src} AS {fi.alias}', ('table', src, fi.alias)))
            scope.items[fi.alias] = ('table', src, r)
            scope.order.append(fi.alias)
            return
        if isinstance(src, P.Select):
            if src.distinct or src.order or src.limit is not None:
                raise Unsupported('DISTINCT/ORDER/LIMIT in a FROM sub-select')
            sub_b, sub_g, sub_p, _ = self.select_core(src, scope.parent)
            binders.extend(sub_b)
            guards.append(sub_g)
            scope.items[fi.alias] = ('derived', {n: v for n, v in sub_p if n is not None})
            scope.order.append(fi.alias)
            return
        raise Unsupported('FROM item')

    def select_seq(self, sel: P.Select, label: str = 'select') -> Seq:
        binders, guard, proj, scope = self.select_core(sel)
        order = None
        if sel.order:
            order = []
            for e, d in sel.order:
                order.append((self.expr(e, scope), d))
        elem = tuple(v for _, v in proj)
        loop = Loop(binders, guard, [Lit(elem)], order=order, unordered=not sel.order)
        seq = Seq([loop], distinct=sel.distinct, label=label)
        seq.colnames = [n for n, _ in proj]
        seq.limit = None
        if sel.limit is not None:
            lv = self.expr(sel.limit, scope)
            seq.limit = lv
        seq.sql_binders = binders
        return seq


class UnknownColumn(Unsupported):
    pass


class BindError(Exception):
    """Placeholder / parameter misalignment: a failed obligation (never 'unsupported')."""


def flatten_or(e) -> list:
    if isinstance(e, P.Bin) and e.op == 'OR':
        return flatten_or(e.left) + flatten_or(e.right)
    return [e]


def flatten_and(e) -> list:
    if isinstance(e, P.Bin) and e.op == 'AND':
        return flatten_and(e.left) + flatten_and(e.right)
    return [e]


_seq_has: dict = {}


def seq_has(seq: SList, kind: str):
    key = (seq.name, kind)
    if key not in _seq_has:
        _seq_has[key] = z3.Function(f'{seq.name}.has', SORTS[kind], z3.BoolSort())
    return _seq_has[key]


def seq_has_axiom(seq: SList, kind: str):
    """has(x) <=> exists i in range: elem(i) == x   (added only where an obligation needs it)."""
    f = seq_has(seq, kind)
    x = z3.Const('x', SORTS[kind])
    i = z3.Int('i')
    e = seq.at(i)
    return z3.ForAll([x], f(x) == z3.Exists([i], z3.And(seq.range_constraint(i), e.z == x)))


_concat = None
_glob = None


def concat_fn():
    global _concat
    if _concat is None:
        _concat = z3.Function('sql_concat', UStr, UStr, UStr)
    return _concat


def glob_fn():
    global _glob
    if _glob is None:
        _glob = z3.Function('sql_glob', UStr, UStr, z3.BoolSort())
    return _glob
