"""Symbolic value model of pyvc.

A value is either a plain (concrete) Python object, or one of the Sym classes below.

SV        scalar:  kind in int|real|bool|str|zstr|meta|obj ; optional `none` flag (z3 Bool) for Optional[T]
SRec      TypedDict-like dict with a finite key universe: key -> Slot(present, value); mutable
SList     symbolic-length input list; element i is built lazily from uninterpreted functions of the index tuple
Seq tree  result of comprehensions / accumulator loops / SELECTs:
            Lit(elem, guard)           one optional element
            Loop(binders, guard, kids) for binders (constraint = range or table membership): kids in order
SSet      set view of a sequence (membership = exists), iteration order unconstrained
SMap      dict built from a sequence of (key, value) (lookup = some matching instance / last for concrete)
SObj      instance of a real class interpreted symbolically (attrs dict)
"""
from __future__ import annotations

import itertools
from dataclasses import dataclass, field
from typing import Any, Optional

import z3

UStr = z3.DeclareSort('UStr')
Meta = z3.DeclareSort('Meta')
Obj = z3.DeclareSort('Obj')

SORTS = {'int': z3.IntSort(), 'real': z3.RealSort(), 'bool': z3.BoolSort(), 'str': UStr,
         'zstr': z3.StringSort(), 'meta': Meta, 'obj': Obj}

_fresh = itertools.count()


def fresh_name(base: str) -> str:
    return f'{base}!{next(_fresh)}'


class Sym:
    pass


# ---------------------------------------------------------------------------------------------
# interned string literals of the uninterpreted string sort

class Literals:
    def __init__(self):
        self.by_text: dict[str, Any] = {}

    def lit(self, s: str):
        if s not in self.by_text:
            self.by_text[s] = z3.Const('lit_' + repr(s), UStr)
        return self.by_text[s]

    def axioms(self) -> list:
        cs = list(self.by_text.values())
        return [z3.Distinct(*cs)] if len(cs) > 1 else []

    def text_of(self, term) -> Optional[str]:
        for s, c in self.by_text.items():
            if c.eq(term):
                return s
        return None


LITS = Literals()
EMPTY_META = z3.Const('EMPTY_META', Meta)
meta_is_empty = z3.Function('meta_is_empty', Meta, z3.BoolSort())


class SV(Sym):
    __slots__ = ('kind', 'z', 'none')

    def __init__(self, kind: str, z, none=None):
        self.kind = kind
        self.z = z
        self.none = none   # None = definitely not None; else z3 Bool "is None"

    def __repr__(self):
        n = f' none={self.none}' if self.none is not None else ''
        return f'SV<{self.kind} {self.z}{n}>'

    def __hash__(self):
        return id(self)


def mk(kind: str, name: str, optional: bool = False) -> SV:
    z = z3.Const(name, SORTS[kind])
    none = z3.Bool(name + '.isNone') if optional else None
    return SV(kind, z, none)


def lift(v, kind_hint: Optional[str] = None) -> SV:
    """Concrete Python scalar -> SV (for mixing with symbolic operands)."""
    if isinstance(v, SV):
        return v
    if v is None:
        k = kind_hint or 'str'
        return SV(k, z3.Const(f'none:{k}', SORTS[k]), z3.BoolVal(True))
    if isinstance(v, bool):
        if kind_hint == 'int':
            return SV('int', z3.IntVal(int(v)))
        return SV('bool', z3.BoolVal(v))
    if isinstance(v, int):
        if kind_hint == 'real':
            return SV('real', z3.RealVal(v))
        if kind_hint == 'bool':
            return SV('bool', z3.BoolVal(bool(v)))
        return SV('int', z3.IntVal(v))
    if isinstance(v, float):
        if v != v or v in (float('inf'), float('-inf')):
            raise ValueError('non-finite float')
        return SV('real', z3.RealVal(repr(v)))
    if isinstance(v, str):
        if kind_hint == 'zstr':
            return SV('zstr', z3.StringVal(v))
        return SV('str', LITS.lit(v))
    if isinstance(v, dict) and not v and kind_hint == 'meta':
        return SV('meta', EMPTY_META)
    raise TypeError(f'cannot lift {type(v).__name__} to a symbolic scalar')


def is_sym(v) -> bool:
    return isinstance(v, Sym)


def truthy(v):
    """z3 Bool (or Python bool) of Python truthiness."""
    if type(v).__name__ == 'JoinedTokens':
        toks = v.tokens
        if isinstance(toks, list):
            return len(toks) > 0
        return toks.nonempty() if hasattr(toks, 'nonempty') else True
    if isinstance(v, SV):
        if v.kind == 'bool':
            t = v.z
        elif v.kind == 'int':
            t = v.z != 0
        elif v.kind == 'real':
            t = v.z != 0
        elif v.kind == 'str':
            t = v.z != LITS.lit('')
        elif v.kind == 'zstr':
            t = z3.Length(v.z) > 0
        elif v.kind == 'meta':
            t = z3.Not(meta_is_empty(v.z))
        else:
            t = z3.BoolVal(True)
        if v.none is not None:
            return z3.And(z3.Not(v.none), t)
        return t
    if isinstance(v, SRec):
        return z3.Or(*[s.present if not isinstance(s.present, bool) else z3.BoolVal(s.present)
                       for s in v.slots.values()]) if v.slots else False
    if isinstance(v, SeqBase):
        return v.nonempty()
    if isinstance(v, (SOptRec, SOptTuple)):
        return v.present
    if isinstance(v, SObj):
        return True
    if type(v).__name__ == 'AbstractFn':
        return True
    if type(v).__name__ == 'TruthOnly':
        return v.t
    return bool(v)


def z_and(*xs):
    ys = []
    for x in xs:
        if x is True:
            continue
        if x is False:
            return z3.BoolVal(False)
        if z3.is_true(x):
            continue
        ys.append(x)
    if not ys:
        return z3.BoolVal(True)
    return ys[0] if len(ys) == 1 else z3.And(*ys)


def z_or(*xs):
    ys = []
    for x in xs:
        if x is False:
            continue
        if x is True:
            return z3.BoolVal(True)
        if z3.is_false(x):
            continue
        ys.append(x)
    if not ys:
        return z3.BoolVal(False)
    return ys[0] if len(ys) == 1 else z3.Or(*ys)


def z_not(x):
    if x is True:
        return z3.BoolVal(False)
    if x is False:
        return z3.BoolVal(True)
    return z3.Not(x)


def z_bool(x):
    return z3.BoolVal(x) if isinstance(x, bool) else x


# ---------------------------------------------------------------------------------------------
# records

@dataclass
class Slot:
    present: Any      # bool or z3 Bool
    value: Any


class SRec(Sym):
    """dict with finite key universe. Keys outside `slots` are absent (closed record) unless open_=True."""

    def __init__(self, name: str, slots: Optional[dict] = None, ident=None):
        self.name = name
        self.slots: dict[str, Slot] = slots or {}
        self.ident = ident    # z3 term identifying the object (for frame checks), optional
        self.frozen_note: list = []   # mutation log (key, guard) for frame obligations

    def __repr__(self):
        return f'SRec<{self.name} {list(self.slots)}>'

    def __hash__(self):
        return id(self)

    def copy(self):
        r = SRec(self.name, {k: Slot(s.present, s.value) for k, s in self.slots.items()}, self.ident)
        return r


class Mixed(Sym):
    """A cell whose Python type depends on a condition (d[k] = bool(...) stored under a predicate over a str):
    alternatives (guard, value), guards mutually exclusive and exhaustive."""

    def __init__(self, alts):
        self.alts = list(alts)

    def __hash__(self):
        return id(self)


class SOptRec(Sym):
    """`rec.get(key)` for an optional nested record: the record if `present` else None."""

    def __init__(self, present, rec):
        self.present = present
        self.rec = rec

    def __hash__(self):
        return id(self)


class SOptTuple(Sym):
    """fetchone() inside a generic iteration: the row tuple if `present` else None."""

    def __init__(self, present, elem):
        self.present = present
        self.elem = elem

    def __hash__(self):
        return id(self)


class SObj(Sym):
    """Instance of a (real) class, attributes held symbolically."""

    def __init__(self, cls, attrs: Optional[dict] = None, name: str = ''):
        self.cls = cls
        self.attrs: dict[str, Any] = attrs or {}
        self.name = name or fresh_name(getattr(cls, '__name__', 'obj'))

    def __repr__(self):
        return f'SObj<{getattr(self.cls, "__name__", self.cls)} {self.name}>'

    def __hash__(self):
        return id(self)


# ---------------------------------------------------------------------------------------------
# sequences

@dataclass
class Binder:
    var: Any            # z3 Int const
    constraint: Any     # z3 Bool over var (+ outer binders): range or table membership
    origin: str = ''    # description (list name / table alias)
    key: Any = None     # structural identity used for alignment (e.g. ('list', name) or ('table', t))


class SeqBase(Sym):
    def nonempty(self):
        raise NotImplementedError

    def leaves(self):
        """Yield (binders, guard, elem, orderkey) for every Lit leaf, in syntactic order."""
        raise NotImplementedError


@dataclass
class Lit:
    elem: Any
    guard: Any = True


@dataclass
class Loop:
    binders: list            # list[Binder]
    guard: Any               # additional z3 guard
    kids: list               # list[Lit|Loop]
    order: Any = None        # None = binder order (index); or list of sort key terms (SELECT ... ORDER BY)
    unordered: bool = False  # order unspecified (SELECT without ORDER BY, set iteration)
    src: Any = None          # the sequence object this loop ranges over (provenance, for SQL bind maps)
    reverse: bool = False    # iterated in reverse order (reversed(...))


class Seq(SeqBase):
    """Concatenation of nodes."""

    def __init__(self, nodes: Optional[list] = None, distinct: bool = False, label: str = ''):
        self.nodes: list = nodes if nodes is not None else []
        self.distinct = distinct
        self.label = label

    def __repr__(self):
        return f'Seq<{self.label} {len(self.nodes)} nodes>'

    def __hash__(self):
        return id(self)

    def leaves(self, nodes=None, binders=(), guard=True, loops=()):
        for n in (self.nodes if nodes is None else nodes):
            if isinstance(n, Lit):
                yield (list(binders), z_and(guard, n.guard), n.elem, list(loops))
            else:
                yield from self.leaves(n.kids, tuple(binders) + tuple(n.binders),
                                       z_and(guard, n.guard), tuple(loops) + (n,))

    def nonempty(self):
        alts = []
        for binders, guard, _elem, _ in self.leaves():
            body = z_and(*[b.constraint for b in binders], guard)
            vs = [b.var for b in binders]
            alts.append(z3.Exists(vs, body) if vs else body)
        return z_or(*alts)

    def contains(self, x_eq):
        """x_eq(elem) -> z3 Bool equality of elem with the probe."""
        alts = []
        for binders, guard, elem, _ in self.leaves():
            body = z_and(*[b.constraint for b in binders], guard, x_eq(elem))
            vs = [b.var for b in binders]
            alts.append(z3.Exists(vs, body) if vs else body)
        return z_or(*alts)


class SList(SeqBase):
    """Symbolic-length input list.  elem_at(idx_tuple) builds the element for a z3 index."""

    def __init__(self, name: str, make_elem, parents: tuple = (), length=None):
        self.name = name
        self.make_elem = make_elem          # (path_name, idx_tuple) -> value
        self.parents = tuple(parents)       # z3 index terms of enclosing lists
        if length is None:
            if parents:
                f = z3.Function(name + '.len', *[p.sort() for p in parents], z3.IntSort())
                length = f(*parents)
            else:
                length = z3.Int(name + '.len')
        self.length = length
        self._cache: dict = {}

    def __repr__(self):
        return f'SList<{self.name}>'

    def __hash__(self):
        return id(self)

    def at(self, i):
        key = i.sexpr() if hasattr(i, 'sexpr') else str(i)
        if key not in self._cache:
            self._cache[key] = self.make_elem(self.name, self.parents + (i,))
        return self._cache[key]

    def range_constraint(self, i):
        return z3.And(i >= 0, i < self.length)

    def as_seq(self, start=None) -> Seq:
        i = z3.Int(fresh_name(self.name.split('.')[-1] + '_i'))
        b = Binder(i, self.range_constraint(i), self.name, ('list', self.name,
                                                            tuple(str(p) for p in self.parents)))
        return Seq([Loop([b], True, [Lit(self.at(i))], src=self)], label=self.name)

    def nonempty(self):
        return self.length > 0

    def leaves(self):
        return self.as_seq().leaves()


class SSet(Sym):
    """Set view of a sequence."""

    def __init__(self, seq: Seq, label: str = ''):
        self.seq = seq
        self.label = label

    def __hash__(self):
        return id(self)


class SMap(Sym):
    """dict built from a sequence whose elements are (key, value) pairs."""

    def __init__(self, seq: Seq, label: str = ''):
        self.seq = seq
        self.label = label

    def __hash__(self):
        return id(self)


class SSorted(Sym):
    """sorted(set-like) : elements of `seq` in value order, duplicates removed iff src is a set."""

    def __init__(self, seq: Seq, dedup: bool):
        self.seq = seq
        self.dedup = dedup

    def __hash__(self):
        return id(self)


class SChunk(SeqBase):
    """A generic batch produced by _batch(X): a contiguous chunk of X (see interp: chunk homomorphism)."""

    def __init__(self, src):
        self.src = src

    def __hash__(self):
        return id(self)

    def nonempty(self):
        return True

    def leaves(self):
        s = self.src.as_seq() if isinstance(self.src, SList) else self.src
        return s.leaves()


class SBatched(Sym):
    def __init__(self, src):
        self.src = src

    def __hash__(self):
        return id(self)


class SqlText(Sym):
    """SQL text under construction: list of parts, str | ('qs'|'vs'|'kws', seq)."""

    def __init__(self, parts):
        self.parts = list(parts)

    def __hash__(self):
        return id(self)

    def __repr__(self):
        return 'SqlText<' + ''.join(p if isinstance(p, str) else f'<{p[0]}>' for p in self.parts) + '>'


class SRepeat(Sym):
    """'?' * n  or ['(?)'] * n with symbolic n = len(seq)."""

    def __init__(self, unit, seq, is_list: bool):
        self.unit = unit
        self.seq = seq
        self.is_list = is_list

    def __hash__(self):
        return id(self)


class SLen(SV):
    """len(seq) for a symbolic sequence; remembers the sequence."""
    __slots__ = ('seq',)

    def __init__(self, z, seq):
        super().__init__('int', z)
        self.seq = seq


def ite(c, a, b, lift_strings: bool = True):
    """Merge two values under z3 condition c."""
    from vc.core import Unsupported
    if a is b:
        return a
    if not lift_strings and isinstance(a, str) and isinstance(b, str) and a != b:
        raise Unsupported('merge of two different concrete strings (fork instead)')
    if c is True or (not isinstance(c, bool) and z3.is_true(c)):
        return a
    if c is False or (not isinstance(c, bool) and z3.is_false(c)):
        return b
    if not is_sym(a) and not is_sym(b):
        try:
            if type(a) is type(b) and a == b:
                return a
        except Exception:
            pass
    if isinstance(a, tuple) and isinstance(b, tuple) and len(a) == len(b):
        return tuple(ite(c, x, y) for x, y in zip(a, b))
    if type(a).__name__ == 'MDict' and type(b).__name__ == 'MDict' and a.is_concrete() and b.is_concrete():
        # two concrete-key dicts: a record whose keys are present under the respective condition
        out = SRec('ite-dict')
        for k in list(dict.fromkeys(list(a.d) + list(b.d))):
            ina, inb = k in a.d, k in b.d
            if ina and inb:
                out.slots[k] = Slot(True, ite(c, a.d[k], b.d[k]))
            elif ina:
                out.slots[k] = Slot(z_bool(c), a.d[k])
            else:
                out.slots[k] = Slot(z3.Not(z_bool(c)), b.d[k])
        return out
    if isinstance(a, SRec) and isinstance(b, SRec):
        keys = list(dict.fromkeys(list(a.slots) + list(b.slots)))
        out = SRec(a.name)
        for k in keys:
            sa = a.slots.get(k, Slot(False, None))
            sb = b.slots.get(k, Slot(False, None))
            pres = z3.If(c, z_bool(sa.present), z_bool(sb.present))
            if sa.value is None and sa.present is False:
                val = sb.value
            elif sb.value is None and sb.present is False:
                val = sa.value
            else:
                val = ite(c, sa.value, sb.value)
            out.slots[k] = Slot(z3.simplify(pres), val)
        return out
    if type(a).__name__ == 'MList' and type(b).__name__ == 'MList':
        # (xs if c else ys) as a sequence: the elements of xs under c followed by those of ys under not c
        from vc.pyvc import interp as _I
        cz = z_bool(c)
        return _I.MList(nodes=[_I._with_guard(n, cz) for n in a.nodes] +
                              [_I._with_guard(n, z3.Not(cz)) for n in b.nodes])
    if isinstance(a, SRec) and b is None:
        return SOptRec(z_bool(c), a)
    if isinstance(b, SRec) and a is None:
        return SOptRec(z3.Not(z_bool(c)), b)
    # scalars (possibly one side None)
    if a is None or b is None or isinstance(a, (SV, bool, int, float, str)) and \
            isinstance(b, (SV, bool, int, float, str)):
        kind = None
        for x in (a, b):
            if isinstance(x, SV):
                kind = x.kind
        if kind is None:
            for x in (a, b):
                if isinstance(x, bool):
                    kind = 'bool'
                elif isinstance(x, int):
                    kind = kind or 'int'
                elif isinstance(x, float):
                    kind = 'real'
                elif isinstance(x, str):
                    kind = 'str'
        if kind is None:
            raise Unsupported('ite of two None-like values')
        sa, sb = lift(a, kind), lift(b, kind)
        if sa.kind != sb.kind:
            if {sa.kind, sb.kind} == {'int', 'real'}:
                sa = SV('real', z3.ToReal(sa.z), sa.none) if sa.kind == 'int' else sa
                sb = SV('real', z3.ToReal(sb.z), sb.none) if sb.kind == 'int' else sb
            else:
                raise Unsupported(f'ite of different kinds {sa.kind}/{sb.kind}')
        none = None
        if sa.none is not None or sb.none is not None:
            none = z3.If(c, sa.none if sa.none is not None else z3.BoolVal(False),
                         sb.none if sb.none is not None else z3.BoolVal(False))
            none = z3.simplify(none)
        return SV(sa.kind, z3.If(c, sa.z, sb.z), none)
    raise Unsupported(f'cannot merge values of types {type(a).__name__} / {type(b).__name__}')


def val_eq(a, b):
    """Python == as z3 Bool / bool for scalars, tuples, None."""
    if a is None and b is None:
        return True
    if isinstance(a, tuple) and isinstance(b, tuple):
        if len(a) != len(b):
            return False
        return z_and(*[z_bool(val_eq(x, y)) for x, y in zip(a, b)])
    if not is_sym(a) and not is_sym(b):
        return a == b
    if isinstance(a, SV) or isinstance(b, SV):
        if a is None:
            return b.none if b.none is not None else False
        if b is None:
            return a.none if a.none is not None else False
        kind = a.kind if isinstance(a, SV) else b.kind
        try:
            sa, sb = lift(a, kind), lift(b, kind)
        except TypeError:
            return False
        if sa.kind != sb.kind:
            if {sa.kind, sb.kind} <= {'int', 'real', 'bool'}:
                def num(s):
                    if s.kind == 'bool':
                        return z3.If(s.z, 1, 0)
                    return s.z
                core = num(sa) == num(sb)
            else:
                return False
        else:
            core = sa.z == sb.z
        na = sa.none if sa.none is not None else z3.BoolVal(False)
        nb = sb.none if sb.none is not None else z3.BoolVal(False)
        if sa.none is None and sb.none is None:
            return core
        return z3.Or(z3.And(na, nb), z3.And(z3.Not(na), z3.Not(nb), core))
    if isinstance(a, SObj) and isinstance(b, SObj):
        return a is b
    from vc.core import Unsupported
    raise Unsupported(f'equality of {type(a).__name__} and {type(b).__name__}')
