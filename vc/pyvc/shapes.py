"""Symbolic records generated mechanically from the TypedDict classes of wn/lmf.py (re-read on every run).

Required keys (``__required_keys__``) are present; optional keys get a presence bit; list fields are
symbolic-length lists whose element fields are uninterpreted functions of the index tuple; unions of TypedDicts
(Form | ExternalForm ...) become one record with the union of the keys (a key is required only if it is
required in every alternative); ``Literal['true']`` (the `external` marker) is a bool (the loader stores True).
"""
from __future__ import annotations

import typing
from typing import Any, Optional

import z3

from vc.core import Unsupported
from vc.pyvc.values import SV, SRec, SList, Slot, SORTS


MUTATION_LOG: list = []     # (record name, key, guard, binders, pc) of every store into an input record


def _is_typeddict(t) -> bool:
    return isinstance(t, type) and issubclass(t, dict) and hasattr(t, '__required_keys__')


class _Log:
    def __init__(self, name):
        self.name = name

    def append(self, item):
        MUTATION_LOG.append((self.name,) + tuple(item))


def _fn(name: str, idx: tuple, sort):
    if idx:
        return z3.Function(name, *[i.sort() for i in idx], sort)(*idx)
    return z3.Const(name, sort)


def sym_value(tp, name: str, idx: tuple = ()):
    """Symbolic value of annotated type `tp`; leaves named `name`, functions of the index tuple `idx`."""
    origin = typing.get_origin(tp)
    args = typing.get_args(tp)
    if tp is str:
        return SV('str', _fn(name, idx, SORTS['str']))
    if tp is int:
        return SV('int', _fn(name, idx, SORTS['int']))
    if tp is bool:
        return SV('bool', _fn(name, idx, SORTS['bool']))
    if tp is float:
        return SV('real', _fn(name, idx, SORTS['real']))
    if origin is typing.Literal:
        return SV('bool', _fn(name, idx, SORTS['bool']))
    if origin is typing.Union:
        nonnone = [a for a in args if a is not type(None)]
        optional = len(nonnone) != len(args)
        if all(_is_typeddict(a) for a in nonnone):
            if len(nonnone) == 1 and _is_typeddict(nonnone[0]) and nonnone[0].__name__ == 'Metadata':
                return SV('meta', _fn(name, idx, SORTS['meta']), _fn(name + '.isNone', idx, z3.BoolSort())
                          if optional else None)
            rec = sym_record(nonnone, name, idx)
            if optional:
                from vc.pyvc.values import SOptRec
                return SOptRec(z3.Not(_fn(name + '.isNone', idx, z3.BoolSort())), rec)
            return rec
        if len(nonnone) == 1:
            v = sym_value(nonnone[0], name, idx)
            if optional and isinstance(v, SV):
                v.none = _fn(name + '.isNone', idx, z3.BoolSort())
            return v
        raise Unsupported(f'union type {tp} at {name}')
    if origin in (list, typing.List):
        elem_t = args[0]

        def make(path, eidx, elem_t=elem_t):
            return sym_value(elem_t, path, tuple(eidx))
        return SList(name, make, tuple(idx))
    if _is_typeddict(tp):
        if tp.__name__ == 'Metadata':
            return SV('meta', _fn(name, idx, SORTS['meta']))
        return sym_record([tp], name, idx)
    raise Unsupported(f'no symbolic value for type {tp!r} at {name}')


def sym_record(alternatives: list, name: str, idx: tuple = ()) -> SRec:
    hints: dict = {}
    required_all = None
    for td in alternatives:
        h = typing.get_type_hints(td)
        for k, v in h.items():
            if k in hints and hints[k] != v:
                # same key with different types in the alternatives: union of the types
                a, b = hints[k], v
                if typing.get_origin(a) is list and typing.get_origin(b) is list:
                    hints[k] = list[typing.Union[typing.get_args(a)[0], typing.get_args(b)[0]]]
                else:
                    hints[k] = typing.Union[a, b]
            else:
                hints[k] = v
        req = set(td.__required_keys__)
        required_all = req if required_all is None else (required_all & req)
    rec = SRec(name)
    rec.alternatives = [td.__name__ for td in alternatives]
    rec.mutation_log = _Log(name)
    for k, tp in hints.items():
        val = sym_value(tp, f'{name}.{k}', idx)
        if k in required_all:
            present = True
        else:
            present = _fn(f'{name}.{k}.present', idx, z3.BoolSort())
        rec.slots[k] = Slot(present, val)
    return rec
