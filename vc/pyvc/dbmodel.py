"""Contracts of the sqlite3 objects as pyvc handlers (assumed: A-SQLITE, A-TXN) + extraction of the SQL that
the real functions build.  Every execute()/executemany() is recorded as an Event in the path's effect log;
SELECTs are translated by sqlvc into sequence trees that the interpreted callers consume.
"""
from __future__ import annotations

from typing import Any, Optional

import z3

from vc.core import Unsupported
from vc.pyvc.values import (SV, SObj, Sym, Seq, Lit, Loop, Binder, SList, SqlText, SeqBase, fresh_name, z_and,
                            z_bool, z_not, z_or, is_sym)
from vc.pyvc import interp as I
from vc.pyvc.interp import (Event, MList, MDict, ParamSeq, PyRaise, SymMethod, contains_sym, to_native)
from vc.pyvc import builtins_sym as B
from vc.sqlvc import parse as P
from vc.sqlvc.encode import DB, Encoder, Params, BindError
from vc.sqlvc.schema import Schema, load_schema


class World:
    """Shared (per exploration) description of the database and of the contracts in force."""

    def __init__(self, schema: Optional[Schema] = None, tag: str = ''):
        self.schema = schema or load_schema()
        self.db = DB(self.schema, tag)
        self.bind_errors: list = []
        self.statements: list = []      # (sql parts, parsed ast, params) of every statement seen

    def contracts(self) -> dict:
        import wn._db
        return {
            wn._db.connect: self.h_connect,
            'wn._db.connect': self.h_connect,
        }

    def h_connect(self, it, args, kwargs, node):
        conn = getattr(it, '_vc_conn', None)
        if conn is None:
            conn = ConnObj(self)
            it._vc_conn = conn
        it.ctx.effects.append(Event('connect', obj=conn, node=node, pc_len=len(it.ctx.pc)))
        return conn


def flatten_params(params) -> Params:
    """Python parameter object -> slots."""
    if params is None:
        return Params()
    if isinstance(params, MDict):
        if not params.is_concrete():
            raise Unsupported('symbolic named parameters')
        rc = getattr(params, 'rec_copy', None)
        named = dict(params.d)
        p = Params(named=named)
        p.rec = rc
        return p
    if isinstance(params, dict):
        return Params(named=dict(params))
    from vc.pyvc.values import SRec, SOptRec
    if isinstance(params, SOptRec):
        params = params.rec      # executing with None would raise; the call is guarded by the program
    if isinstance(params, SRec):
        p = Params(named={})
        p.rec = params
        return p
    slots = []
    if isinstance(params, ParamSeq):
        for kind, v in params.parts:
            if kind == 'one':
                slots.append(('one', v))
            else:
                items = _concrete(v)
                if items is not None:
                    slots.extend(('one', x) for x in items)
                else:
                    slots.append(('splat', v))
        return Params(positional=slots)
    if isinstance(params, tuple):
        return Params(positional=[('one', v) for v in params])
    if isinstance(params, MList):
        for n in params.nodes:
            if isinstance(n, Lit) and n.guard is True:
                slots.append(('one', n.elem))
            elif isinstance(n, Loop) and getattr(n, 'src', None) is not None:
                slots.append(('splat', n.src))
            else:
                raise Unsupported('parameter list with conditional elements')
        return Params(positional=slots)
    raise Unsupported(f'SQL parameters of type {type(params).__name__}')


def _concrete(v):
    if isinstance(v, MList) and v.is_concrete():
        return v.items()
    if isinstance(v, (tuple, list)):
        return list(v)
    return None


def sql_parts(sql):
    if isinstance(sql, str):
        return [sql]
    if isinstance(sql, SqlText):
        return list(sql.parts)
    raise Unsupported(f'SQL text of type {type(sql).__name__} (not determined by the argument shape)')


def _loops(it):
    return [getattr(f, 'loop_node', None) for f in it.ctx.generic if f.binders]


class NamedParams(Params):
    pass


class ConnObj(SObj):
    def __init__(self, world: World, is_cursor=False, conn=None):
        super().__init__(type('Connection' if not is_cursor else 'Cursor', (), {}))
        self.world = world
        self.is_cursor = is_cursor
        self.conn = conn or self
        self.lastrowid_v = None

    def vc_getattr(self, it, name, node):
        if name == 'cursor' and not self.is_cursor:
            def cursor(i, a, k, n):
                return ConnObj(self.world, True, self)
            return SymMethod(cursor, 'cursor')
        if name == 'execute':
            return SymMethod(lambda i, a, k, n: self.execute(i, a, k, n, many=False), 'execute')
        if name == 'executemany':
            return SymMethod(lambda i, a, k, n: self.execute(i, a, k, n, many=True), 'executemany')
        if name == 'executescript':
            return SymMethod(lambda i, a, k, n: self._event(i, 'executescript', n, sql=a[0]), 'executescript')
        if name == 'commit':
            return SymMethod(lambda i, a, k, n: self._event(i, 'commit', n), 'commit')
        if name == 'rollback':
            return SymMethod(lambda i, a, k, n: self._event(i, 'rollback', n), 'rollback')
        if name == 'close':
            return SymMethod(lambda i, a, k, n: self._event(i, 'close', n), 'close')
        if name == 'set_progress_handler':
            return SymMethod(lambda i, a, k, n: self._event(i, 'set_progress_handler', n, extra={'args': a}),
                             'set_progress_handler')
        if name == 'lastrowid':
            if self.lastrowid_v is None:
                raise Unsupported('lastrowid before an INSERT')
            return self.lastrowid_v
        if name == 'connection' and self.is_cursor:
            return self.conn
        return NotImplemented

    def _event(self, it, kind, node, sql=None, extra=None):
        it.ctx.effects.append(Event(kind, sql=sql, obj=self.conn, guard=it.ctx.current_guard(),
                                    binders=list(it.ctx.all_binders()), node=node, extra=extra or {},
                                    pc_len=len(it.ctx.pc), loops=_loops(it)))
        return None

    # context manager: `with conn:` = transaction scope (A-TXN)
    def __vc_enter__(self, it):
        self._event(it, 'enter_txn', None)
        return self

    def __vc_exit__(self, it, exc):
        self._event(it, 'exit_txn', None, extra={'exc': exc})
        return False

    def execute(self, it, args, kwargs, node, many: bool):
        sql = args[0]
        params = args[1] if len(args) > 1 else None
        parts = sql_parts(sql)
        try:
            stmt, nparam = P.parse_sql(parts)
        except Unsupported:
            raise
        ev = Event('executemany' if many else 'execute', sql=parts, params=params, obj=self.conn,
                   guard=it.ctx.current_guard(), binders=list(it.ctx.all_binders()), node=node,
                   extra={'stmt': stmt, 'nparam': nparam, 'preds': list(it.ctx.preds),
                          'fn': it.fn_stack[-1].qualname if it.fn_stack else ''},
                   pc_len=len(it.ctx.pc), loops=_loops(it))
        it.ctx.effects.append(ev)
        self.world.statements.append(ev)
        if isinstance(stmt, P.WithStmt) and isinstance(stmt.body, (P.Insert, P.Update, P.Delete)):
            ev.extra['leading_with'] = True        # CTE-prefixed write: see C06 (no implicit BEGIN in Python's sqlite3)
            return self
        if isinstance(stmt, (P.Select, P.WithStmt)):
            if many:
                raise Unsupported('executemany with a SELECT')
            return self.run_select(it, stmt, nparam, params, ev, node)
        if isinstance(stmt, P.Insert):
            if not many:
                self.conn_lastrowid(it)
            return self
        if isinstance(stmt, (P.Update, P.Delete, P.Pragma)):
            return self
        raise Unsupported('statement kind')

    def conn_lastrowid(self, it):
        r = z3.Int(fresh_name('lastrowid'))
        self.lastrowid_v = SV('int', r)
        it.ctx.assume(r > 0)

    def run_select(self, it, stmt, nparam, params, ev, node):
        world = self.world
        p = flatten_params(params)
        ctes = {}
        body = stmt
        if isinstance(stmt, P.WithStmt):
            for c in stmt.ctes:
                if c.recursive:
                    raise Unsupported('WITH RECURSIVE (assumed contract A+B; the function must be stubbed)')
                ctes[c.name] = c
            body = stmt.body
        if p.positional and len(p.positional) != nparam:
            err = (f'{len(p.positional)} parameter slots supplied for {nparam} placeholders')
            ev.extra['bind_error'] = err
            world.bind_errors.append((ev, err))
        enc = Encoder(world.db, p, ctes)
        rec = getattr(p, 'rec', None)
        if rec is not None:
            enc.params = _RecParams(p, rec, it)
        try:
            seq = enc.select_seq(body, label=ev.extra.get('fn', 'select'))
        except BindError as be:
            ev.extra['bind_error'] = str(be)
            world.bind_errors.append((ev, str(be)))
            raise I.PathEnd()     # this path cannot be continued; reported by the check as a failed obligation
        for s in enc.side:
            it.ctx.assume(s)
        ev.extra['seq'] = seq
        ev.extra['encoder'] = enc
        return SqlResult(seq, ev)


class _RecParams(Params):
    """named parameters taken from a (copy of a) record: dict(dep) + overrides."""

    def __init__(self, base: Params, rec, it):
        super().__init__(positional=base.positional, named=_RecNamed(base.named, rec, it))


class _RecNamed(dict):
    def __init__(self, d, rec, it):
        super().__init__(d)
        self.rec = rec
        self.it = it

    def __contains__(self, k):
        return dict.__contains__(self, k) or k in self.rec.slots

    def __getitem__(self, k):
        if dict.__contains__(self, k):
            return dict.__getitem__(self, k)
        return B.getitem(self.it, self.rec, k, None)


class SqlResult(SeqBase):
    """Cursor positioned on the result of a SELECT."""

    def __init__(self, seq: Seq, ev: Event):
        self.seq = seq
        self.ev = ev

    def __hash__(self):
        return id(self)

    def nonempty(self):
        return self.seq.nonempty()

    def leaves(self):
        return self.seq.leaves()

    def as_seq(self):
        return self.seq

    def vc_next(self, it, default, node):
        return B.first_of_seq(it, self.seq, default, node)

    def vc_groupby(self, it, key, node):
        return GroupBy(self, key, it, node)


def _sr_fetchone(it, res, args, kw, node):
    return B.first_of_seq(it, res.seq, None, node)


def _sr_fetchall(it, res, args, kw, node):
    return res


B.METHODS[('SqlResult', 'fetchone')] = _sr_fetchone
B.METHODS[('SqlResult', 'fetchall')] = _sr_fetchall


class GroupBy(SeqBase):
    """itertools.groupby(rows, key) over a SELECT result: groups of consecutive rows with equal key.

    Iterating yields (key, group) where group is the sub-sequence of rows having that key *provided rows with
    equal keys are contiguous*; the contiguity obligation (ORDER BY makes equal keys adjacent) is recorded on
    the event for the check to discharge."""

    def __init__(self, res: SqlResult, key, it, node):
        self.res = res
        self.key = key
        self.node = node

    def __hash__(self):
        return id(self)

    def nonempty(self):
        return self.res.nonempty()

    def leaves(self):
        raise Unsupported('leaves of groupby')


def groupby_foreach(it, gb: GroupBy, bind, body, env):
    """for key, group in groupby(rows, keyf): ...   executed for a generic group."""
    seq = gb.res.seq
    if len(seq.nodes) != 1 or not isinstance(seq.nodes[0], Loop):
        raise Unsupported('groupby over a composite sequence')
    loop = seq.nodes[0]
    lit = loop.kids[0]
    # generic representative row of the group (outer binders), and member rows (inner binders)
    keyv = it.call(gb.key, [lit.elem], {}, gb.node)
    subst = []
    inner_binders = []
    for b in loop.binders:
        w = z3.Int(fresh_name(str(b.var).split('!')[0] + '_m'))
        subst.append((b.var, w))
    for b in loop.binders:
        inner_binders.append(Binder(subst[[str(x[0]) for x in subst].index(str(b.var))][1],
                                    z3.substitute(b.constraint, *subst), b.origin, b.key))
    member_elem = B.subst_value(lit.elem, subst)
    member_key = B.subst_value(keyv, subst)
    from vc.pyvc.values import val_eq
    same = z_bool(val_eq(member_key, keyv))
    member_guard = z_and(z3.substitute(z_bool(loop.guard), *subst) if loop.guard is not True else True, same)
    member_order = [(B.subst_value(e, subst), d) for e, d in (loop.order or [])] or None
    group = Seq([Loop(inner_binders, z_and(*[b.constraint for b in []], member_guard), [Lit(member_elem)],
                      order=member_order, unordered=loop.unordered)], label='group')
    group.group_of = gb
    # the outer loop ranges over *groups*: one iteration per distinct key; represented by the rows themselves
    # with the marker `grouped` (the family comparison treats the outer elements modulo the key)
    outer = Loop(list(loop.binders), loop.guard, [Lit((keyv, group))], order=loop.order,
                 unordered=loop.unordered)
    outer.grouped_by = keyv
    gseq = Seq([outer], label='groupby')
    gb.res.ev.extra.setdefault('groupby', []).append({'key': keyv, 'order': loop.order, 'binders': loop.binders,
                                                      'guard': loop.guard})
    it.generic_loop(gseq, bind, body, env)


_orig_for_each = I.Interp.for_each
_orig_for_each_fn = I.Interp.for_each_fn


def _for_each(self, itv, target, body, env, orelse=(), node=None):
    if isinstance(itv, GroupBy):
        import ast as _ast
        saved = getattr(self, '_cur_loop_body', None)
        self._cur_loop_body = [_ast.Assign(targets=[target], value=_ast.Constant(value=None))] + list(body)
        try:
            groupby_foreach(self, itv, lambda e: self.assign(target, e, env),
                            lambda: self.exec_block(body, env), env)
        finally:
            self._cur_loop_body = saved
        self.exec_block(list(orelse), env)
        return
    if isinstance(itv, SqlResult):
        itv = itv.seq
    return _orig_for_each(self, itv, target, body, env, orelse, node)


def _for_each_fn(self, itv, bind, body, env):
    if isinstance(itv, GroupBy):
        return groupby_foreach(self, itv, bind, body, env)
    if isinstance(itv, SqlResult):
        itv = itv.seq
    return _orig_for_each_fn(self, itv, bind, body, env)


I.Interp.for_each = _for_each
I.Interp.for_each_fn = _for_each_fn

_orig_to_seq = I.Interp.to_seq


def _to_seq(self, itv):
    if isinstance(itv, SqlResult):
        return itv.seq
    return _orig_to_seq(self, itv)


I.Interp.to_seq = _to_seq
