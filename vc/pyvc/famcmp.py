"""Family (sequence-tree) comparison: alignment of leaves + z3 goals.

seq_goals(a, b) -> list of (clause, assumptions, goal) such that all goals valid  =>  a and b denote the same
sequence (same elements, same multiplicities, same order up to what the trees themselves leave unordered).
Alignment is structural: same number of leaves, binders paired by position with equal `key`; the binder
variables of b are substituted by those of a.  A structural mismatch is reported as a failed alignment
(decided, not unknown): the two families differ in shape.
"""
from __future__ import annotations

from typing import Any

import z3

from vc.core import Unsupported
from vc.pyvc.values import (SV, SRec, SObj, SList, Seq, Lit, Loop, Binder, SeqBase, z_and, z_or, z_not, z_bool,
                            val_eq, is_sym)


class ShapeMismatch(Exception):
    pass


def value_eq(a, b, path='') -> Any:
    """z3 Bool (or bool) stating structural equality of two symbolic values."""
    from vc.pyvc.interp import MList, MDict, MSet
    if a is b:
        return True
    if type(a).__name__ == 'JoinedTokens' and type(b).__name__ == 'JoinedTokens':
        if a.sep != b.sep:
            return False
        ta, tb = a.tokens, b.tokens
        if isinstance(ta, list) and isinstance(tb, list):
            return value_eq(tuple(ta), tuple(tb), path)
        return value_eq(ta, tb, path)
    if isinstance(a, SObj) and isinstance(b, SObj):
        if a.cls is not b.cls:
            return False
        keys = set(a.attrs) | set(b.attrs)
        return z_and(*[z_bool(value_eq(a.attrs.get(k, _ABSENT), b.attrs.get(k, _ABSENT), f'{path}.{k}'))
                       for k in sorted(keys)])
    if a is _ABSENT or b is _ABSENT:
        return False
    if isinstance(a, tuple) and isinstance(b, tuple):
        if len(a) != len(b):
            return False
        return z_and(*[z_bool(value_eq(x, y, f'{path}[{i}]')) for i, (x, y) in enumerate(zip(a, b))])
    if type(a).__name__ == 'SSorted' and type(b).__name__ == 'SSorted':
        # sorted(xs) == sorted(ys) if xs == ys as sequences (sufficient; both sides sort the same way)
        if bool(a.dedup) != bool(b.dedup):
            return False
        return value_eq(a.seq, b.seq, path + '<sorted>')
    if (type(a).__name__ == 'SSorted') != (type(b).__name__ == 'SSorted'):
        raise ShapeMismatch(f'one side is sorted(...), the other keeps the source order, at {path}')
    if isinstance(a, SRec) and isinstance(b, SRec):
        keys = set(a.slots) | set(b.slots)
        parts = []
        for k in sorted(keys):
            sa, sb = a.slots.get(k), b.slots.get(k)
            pa = z_bool(sa.present) if sa is not None else z3.BoolVal(False)
            pb = z_bool(sb.present) if sb is not None else z3.BoolVal(False)
            if sa is None or sb is None:
                parts.append(pa == pb)
                continue
            parts.append(pa == pb)
            parts.append(z3.Implies(pa, z_bool(value_eq(sa.value, sb.value, f'{path}[{k!r}]'))))
        return z_and(*parts)
    if isinstance(a, SList) and isinstance(b, SList) and a.name == b.name and len(a.parents) == len(b.parents):
        # the same uninterpreted list function: equal iff applied to equal arguments
        return z_and(*[x == y for x, y in zip(a.parents, b.parents)])
    if isinstance(a, (MList, Seq, SList)) and isinstance(b, (MList, Seq, SList)):
        if bool(getattr(a, 'dedup', False)) != bool(getattr(b, 'dedup', False)):
            return False      # one side removes duplicates, the other does not
        goals = seq_goals(_seq(a), _seq(b), [])
        return z_and(*[z3.Implies(z_and(*asm), g) for _, asm, g in goals])
    if isinstance(a, MSet) and isinstance(b, MSet) and (a.nodes or b.nodes):
        goals = seq_goals(a.as_seq(), b.as_seq(), [])
        return z_and(*[z3.Implies(z_and(*asm), g) for _, asm, g in goals])
    if isinstance(a, MSet) and isinstance(b, MSet) and not a.nodes and not b.nodes:
        if len(a.items) != len(b.items):
            return False
        return z_and(*[z_bool(value_eq(x, y, path + '{}')) for x, y in zip(a.items, b.items)])
    if isinstance(a, MDict) and isinstance(b, MDict) and (a.nodes or b.nodes):
        sa = Seq([Lit((k, v)) for k, v in a.d.items()] + list(a.nodes))
        sb = Seq([Lit((k, v)) for k, v in b.d.items()] + list(b.nodes))
        goals = seq_goals(sa, sb, [])
        return z_and(*[z3.Implies(z_and(*asm), g) for _, asm, g in goals])
    if isinstance(a, MDict) and isinstance(b, MDict) and a.is_concrete() and b.is_concrete():
        if set(a.d) != set(b.d):
            return False
        return z_and(*[z_bool(value_eq(a.d[k], b.d[k], f'{path}[{k!r}]')) for k in a.d])
    if isinstance(a, (SV, int, float, str, bool, type(None))) and isinstance(b, (SV, int, float, str, bool, type(None))):
        return val_eq(a, b)
    if not is_sym(a) and not is_sym(b):
        return a == b
    raise Unsupported(f'value equality of {type(a).__name__} and {type(b).__name__} at {path}')


_ABSENT = object()


def _seq(x) -> Seq:
    from vc.pyvc.interp import MList
    if isinstance(x, Seq):
        return x
    if isinstance(x, MList):
        return x.as_seq()
    if isinstance(x, SList):
        return x.as_seq()
    if hasattr(x, 'as_seq'):
        return x.as_seq()
    raise Unsupported(f'not a sequence: {type(x).__name__}')


def subst_guard(g, subst):
    if g is True or g is False:
        return g
    return z3.substitute(g, *subst) if subst else g


def subst_value(v, subst):
    from vc.pyvc.builtins_sym import subst_value as sv
    if not subst:
        return v
    if isinstance(v, tuple):
        return tuple(subst_value(x, subst) for x in v)
    from vc.pyvc.interp import MDict as _MD
    if isinstance(v, _MD) and not v.nodes:
        out = _MD({k: subst_value(x, subst) for k, x in v.d.items()})
        rc = getattr(v, 'rec_copy', None)
        if rc is not None:
            out.rec_copy = sv(rc, subst)
        return out
    if isinstance(v, _MD):
        out = _MD({k: subst_value(x, subst) for k, x in v.d.items()})
        out.nodes = list(_subst_seq(Seq(v.nodes), subst).nodes)
        return out
    if type(v).__name__ == 'SSorted':
        return type(v)(_subst_seq(v.seq, subst), v.dedup)
    if isinstance(v, SObj):
        new = {k: subst_value(x, subst) for k, x in v.attrs.items()}
        if all(new[k] is v.attrs[k] for k in new):
            return v
        return SObj(v.cls, new, v.name)
    if isinstance(v, SList):
        if not v.parents or not any(_mentions(p, subst) for p in v.parents):
            return v
        return SList(v.name, v.make_elem, tuple(z3.substitute(p, *subst) for p in v.parents))
    if isinstance(v, SV):
        if not _mentions(v.z, subst) and (v.none is None or not _mentions(v.none, subst)):
            return v
    from vc.pyvc.interp import MList
    if isinstance(v, (Seq, MList)):
        return _subst_seq(_seq(v), subst)
    return sv(v, subst)


def _mentions(term, subst) -> bool:
    ids = {a.get_id() for a, _ in subst}
    stack = [term]
    seen = set()
    while stack:
        x = stack.pop()
        if x.get_id() in seen:
            continue
        seen.add(x.get_id())
        if x.get_id() in ids:
            return True
        if z3.is_app(x):
            stack.extend(x.children())
        elif z3.is_quantifier(x):
            stack.append(x.body())
    return False


def _subst_seq(seq: Seq, subst) -> Seq:
    def m(nodes):
        out = []
        for n in nodes:
            if isinstance(n, Lit):
                out.append(Lit(subst_value(n.elem, subst), subst_guard(n.guard, subst)))
            else:
                bs = [Binder(b.var, subst_guard(b.constraint, subst), b.origin, b.key) for b in n.binders]
                order = [(subst_value(e, subst), d) for e, d in n.order] if n.order else n.order
                out.append(Loop(bs, subst_guard(n.guard, subst), m(n.kids), order, n.unordered, n.src))
        return out
    s = Seq(m(seq.nodes), seq.distinct, seq.label)
    return s


def seq_goals(a: Seq, b: Seq, assumptions: list, name: str = 'family') -> list:
    """Goals for a == b.  Raises ShapeMismatch when the trees cannot be aligned."""
    la, lb = list(a.leaves()), list(b.leaves())
    if len(la) != len(lb):
        raise ShapeMismatch(f'{name}: {len(la)} element sources on one side, {len(lb)} on the other')
    goals = []
    for k, ((ba, ga, ea, loops_a), (bb, gb, eb, loops_b)) in enumerate(zip(la, lb)):
        if len(ba) != len(bb):
            raise ShapeMismatch(f'{name}#{k}: different nesting depth ({len(ba)} vs {len(bb)} generators)')
        subst = []
        for x, y in zip(ba, bb):
            if x.key is not None and y.key is not None and x.key[:2] != y.key[:2]:
                raise ShapeMismatch(f'{name}#{k}: generator over {x.origin} vs {y.origin}')
            if not x.var.eq(y.var):
                subst.append((y.var, x.var))
        cons_a = [x.constraint for x in ba]
        cons_b = [subst_guard(y.constraint, subst) for y in bb]
        gb_s = subst_guard(z_bool(gb), subst)
        eb_s = subst_value(eb, subst)
        # (1)+(2) same membership: index ranges and guards jointly
        goals.append((f'{name}#{k}:member', assumptions,
                      z_and(*cons_a, z_bool(ga)) == z_and(*cons_b, gb_s)))
        # (3) elements equal where present
        goals.append((f'{name}#{k}:elem', assumptions + cons_a + [z_bool(ga)] + cons_b + [gb_s],
                      z_bool(value_eq(ea, eb_s))))
        # (4) order
        oa = [lp for lp in loops_a]
        ob = [lp for lp in loops_b]
        for la_, lb_ in zip(oa, ob):
            if bool(la_.order) != bool(lb_.order) or la_.unordered != lb_.unordered:
                if not (la_.unordered and lb_.unordered):
                    goals.append((f'{name}#{k}:order-kind', assumptions, z3.BoolVal(
                        (not la_.order and not lb_.order) and la_.unordered == lb_.unordered)))
            elif la_.order:
                if len(la_.order) != len(lb_.order):
                    goals.append((f'{name}#{k}:order-keys', assumptions, z3.BoolVal(False)))
                else:
                    for j, ((ka, da), (kb, db)) in enumerate(zip(la_.order, lb_.order)):
                        kb_s = subst_value(kb, subst)
                        goals.append((f'{name}#{k}:order{j}', assumptions + cons_a + [z_bool(ga)],
                                      z_and(z_bool(value_eq(ka, kb_s)), da == db)))
    if a.distinct != b.distinct:
        goals.append((f'{name}:distinct', assumptions, z3.BoolVal(False)))
    return goals
