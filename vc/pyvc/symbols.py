"""Constructors of symbolic inputs for harnesses."""
from __future__ import annotations
import z3
from vc.pyvc.values import SV, SList, SRec, Slot, mk, SORTS


def sym(kind: str, name: str, optional: bool = False) -> SV:
    return mk(kind, name, optional)


def scalar_list(name: str, kind: str, optional_elems: bool = False) -> SList:
    def make(path, idx):
        f = z3.Function(path + '.at', *([z3.IntSort()] * len(idx)), SORTS[kind])
        return SV(kind, f(*idx))
    return SList(name, make)
