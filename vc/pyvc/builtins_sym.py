"""Symbolic semantics of Python builtins, operators and methods of builtin types (the trusted model of CPython).

Assumptions about Python encoded here: dict iteration = insertion order; sorted stable; str methods of the
uninterpreted string sort are uninterpreted functions (strip, lower, ...); len(seq) of a symbolic sequence is
an unconstrained non-negative integer unless the sequence is an input list.
"""
from __future__ import annotations

import ast
import itertools
import collections
import operator
import types

import z3

from vc.core import Unsupported
from vc.pyvc.values import (
    SOptRec, SOptTuple,
    SV, SRec, SObj, SList, Seq, Lit, Loop, Binder, SSet, SMap, SSorted, SChunk, SBatched, SqlText, SRepeat,
    SLen, Slot, Sym, LITS, SORTS, UStr, Meta, EMPTY_META, is_sym, truthy, ite, val_eq, lift, mk, fresh_name,
    z_and, z_or, z_not, z_bool, SeqBase,
)
from vc.pyvc import interp as I
from vc.pyvc.interp import (MList, MDict, MSet, PyRaise, SymMethod, BoundMethod, Closure, ParamSeq, DictView,
                            TruthOnly, ExcValue, SuperProxy, ConcreteIter, contains_sym, to_native,
                            from_native, map_seq, opaque_str)

# uninterpreted string functions (A-UNI)
_ufs: dict = {}
SEQ_AXIOM_LISTS: dict = {}


def seq_axioms() -> list:
    """has(elem(i)) for every index of every input list whose `has` predicate was used."""
    from vc.sqlvc.encode import seq_has
    out = []
    for lst in SEQ_AXIOM_LISTS.values():
        if lst.parents:
            continue
        i = z3.Int('i$has')
        e = lst.at(i)
        if isinstance(e, SV):
            out.append(z3.ForAll([i], z3.Implies(lst.range_constraint(i), seq_has(lst, e.kind)(e.z)),
                                 patterns=[e.z]))
    return out


def uf(name, *sorts):
    key = (name,) + tuple(str(s) for s in sorts)
    if key not in _ufs:
        _ufs[key] = z3.Function(name, *sorts)
    return _ufs[key]


# ---------------------------------------------------------------------------------------------
# getattr

def getattr_(it, obj, name, node):
    if isinstance(obj, SuperProxy):
        cls = obj.cls
        mro = type(obj.selfv).__mro__ if not isinstance(obj.selfv, SObj) else obj.selfv.cls.__mro__
        start = mro.index(cls) + 1 if cls in mro else 0
        for k in mro[start:]:
            if name in k.__dict__:
                f = k.__dict__[name]
                if isinstance(f, types.FunctionType):
                    bm = BoundMethod(_WithClass(f, k), obj.selfv)
                    return bm
                if k is object and name == '__init__':
                    return SymMethod(lambda i, a, kw, n: None)
                raise Unsupported(f'super().{name} resolves to non-function in {k.__name__}')
        raise PyRaise(AttributeError, (name,), node)
    if isinstance(obj, SObj):
        if name in obj.attrs:
            return obj.attrs[name]
        h = getattr(obj, 'vc_getattr', None)
        if h is not None:
            r = h(it, name, node)
            if r is not NotImplemented:
                return r
        cls = obj.cls
        if isinstance(cls, type):
            for k in cls.__mro__:
                if name in k.__dict__:
                    f = k.__dict__[name]
                    if isinstance(f, types.FunctionType):
                        return BoundMethod(_WithClass(f, k), obj)
                    if isinstance(f, property):
                        return it.call_function(f.fget, [obj], {}, defining_class=k)
                    if isinstance(f, classmethod):
                        return BoundMethod(_WithClass(f.__func__, k), cls)
                    if isinstance(f, staticmethod):
                        return f.__func__
                    if isinstance(f, types.MemberDescriptorType):
                        raise PyRaise(AttributeError, (name,), node)
                    return from_native(f)
        raise PyRaise(AttributeError, (f'{getattr(cls, "__name__", cls)}.{name}',), node)
    if isinstance(obj, Sym) or isinstance(obj, (MList, MDict, MSet)):
        m = METHODS.get((_tname(obj), name))
        if m is None:
            raise Unsupported(f'method {name} of {_tname(obj)}')
        return SymMethod(lambda i, a, kw, n, m=m, obj=obj: m(i, obj, a, kw, n), name)
    if isinstance(obj, ExcValue):
        if name == 'args':
            return obj.args
        raise Unsupported(f'attribute {name} of exception value')
    if isinstance(obj, type) and isinstance(obj.__dict__.get(name), classmethod):
        return BoundMethod(_WithClass(obj.__dict__[name].__func__, obj), obj)
    # concrete python object
    try:
        v = getattr(obj, name)
    except AttributeError:
        raise PyRaise(AttributeError, (name,), node) from None
    if isinstance(v, types.MethodType) and isinstance(v.__self__, (str, bytes, tuple, int, float)):
        return v
    return from_native(v) if isinstance(v, (list, dict, set)) and _is_module_constant(obj) else v


def _is_module_constant(obj):
    return isinstance(obj, types.ModuleType)


class _WithClass:
    """function + the class it was found on (for super())."""

    def __init__(self, fn, cls):
        self.fn = fn
        self.cls = cls


def _tname(obj):
    if isinstance(obj, SV):
        return 'str' if obj.kind in ('str', 'zstr') else obj.kind
    return type(obj).__name__


# ---------------------------------------------------------------------------------------------
# getitem / setitem

def getitem(it, obj, idx, node):
    ctx = it.ctx
    if isinstance(obj, SOptRec):
        it.safety_check(z_bool(obj.present), TypeError, node, 'subscript of None (optional record)')
        return getitem(it, obj.rec, idx, node)
    if isinstance(obj, SOptTuple):
        it.safety_check(z_bool(obj.present), TypeError, node, "'NoneType' object is not subscriptable")
        return getitem(it, obj.elem, idx, node)
    if isinstance(obj, SRec):
        if is_sym(idx):
            raise Unsupported('record subscript with symbolic key')
        slot = obj.slots.get(idx)
        if slot is None or slot.present is False:
            if getattr(obj, 'open_', False):
                raise Unsupported(f'unknown key {idx!r} of open record {obj.name}')
            it.safety_check(False, KeyError, node, f'{obj.name}[{idx!r}]')
        it.safety_check(z_bool(slot.present) if not isinstance(slot.present, bool) else slot.present,
                        KeyError, node, f'{obj.name}[{idx!r}]')
        return slot.value
    if isinstance(obj, MDict):
        if not is_sym(idx) and not contains_sym(idx) and not obj.nodes:
            rc = getattr(obj, 'rec_copy', None)
            if rc is not None and idx not in obj.d:
                return getitem(it, rc, idx, node)
            if idx not in obj.d:
                raise PyRaise(KeyError, (idx,), node)
            return obj.d[idx]
        return map_lookup(it, obj, idx, None, node, must=True)
    if isinstance(obj, SMap):
        return map_lookup(it, obj, idx, None, node, must=True)
    if isinstance(obj, dict):
        if is_sym(idx):
            return map_lookup(it, MDict({k: from_native(v) for k, v in obj.items()}), idx, None, node, must=True)
        try:
            return from_native(obj[idx]) if isinstance(obj[idx], (list, dict, set)) else obj[idx]
        except KeyError:
            raise PyRaise(KeyError, (idx,), node) from None
    if isinstance(obj, MList):
        if obj.is_concrete():
            items = obj.items()
            if isinstance(idx, slice):
                if any(is_sym(x) for x in (idx.start, idx.stop, idx.step)):
                    raise Unsupported('symbolic slice bounds')
                return MList(items[idx])
            if is_sym(idx):
                raise Unsupported('symbolic index into concrete list')
            try:
                return items[idx]
            except IndexError:
                raise PyRaise(IndexError, ('list index out of range',), node) from None
        return seq_index(it, obj.as_seq(), idx, node)
    if isinstance(obj, (tuple, list, str, bytes)):
        if isinstance(idx, slice):
            if any(is_sym(x) for x in (idx.start, idx.stop, idx.step)):
                raise Unsupported('symbolic slice bounds')
            r = obj[idx]
            return MList(list(r)) if isinstance(obj, list) else r
        if is_sym(idx):
            raise Unsupported('symbolic index into concrete sequence')
        try:
            return obj[idx]
        except IndexError:
            raise PyRaise(IndexError, ('index out of range',), node) from None
    if isinstance(obj, SList):
        if isinstance(idx, slice):
            return slist_slice(it, obj, idx, node)
        i = lift(idx, 'int')
        if isinstance(idx, int) and idx < 0:
            zi = obj.length + idx
        else:
            zi = i.z
        it.safety_check(z3.And(zi >= 0, zi < obj.length), IndexError, node, f'{obj.name}[{idx}]')
        return obj.at(z3.simplify(zi))
    if isinstance(obj, (Seq, SChunk)):
        return seq_index(it, it.to_seq(obj), idx, node)
    if isinstance(obj, SV) and obj.kind == 'zstr':
        return zstr_index(it, obj, idx, node)
    if isinstance(obj, (SObj, Sym)):
        h = getattr(obj, 'vc_getitem', None)
        if h is not None:
            return h(it, idx, node)
    if hasattr(obj, '__class_getitem__') or isinstance(obj, type):
        try:
            return obj[idx]
        except Exception:
            pass
    if obj is None:
        raise PyRaise(TypeError, ("'NoneType' object is not subscriptable",), node)
    raise Unsupported(f'subscript of {type(obj).__name__}')


def seq_index(it, seq: Seq, idx, node):
    """seq[k] for a sequence tree with concrete small k: only the structural prefix is supported."""
    if isinstance(idx, slice):
        raise Unsupported('slice of a symbolic sequence')
    if isinstance(idx, int) and idx >= 0:
        # the first k nodes must be unconditional literals
        if all(isinstance(n, Lit) and n.guard is True for n in seq.nodes[:idx + 1]) and len(seq.nodes) > idx:
            return seq.nodes[idx].elem
    h = getattr(seq, 'vc_index', None)
    if h is not None:
        return h(it, idx, node)
    raise Unsupported('index into a symbolic sequence')


def slist_slice(it, lst: SList, sl: slice, node):
    if sl.step is not None:
        raise Unsupported('slice step on symbolic list')
    start = sl.start if sl.start is not None else 0
    if sl.stop is not None or is_sym(start) or start < 0:
        raise Unsupported('slice of symbolic list other than [k:]')
    i = z3.Int(fresh_name(lst.name.split('.')[-1] + '_i'))
    b = Binder(i, z3.And(i >= start, i < lst.length), lst.name,
               ('list', lst.name, tuple(str(p) for p in lst.parents)))
    s = Seq([Loop([b], True, [Lit(lst.at(i))])], label=lst.name + f'[{start}:]')
    return s


def zstr_index(it, s: SV, idx, node):
    if isinstance(idx, slice):
        if idx.step is not None:
            raise Unsupported('string slice step')
        n = z3.Length(s.z)

        def pos(v, default):
            if v is None:
                return default
            z = lift(v, 'int').z
            return z3.If(z < 0, z3.If(n + z < 0, 0, n + z), z3.If(z > n, n, z))
        a = pos(idx.start, z3.IntVal(0))
        b = pos(idx.stop, n)
        return SV('zstr', z3.SubString(s.z, a, z3.If(b - a < 0, 0, b - a)))
    z = lift(idx, 'int').z
    n = z3.Length(s.z)
    zi = z3.If(z < 0, n + z, z)
    it.safety_check(z3.And(zi >= 0, zi < n), IndexError, node, 'string index')
    return SV('zstr', z3.SubString(s.z, zi, 1))


def setitem(it, obj, idx, val, node):
    ctx = it.ctx
    if isinstance(obj, SRec):
        if is_sym(idx):
            raise Unsupported('record store with symbolic key')
        g = z_and(*ctx.preds) if ctx.preds else True
        note_mutation(it, obj, idx)
        slot = obj.slots.get(idx)
        if g is True:
            obj.slots[idx] = Slot(True, val)
        else:
            if slot is None:
                obj.slots[idx] = Slot(g, val)
            else:
                try:
                    newval = ite(g, val, slot.value) if slot.value is not None else val
                except Unsupported:
                    from vc.pyvc.values import Mixed
                    old = slot.value.alts if isinstance(slot.value, Mixed) else [(True, slot.value)]
                    newval = Mixed([(g, val)] + [(z_and(z3.Not(g), og), ov) for og, ov in old])
                obj.slots[idx] = Slot(z3.simplify(z3.Or(g, z_bool(slot.present))), newval)
        return
    if isinstance(obj, MDict):
        local = len(ctx.generic) <= obj.depth and len(ctx.preds) <= obj.pdepth
        if not is_sym(idx) and not contains_sym(idx) and local:
            if obj.nodes:
                obj.nodes.append(Lit((idx, val)))
            else:
                obj.d[idx] = val
            return
        it._append_node(obj.nodes, (idx, val), obj)
        return
    if isinstance(obj, MList):
        if obj.is_concrete() and not is_sym(idx) and not ctx.generic:
            items = obj.items()
            try:
                items[idx] = val
            except IndexError:
                raise PyRaise(IndexError, ('list assignment index out of range',), node) from None
            obj.nodes = [Lit(x) for x in items]
            return
        raise Unsupported('store into symbolic list')
    if isinstance(obj, SObj):
        h = getattr(obj, 'vc_setitem', None)
        if h is not None:
            return h(it, idx, val, node)
    if isinstance(obj, dict) and not is_sym(idx):
        raise Unsupported('store into a concrete (module-level) dict')
    raise Unsupported(f'item assignment on {type(obj).__name__}')


def note_mutation(it, rec: SRec, key):
    """Frame bookkeeping: records passed in from outside are logged when mutated."""
    log = getattr(rec, 'mutation_log', None)
    if log is not None:
        log.append((key, it.ctx.current_guard(), list(it.ctx.all_binders()), list(it.ctx.pc)))


# ---------------------------------------------------------------------------------------------
# map lookup (dict with symbolic keys / contributions)

def map_entries(it, d):
    """Seq of (key, value) for MDict/SMap."""
    if isinstance(d, MDict):
        return Seq([Lit((k, v)) for k, v in d.d.items()] + list(d.nodes))
    if isinstance(d, SMap):
        return d.seq
    raise Unsupported('map entries of ' + type(d).__name__)


def map_contains(it, d, key):
    seq = map_entries(it, d)
    return seq.contains(lambda kv: z_bool(val_eq(kv[0], key)))


_lookup_cache: dict = {}


def map_lookup(it, d, key, default, node, must=False):
    """d[key] / d.get(key, default): the value of *some* entry with that key (any, if several: sound
    over-approximation of "the last one"); deterministic for equal (map, key)."""
    seq = map_entries(it, d)
    leaves = list(seq.leaves())
    inkeys = seq.contains(lambda kv: z_bool(val_eq(kv[0], key)))
    if must:
        it.safety_check(inkeys, KeyError, node, 'dict key')
    # simple case: every value is the same binder-independent value
    vals = [kv[1] for _, _, kv, _ in leaves]
    if vals and all(v is vals[0] for v in vals) and not I.contains_binder(
            vals[0], [b.var for bs, _, _, _ in leaves for b in bs]):
        if must:
            return vals[0]
        return ite(inkeys, vals[0], default)
    # general case: result constrained by "some matching entry"
    probe = vals[0] if vals else default
    if not isinstance(probe, (SV, int, str, bool, float)) and probe is not None:
        return _lookup_structured(it, d, seq, leaves, key, default, inkeys, must, node)
    kind = None
    for v in vals + [default]:
        if isinstance(v, SV):
            kind = v.kind
            break
        if isinstance(v, bool):
            kind = 'bool'
        elif isinstance(v, int):
            kind = kind or 'int'
        elif isinstance(v, str):
            kind = 'str'
    if kind is None:
        raise Unsupported('map lookup value kind')
    sig = canonical_map_id(seq)
    ksv = key if isinstance(key, SV) else lift(key)
    # the looked-up value is a function of the key and of whatever the map itself depends on (outer iteration
    # variables, inputs): lookup#sig(outer..., key), axiomatised once per map (MAP_AXIOMS):
    #     forall outer, k:  k in keys  =>  exists entry: key(entry) = k and value(entry) = lookup(outer, k)
    own = []
    for binders, _, _, _ in leaves:
        own.extend(b.var for b in binders)
    terms = []
    for binders, guard, kv, _ in leaves:
        terms.extend(b.constraint for b in binders)
        terms.append(z_bool(guard))
        for x in kv:
            if isinstance(x, SV):
                terms.append(x.z)
                if x.none is not None:
                    terms.append(x.none)
    outer = _outer_of(seq)
    osorts = [o.sort() for o in outer]
    lf = uf(f'lookup#{sig}', *osorts, SORTS[ksv.kind], SORTS[kind])
    res = SV(kind, lf(*outer, ksv.z))
    optional = any(isinstance(v, SV) and v.none is not None for v in vals) or any(v is None for v in vals)
    nf = uf(f'lookup#{sig}.isNone', *osorts, SORTS[ksv.kind], z3.BoolSort()) if optional else None
    if optional:
        res.none = nf(*outer, ksv.z)
    if sig not in MAP_AXIOMS:
        kq = z3.Const('k$map', SORTS[ksv.kind])
        kqv = SV(ksv.kind, kq)
        rq = SV(kind, lf(*outer, kq), nf(*outer, kq) if optional else None)
        ex = []
        for binders, guard, kv, _ in leaves:
            body = z_and(*[b.constraint for b in binders], guard, z_bool(val_eq(kv[0], kqv)),
                         z_bool(val_eq(kv[1], rq)))
            vs = [b.var for b in binders]
            ex.append(z3.Exists(vs, body) if vs else body)
        keyin = seq.contains(lambda kv_: z_bool(val_eq(kv_[0], kqv)))
        MAP_AXIOMS[sig] = z3.ForAll([kq] + list(outer), z3.Implies(z_bool(keyin), z_or(*ex)),
                                    patterns=[lf(*outer, kq)])
    if must:
        return res
    if default is None:
        res = SV(kind, res.z, z_or(z3.Not(inkeys), res.none if res.none is not None else False))
        return res
    return ite(inkeys, res, default)


MAP_AXIOMS: dict = {}


def map_axioms() -> list:
    return list(MAP_AXIOMS.values())


def _axiom_hook(names: set) -> list:
    out = []
    for n in names:
        if n.startswith('lookup#'):
            sig = n[len('lookup#'):].split('.')[0]
            if sig in MAP_AXIOMS:
                out.append(MAP_AXIOMS[sig])
        elif n.endswith('.has'):
            lst = SEQ_AXIOM_LISTS.get(n[:-4])
            if lst is not None and not lst.parents:
                from vc.sqlvc.encode import seq_has
                i = z3.Int('i$has')
                e = lst.at(i)
                if isinstance(e, SV):
                    out.append(z3.ForAll([i], z3.Implies(lst.range_constraint(i), seq_has(lst, e.kind)(e.z)),
                                         patterns=[e.z]))
    return out


from vc import core as _core
if _axiom_hook not in _core.AXIOM_HOOKS:
    _core.AXIOM_HOOKS.append(_axiom_hook)


_NNF = z3.Then('nnf', 'simplify')
_map_registry: list = []


def _outer_of(seq):
    own, terms = [], []
    for binders, guard, elem, _ in seq.leaves():
        own.extend(b.var for b in binders)
        terms.extend(b.constraint for b in binders)
        terms.append(z_bool(guard))
        stack = [elem]
        while stack:
            x = stack.pop()
            if isinstance(x, SV):
                terms.append(x.z)
                if x.none is not None:
                    terms.append(x.none)
            elif isinstance(x, tuple):
                stack.extend(x)
    return free_consts(terms, exclude=own)


def canonical_map_id(seq) -> str:
    """Identifier of the map denoted by `seq` up to renaming of the outer variables it depends on: syntactic
    signature, unified with an earlier map when z3 proves the two families equal (same keys, same values) - equal
    maps share one lookup function."""
    from vc.pyvc import famcmp
    outer = _outer_of(seq)
    osub = [(o, z3.Const(f'$o{k}', o.sort())) for k, o in enumerate(outer)]
    nseq = famcmp._subst_seq(seq, osub) if osub else seq
    sig = seq_signature(nseq)
    for other, osig, _ in _map_registry:
        if osig == sig:
            return osig
    for other, osig, on in _map_registry:
        if on != len(outer):
            continue
        try:
            goals = famcmp.seq_goals(nseq, other, [])
        except (famcmp.ShapeMismatch, Unsupported):
            continue
        ok = True
        for _, asm, g in goals:
            sv = z3.Solver()
            sv.set('timeout', 2000)
            sv.add(*asm)
            sv.add(*LITS.axioms())
            sv.add(z3.Not(g))
            if sv.check() != z3.unsat:
                ok = False
                break
        if ok:
            return osig
    _map_registry.append((nseq, sig, len(outer)))
    return sig


def seq_signature(seq) -> str:
    """Structural signature of a sequence tree (binder variables normalised): equal signatures = same family."""
    parts = []
    for binders, guard, elem, _ in seq.leaves():
        subst = [(b.var, z3.Int(f'$b{i}')) for i, b in enumerate(binders)]

        def norm(t):
            return z3.substitute(t, *subst).sexpr() if subst else t.sexpr()

        def normg(t):
            try:
                t = _NNF(t).as_expr()
            except z3.Z3Exception:
                pass
            return norm(t)
        parts.append('|'.join([norm(b.constraint) for b in binders]) + '#' + normg(z_bool(guard)) + '#' +
                     _value_sig(elem, norm))
    import hashlib
    return hashlib.blake2b('\n'.join(parts).encode(), digest_size=6).hexdigest()


def _value_sig(v, norm) -> str:
    if isinstance(v, SV):
        return norm(v.z) + ('?' + norm(v.none) if v.none is not None else '')
    if isinstance(v, tuple):
        return '(' + ','.join(_value_sig(x, norm) for x in v) + ')'
    if isinstance(v, SObj):
        return getattr(v.cls, '__name__', 'obj') + '{' + ','.join(
            f'{k}:{_value_sig(x, norm)}' for k, x in sorted(v.attrs.items()) if k != '_wordnet') + '}'
    return repr(v) if not is_sym(v) else type(v).__name__


def _lookup_structured(it, d, seq, leaves, key, default, inkeys, must, node):
    # values are containers (e.g. dict of lists): only concrete keys resolved on concrete part
    if isinstance(d, MDict) and not d.nodes and not is_sym(key):
        return d.d.get(key, default)
    raise Unsupported('lookup of structured values with symbolic key')


# ---------------------------------------------------------------------------------------------
# operators

def _num(v):
    return isinstance(v, (int, float)) and not isinstance(v, bool) or isinstance(v, bool)


def binop(it, op, a, b, node):
    # string building
    if isinstance(op, ast.Add):
        if isinstance(a, (str, SqlText)) and isinstance(b, (str, SqlText)):
            return it.concat_str([a, b])
        if isinstance(a, MList) or isinstance(b, MList):
            if isinstance(a, (MList, list, tuple)) and isinstance(b, (MList, list, tuple)):
                na = a.nodes if isinstance(a, MList) else [Lit(x) for x in a]
                nb = b.nodes if isinstance(b, MList) else [Lit(x) for x in b]
                return MList(nodes=list(na) + list(nb))
            if isinstance(a, MList) and isinstance(b, SeqBase):
                return MList(nodes=list(a.nodes) + list(it.to_seq(b).nodes))
            if isinstance(b, MList) and isinstance(a, SeqBase):
                return MList(nodes=list(it.to_seq(a).nodes) + list(b.nodes))
        if isinstance(a, tuple) and isinstance(b, tuple):
            return a + b
    if isinstance(op, ast.Mult):
        # '?' * len(xs)   and   ['(?)'] * len(xs)
        if isinstance(a, str) and isinstance(b, SLen):
            return SRepeat(a, b.seq, False)
        if isinstance(a, MList) and a.is_concrete() and len(a.nodes) == 1 and isinstance(b, SLen):
            return SRepeat(a.items()[0], b.seq, True)
        if isinstance(a, MList) and a.is_concrete() and isinstance(b, int):
            return MList(a.items() * b)
        if isinstance(b, MList) and b.is_concrete() and isinstance(a, int):
            return MList(b.items() * a)
    if isinstance(op, ast.BitOr):
        if isinstance(a, (MSet, SSet, set, frozenset)) and isinstance(b, (MSet, SSet, set, frozenset)):
            out = MSet()
            it.set_update(out, a)
            it.set_update(out, b)
            return out
        if isinstance(a, (MDict,)) and isinstance(b, (MDict,)):
            out = MDict(dict(a.d))
            out.nodes = list(a.nodes)
            it.dict_update(out, b)
            return out
        if isinstance(a, MDict) and a.is_concrete() and isinstance(b, SRec):
            out = SRec('dict|')
            for k, v in a.d.items():
                out.slots[k] = Slot(True, v)
            for k, sl in b.slots.items():
                if k in out.slots and sl.present is not True:
                    out.slots[k] = Slot(True, ite(z_bool(sl.present), sl.value, out.slots[k].value))
                else:
                    out.slots[k] = Slot(sl.present, sl.value)
            return out
    if isinstance(op, ast.Sub) and isinstance(a, (MSet, SSet)) and isinstance(b, (MSet, SSet, set, frozenset)):
        return set_difference(it, a, b)
    if isinstance(op, ast.BitAnd) and isinstance(a, (MSet, set, frozenset)) and isinstance(b, (MSet, set, frozenset)):
        if isinstance(a, MSet) and a.is_concrete():
            a = set(a.items)
        if isinstance(b, MSet) and b.is_concrete():
            b = set(b.items)
        if isinstance(a, (set, frozenset)) and isinstance(b, (set, frozenset)):
            return MSet(sorted(a & b, key=repr))
        raise Unsupported('set intersection with symbolic sets')
    if isinstance(op, ast.Mod) and isinstance(a, str) and not contains_sym(b):
        return a % to_native(b)
    if not is_sym(a) and not is_sym(b) and not contains_sym(a) and not contains_sym(b):
        try:
            return from_native(_OPS[type(op)](to_native(a), to_native(b)))
        except ZeroDivisionError:
            raise PyRaise(ZeroDivisionError, ('division by zero',), node) from None
        except TypeError as exc:
            raise PyRaise(TypeError, exc.args, node) from None
    if isinstance(op, ast.Add) and isinstance(a, SV) and isinstance(b, SV) and a.kind == 'str' and b.kind == 'str' \
            and a.none is None and b.none is None:
        return SV('str', uf('str_concat', UStr, UStr, UStr)(a.z, b.z))
    if isinstance(a, (SV, int, float, bool)) and isinstance(b, (SV, int, float, bool)):
        return arith(it, op, a, b, node)
    if isinstance(a, SV) and a.kind == 'zstr' or isinstance(b, SV) and b.kind == 'zstr':
        if isinstance(op, ast.Add):
            return SV('zstr', z3.Concat(lift(a, 'zstr').z, lift(b, 'zstr').z))
    if isinstance(op, ast.Add) and (isinstance(a, SV) or isinstance(b, SV)):
        if isinstance(a, str) and a == '' and b.kind == 'str' and b.none is None:
            return b             # '' + s == s
        if isinstance(b, str) and b == '' and a.kind == 'str' and a.none is None:
            return a
        return opaque_str('concat', [a, b])
    raise Unsupported(f'binary {type(op).__name__} on {type(a).__name__}/{type(b).__name__}')


_OPS = {ast.Add: operator.add, ast.Sub: operator.sub, ast.Mult: operator.mul, ast.Div: operator.truediv,
        ast.FloorDiv: operator.floordiv, ast.Mod: operator.mod, ast.Pow: operator.pow,
        ast.BitOr: operator.or_, ast.BitAnd: operator.and_, ast.BitXor: operator.xor,
        ast.LShift: operator.lshift, ast.RShift: operator.rshift}


def _as_num(it, v, node):
    if isinstance(v, SV):
        it.require_not_none(v, node)
        if v.kind == 'bool':
            return SV('int', z3.If(v.z, 1, 0))
        if v.kind not in ('int', 'real'):
            raise PyRaise(TypeError, ('unsupported operand type',), node)
        return v
    if isinstance(v, float) and (v != v or v in (float('inf'), float('-inf'))):
        raise Unsupported('non-finite float in symbolic arithmetic')
    return lift(v)


def arith(it, op, a, b, node):
    x, y = _as_num(it, a, node), _as_num(it, b, node)
    real = x.kind == 'real' or y.kind == 'real' or isinstance(op, ast.Div)
    xz = z3.ToReal(x.z) if real and x.kind == 'int' else x.z
    yz = z3.ToReal(y.z) if real and y.kind == 'int' else y.z
    kind = 'real' if real else 'int'
    if isinstance(op, ast.Add):
        return SV(kind, xz + yz)
    if isinstance(op, ast.Sub):
        return SV(kind, xz - yz)
    if isinstance(op, ast.Mult):
        return SV(kind, xz * yz)
    if isinstance(op, ast.Div):
        it.safety_check(yz != 0, ZeroDivisionError, node, 'division by zero')
        return SV('real', xz / yz)
    if isinstance(op, ast.FloorDiv) and not real:
        it.safety_check(yz != 0, ZeroDivisionError, node, 'division by zero')
        # python floor division: z3 int div is floor for a positive divisor only
        yv = z3.simplify(yz)
        if not (z3.is_int_value(yv) and yv.as_long() > 0):
            raise Unsupported('floor division by a divisor that is not a positive constant')
        return SV('int', xz / yz)
    if isinstance(op, ast.Mod) and not real:
        it.safety_check(yz != 0, ZeroDivisionError, node, 'modulo by zero')
        return SV('int', xz % yz)
    raise Unsupported(f'arithmetic {type(op).__name__}')


def compare(it, op, a, b, node):
    if isinstance(a, CountOf) and isinstance(b, int) and not isinstance(b, bool):
        tw = occurs_twice(it, a.seq, a.x, node)
        if (isinstance(op, ast.Gt) and b == 1) or (isinstance(op, ast.GtE) and b == 2):
            return tw
        if (isinstance(op, ast.LtE) and b == 1) or (isinstance(op, ast.Lt) and b == 2) or \
                (isinstance(op, ast.Eq) and b == 1):
            return z_not(tw)
        raise Unsupported('comparison of a Counter count with a constant other than 1/2')
    if isinstance(op, (ast.Is, ast.IsNot)):
        r = is_identical(a, b)
        if isinstance(op, ast.IsNot):
            return (not r) if isinstance(r, bool) else z3.Not(r)
        return r
    if isinstance(op, (ast.Eq, ast.NotEq)):
        r = equals(it, a, b, node)
        if isinstance(op, ast.NotEq):
            return (not r) if isinstance(r, bool) else z3.Not(r)
        return r
    if isinstance(op, (ast.In, ast.NotIn)):
        r = contains(it, b, a, node)
        if isinstance(op, ast.NotIn):
            return (not r) if isinstance(r, bool) else z3.Not(r)
        return r
    # ordering
    if not is_sym(a) and not is_sym(b) and not contains_sym(a) and not contains_sym(b):
        try:
            return _CMP[type(op)](to_native(a), to_native(b))
        except TypeError as exc:
            raise PyRaise(TypeError, exc.args, node) from None
    if isinstance(a, tuple) and isinstance(b, tuple):
        return tuple_order(it, op, a, b, node)
    if isinstance(a, (SV, int, float, bool)) and isinstance(b, (SV, int, float, bool)):
        for v in (a, b):
            if isinstance(v, SV) and v.kind in ('str', 'zstr', 'meta'):
                if v.kind == 'str':
                    return str_order(it, op, a, b, node)
                raise Unsupported('ordering of strings')
        x, y = _as_num(it, a, node), _as_num(it, b, node)
        real = x.kind == 'real' or y.kind == 'real'
        xz = z3.ToReal(x.z) if real and x.kind == 'int' else x.z
        yz = z3.ToReal(y.z) if real and y.kind == 'int' else y.z
        return _ZCMP[type(op)](xz, yz)
    if isinstance(a, (SV, str)) and isinstance(b, (SV, str)):
        return str_order(it, op, a, b, node)
    if isinstance(a, SObj) and isinstance(b, SObj):
        name = {ast.Lt: '__lt__', ast.Gt: '__gt__', ast.LtE: '__le__', ast.GtE: '__ge__'}[type(op)]
        m = getattr_(it, a, name, node)
        r = it.call(m, [b], {}, node)
        return it.truth(r)
    raise Unsupported(f'ordering comparison of {type(a).__name__} and {type(b).__name__}')


str_lt = None


def str_order(it, op, a, b, node):
    """Total order on the uninterpreted string sort (A-UNI: code point order is a strict total order)."""
    lt = uf('str_lt', UStr, UStr, z3.BoolSort())
    x, y = lift(a, 'str'), lift(b, 'str')
    it.ctx.notes.append('str_lt')
    if isinstance(op, ast.Lt):
        return lt(x.z, y.z)
    if isinstance(op, ast.Gt):
        return lt(y.z, x.z)
    if isinstance(op, ast.LtE):
        return z3.Not(lt(y.z, x.z))
    return z3.Not(lt(x.z, y.z))


def str_order_axioms():
    lt = uf('str_lt', UStr, UStr, z3.BoolSort())
    a, b, c = z3.Consts('a b c', UStr)
    return [z3.ForAll([a], z3.Not(lt(a, a))),
            z3.ForAll([a, b, c], z3.Implies(z3.And(lt(a, b), lt(b, c)), lt(a, c))),
            z3.ForAll([a, b], z3.Or(lt(a, b), lt(b, a), a == b))]


def tuple_order(it, op, a, b, node):
    if len(a) != len(b):
        raise Unsupported('ordering of tuples of different length')
    strict = isinstance(op, (ast.Lt, ast.Gt))
    less = isinstance(op, (ast.Lt, ast.LtE))
    res = z3.BoolVal(not strict)
    for x, y in reversed(list(zip(a, b))):
        lt = z_bool(compare(it, ast.Lt() if less else ast.Gt(), x, y, node))
        eq = z_bool(equals(it, x, y, node))
        res = z3.Or(lt, z3.And(eq, res))
    return res


_CMP = {ast.Lt: operator.lt, ast.LtE: operator.le, ast.Gt: operator.gt, ast.GtE: operator.ge}
_ZCMP = {ast.Lt: lambda x, y: x < y, ast.LtE: lambda x, y: x <= y,
         ast.Gt: lambda x, y: x > y, ast.GtE: lambda x, y: x >= y}


def is_identical(a, b):
    if isinstance(a, (SOptRec, SOptTuple)) and b is None:
        return z_not(z_bool(a.present))
    if isinstance(b, (SOptRec, SOptTuple)) and a is None:
        return z_not(z_bool(b.present))
    if a is None and isinstance(b, SV):
        return b.none if b.none is not None else False
    if b is None and isinstance(a, SV):
        return a.none if a.none is not None else False
    if isinstance(a, SV) and isinstance(b, bool) and a.kind == 'bool':
        t = a.z if b else z3.Not(a.z)
        return z3.And(z3.Not(a.none), t) if a.none is not None else t
    if isinstance(b, SV) and isinstance(a, bool) and b.kind == 'bool':
        return is_identical(b, a)
    if isinstance(a, SV) and isinstance(b, bool):
        return False
    if is_sym(a) or is_sym(b):
        return a is b
    return a is b


def equals(it, a, b, node):
    if isinstance(a, SObj) or isinstance(b, SObj):
        for x, y in ((a, b), (b, a)):
            if isinstance(x, SObj) and isinstance(x.cls, type):
                for k in x.cls.__mro__:
                    if '__eq__' in k.__dict__ and k is not object:
                        f = k.__dict__['__eq__']
                        r = it.call_function(f, [x, y], {}, defining_class=k)
                        if r is NotImplemented:
                            continue
                        return it.truth(r)
        return a is b
    if isinstance(a, TruthOnly) or isinstance(b, TruthOnly):
        raise Unsupported('equality on truth-only value')
    if isinstance(a, (MList, list)) and isinstance(b, (MList, list)):
        ia = a.items() if isinstance(a, MList) else a
        ib = b.items() if isinstance(b, MList) else b
        if len(ia) != len(ib):
            return False
        return z_and(*[z_bool(equals(it, x, y, node)) for x, y in zip(ia, ib)])
    if isinstance(a, SV) and a.kind == 'zstr' and isinstance(b, str):
        b = lift(b, 'zstr')
    if isinstance(b, SV) and b.kind == 'zstr' and isinstance(a, str):
        a = lift(a, 'zstr')
    if isinstance(a, SV) and a.kind == 'meta' or isinstance(b, SV) and b.kind == 'meta':
        if isinstance(a, MDict) and not a.d and not a.nodes:
            return meta_empty(b)
        if isinstance(b, MDict) and not b.d and not b.nodes:
            return meta_empty(a)
    return val_eq(a, b)


def meta_empty(v: SV):
    from vc.pyvc.values import meta_is_empty
    t = meta_is_empty(v.z)
    return z3.And(z3.Not(v.none), t) if v.none is not None else t


def contains(it, container, x, node):
    if isinstance(container, SOptRec):
        it.safety_check(z_bool(container.present), TypeError, node, "argument of type 'NoneType' is not iterable")
        container = container.rec
    if isinstance(container, SRec):
        if is_sym(x):
            raise Unsupported('symbolic key membership in record')
        s = container.slots.get(x)
        return False if s is None else s.present
    if isinstance(container, MDict):
        rc = getattr(container, 'rec_copy', None)
        if rc is not None:
            r = contains(it, rc, x, node)
            if not is_sym(x) and x in container.d:
                return True
            return r
        if container.is_concrete() and not is_sym(x) and not contains_sym(x):
            return x in container.d
        return map_contains(it, container, x)
    if isinstance(container, SMap):
        return map_contains(it, container, x)
    if isinstance(container, (MSet, SSet)):
        seq = container.as_seq() if isinstance(container, MSet) else container.seq
        if isinstance(container, MSet) and container.is_concrete() and not is_sym(x) and not contains_sym(x):
            return x in container.items
        return seq.contains(lambda e: z_bool(equals(it, e, x, node)))
    if isinstance(container, (MList,)) and container.is_concrete():
        items = container.items()
        if not is_sym(x) and not any(contains_sym(i) for i in items):
            return x in items
        return z_or(*[z_bool(equals(it, e, x, node)) for e in items])
    if isinstance(container, SList) and isinstance(x, (SV, str, int)) and not isinstance(x, bool):
        probe = container.at(z3.IntVal(0))
        if isinstance(probe, SV):
            # membership in an input list of scalars: the list's `has` predicate (the same one SQL `IN (?,...)`
            # over this list is translated to); has(elem(i)) for every index is an axiom of the list
            from vc.sqlvc.encode import seq_has
            xv = lift(x, probe.kind) if not isinstance(x, SV) else x
            if xv.kind == probe.kind:
                core = seq_has(container, probe.kind)(xv.z)
                SEQ_AXIOM_LISTS[container.name] = container
                return z3.And(z3.Not(xv.none), core) if xv.none is not None else core
    if isinstance(container, (SeqBase, SSorted)):
        seq = it.to_seq(container)
        return seq.contains(lambda e: z_bool(equals(it, e, x, node)))
    if isinstance(container, (tuple, list, set, frozenset, dict)) and is_sym(x):
        keys = list(container)
        return z_or(*[z_bool(equals(it, k, x, node)) for k in keys])
    if isinstance(container, SCounter):
        return container.seq.contains(lambda e: z_bool(equals(it, e, x, node)))
    if isinstance(container, SqlText) and isinstance(x, str):
        raise Unsupported('substring test on SQL text')
    if isinstance(container, SV) and container.kind == 'zstr':
        return z3.Contains(container.z, lift(x, 'zstr').z)
    if isinstance(container, SV) and container.kind == 'str' and isinstance(x, str):
        f = uf('str_contains_' + repr(x), UStr, z3.BoolSort())
        return f(container.z)
    if isinstance(container, DictView):
        return contains(it, it.to_seq(container), x, node)
    if not is_sym(x):
        try:
            return x in container
        except TypeError as exc:
            raise PyRaise(TypeError, exc.args, node) from None
    h = getattr(container, 'vc_contains', None)
    if h is not None:
        return h(it, x, node)
    raise Unsupported(f'membership in {type(container).__name__}')


def set_difference(it, a, b):
    sa = a.as_seq() if isinstance(a, MSet) else a.seq
    if isinstance(b, (set, frozenset)):
        b = MSet(sorted(b, key=repr))
    if isinstance(b, MSet) and not b.items and not b.nodes:
        out = MSet()
        out.items = list(a.items) if isinstance(a, MSet) else []
        out.nodes = list(a.nodes) if isinstance(a, MSet) else list(sa.nodes)
        return out

    def flt(nodes):
        out = []
        for n in nodes:
            if isinstance(n, Lit):
                g = z_not(z_bool(contains(it, b, n.elem, None)))
                out.append(Lit(n.elem, z_and(n.guard, g)))
            else:
                out.append(Loop(n.binders, n.guard, flt(n.kids), n.order, n.unordered))
        return out
    out = MSet()
    out.nodes = flt(sa.nodes)
    return out


# ---------------------------------------------------------------------------------------------
# builtin functions with symbolic arguments

def b_len(it, args, kw, node):
    (x,) = args
    if isinstance(x, SList):
        return SLen(x.length, x)
    if isinstance(x, MList) and x.is_concrete():
        return len(x.nodes)
    if isinstance(x, MDict) and x.is_concrete():
        return len(x.d)
    if isinstance(x, MSet) and x.is_concrete():
        return len(x.items)
    if isinstance(x, SV) and x.kind == 'zstr':
        return SV('int', z3.Length(x.z))
    if isinstance(x, (SeqBase, MDict, MSet, SSet, SMap, SSorted)):
        n = z3.Int(fresh_name('len'))
        it.ctx.assume(n >= 0)
        try:
            ne = truthy(x) if is_sym(x) else it.truth(x)
            if not isinstance(ne, bool):
                it.ctx.assume(z3.simplify(ne) == (n > 0))
        except Unsupported:
            pass
        return SLen(n, x)
    if isinstance(x, SRec):
        raise Unsupported('len of record')
    return len(x)


def b_isinstance(it, args, kw, node):
    x, t = args
    if isinstance(t, MList):
        t = tuple(t.items())
    if isinstance(x, SObj):
        return isinstance(x.cls, type) and issubclass(x.cls, t)
    if isinstance(x, SV):
        pytype = {'int': int, 'real': float, 'bool': bool, 'str': str, 'zstr': str, 'meta': dict}.get(x.kind)
        ts = t if isinstance(t, tuple) else (t,)
        r = any(pytype is not None and issubclass(pytype, tt) for tt in ts if isinstance(tt, type))
        if x.none is not None:
            return z3.Not(x.none) if r else False
        return r
    if isinstance(x, (MList, SList, Seq)):
        ts = t if isinstance(t, tuple) else (t,)
        return list in ts
    if isinstance(x, (MDict, SRec)):
        ts = t if isinstance(t, tuple) else (t,)
        return dict in ts
    if isinstance(x, ExcValue):
        return issubclass(x.cls, t)
    return isinstance(x, t)


def b_bool(it, args, kw, node):
    if not args:
        return False
    t = it.truth(args[0])
    return t if isinstance(t, bool) else SV('bool', t)


def b_list(it, args, kw, node):
    if not args:
        return MList()
    out = MList()
    it.list_extend(out, args[0])
    return out


def b_tuple(it, args, kw, node):
    if not args:
        return ()
    items = it.concrete_items(args[0])
    if items is None:
        if isinstance(args[0], (SeqBase, SSet, MSet)):
            return it.to_seq(args[0])      # immutable view of the sequence
        raise Unsupported('tuple() of symbolic sequence')
    return tuple(items)


def b_set(it, args, kw, node):
    out = MSet()
    if args:
        it.set_update(out, args[0])
    return out


def b_dict(it, args, kw, node):
    out = MDict()
    if args:
        it.dict_update(out, args[0])
    for k, v in kw.items():
        it.setitem(out, k, v, node)
    return out


def b_sorted(it, args, kw, node):
    src = args[0]
    if kw.get('key') is not None or kw.get('reverse'):
        items = it.concrete_items(src)
        if items is None or any(contains_sym(x) for x in items):
            raise Unsupported('sorted with key on symbolic sequence')
        key = kw.get('key')
        return MList(sorted(items, key=(lambda x: it.call(key, [x], {})) if key else None,
                            reverse=bool(kw.get('reverse'))))
    items = it.concrete_items(src)
    if items is not None and not any(contains_sym(x) for x in items):
        return MList(sorted(items))
    seq = it.to_seq(src)
    return SSorted(seq, dedup=isinstance(src, (MSet, SSet, set, frozenset)))


def b_enumerate(it, args, kw, node):
    src = args[0]
    start = args[1] if len(args) > 1 else kw.get('start', 0)
    items = it.concrete_items(src)
    if items is not None:
        return MList([(start + i, x) for i, x in enumerate(items)]) if not is_sym(start) else \
            MList([(binop(it, ast.Add(), start, i, node), x) for i, x in enumerate(items)])
    if isinstance(src, SChunk):
        raise Unsupported('enumerate over a batch (position inside a batch is not chunk-homomorphic)')
    seq = it.to_seq(src)
    return enumerate_seq(it, seq, start)


def enumerate_seq(it, seq: Seq, start):
    """enumerate over a sequence tree of the shape [Loop(single list binder, guards...)]: the position is
    the binder itself when no element is filtered out, otherwise the count of earlier passing elements
    (an uninterpreted, canonically named rank function with its defining axioms)."""
    if len(seq.nodes) != 1 or not isinstance(seq.nodes[0], Loop) or len(seq.nodes[0].binders) != 1:
        raise Unsupported('enumerate over a composite symbolic sequence')
    loop = seq.nodes[0]
    b = loop.binders[0]
    if len(loop.kids) != 1 or not isinstance(loop.kids[0], Lit):
        raise Unsupported('enumerate over a nested symbolic sequence')
    lit = loop.kids[0]
    guard = z_and(loop.guard, lit.guard)
    s = lift(start, 'int').z
    if guard is True or z3.is_true(guard) or not I.contains_binder(SV('bool', z_bool(guard)), [b.var]):
        lo = range_lower(b)
        pos = b.var - lo if lo is not None else None
        if pos is None:
            raise Unsupported('enumerate over a sequence without index range')
        idx = SV('int', z3.simplify(pos + s))
        return Seq([Loop([b], loop.guard, [Lit((idx, lit.elem), lit.guard)], loop.order, loop.unordered)],
                   label='enumerate')
    # filtered: rank function
    rank = rank_function(b, guard)
    idx = SV('int', rank(b.var) + s)
    for ax in rank.axioms:
        it.ctx.assume(ax)
    return Seq([Loop([b], loop.guard, [Lit((idx, lit.elem), lit.guard)], loop.order, loop.unordered)],
               label='enumerate')


def range_lower(b: Binder):
    """If the binder constraint is And(i >= lo, i < hi) return lo."""
    c = b.constraint
    if z3.is_and(c) and c.num_args() == 2:
        lo = c.arg(0)
        if z3.is_ge(lo) and lo.arg(0).eq(b.var):
            return lo.arg(1)
    return None


_rank_cache: dict = {}


class _Rank:
    def __init__(self, f, axioms):
        self.f = f
        self.axioms = axioms

    def __call__(self, i):
        return self.f(i)


def rank_function(b: Binder, guard):
    """rank(i) = number of j < i (in range) with guard(j).  Canonical name from the structure so that the code
    and the specification obtain the same symbol.  Axioms: rank(lo) = 0; rank(i+1) = rank(i) + [guard(i)]."""
    iv = z3.Int('$i')
    outer = free_consts([z_bool(guard), b.constraint], exclude=[b.var])
    osub = [(o, z3.Const(f'$o{k}', o.sort())) for k, o in enumerate(outer)]
    gnorm = z3.substitute(z_bool(guard), (b.var, iv), *osub)
    cnorm = z3.substitute(b.constraint, (b.var, iv), *osub)
    gkey = gnorm.sexpr() + '|' + cnorm.sexpr()
    if gkey not in _rank_cache:
        # unify with an earlier rank function over the same range whose filter is provably equivalent
        for okey, orank in _rank_cache.items():
            if orank.cnorm.sexpr() != cnorm.sexpr():
                continue
            sv = z3.Solver()
            sv.set('timeout', 2000)
            sv.add(*LITS.axioms())
            sv.add(cnorm)
            sv.add(gnorm != orank.gnorm)
            if sv.check() == z3.unsat:
                _rank_cache[gkey] = orank
                break
    if gkey not in _rank_cache:
        name = f'rank#{len(_rank_cache)}'
        osorts = [o.sort() for o in outer]
        f = z3.Function(name, *osorts, z3.IntSort(), z3.IntSort())
        rk = _Rank(f, [])
        rk.gnorm, rk.cnorm, rk.nouter = gnorm, cnorm, len(outer)
        _rank_cache[gkey] = rk
    rk = _rank_cache[gkey]
    if rk.nouter != len(outer):
        raise Unsupported('rank function unification with a different number of parameters')
    lo = range_lower(b)
    if lo is None:
        raise Unsupported('rank over a sequence without index range')
    j = z3.Int('$j')
    gj = z3.substitute(z_bool(guard), (b.var, j))
    cj = z3.substitute(b.constraint, (b.var, j))
    f = rk.f
    inst = _Rank(lambda i, f=f, outer=tuple(outer): f(*outer, i),
                 [f(*outer, lo) == 0,
                  z3.ForAll([j], z3.Implies(cj, f(*outer, j + 1) == f(*outer, j) + z3.If(gj, 1, 0)),
                            patterns=[f(*outer, j)])])
    return inst


def free_consts(terms, exclude=()) -> list:
    """Uninterpreted constants occurring in the terms (in order of first occurrence), except literals."""
    ex = {e.get_id() for e in exclude}
    out, seen = [], set()
    stack = list(reversed(terms))
    while stack:
        x = stack.pop()
        if x.get_id() in seen:
            continue
        seen.add(x.get_id())
        if z3.is_quantifier(x):
            stack.append(x.body())
        elif z3.is_app(x):
            if x.num_args() == 0 and x.decl().kind() == z3.Z3_OP_UNINTERPRETED:
                if x.get_id() not in ex and not x.decl().name().startswith('lit_'):
                    out.append(x)
            else:
                stack.extend(reversed(x.children()))
    return out


def _unused_rank():
    return _rank_cache[gkey]


def free_outer_vars(t, bound):
    return []


def b_zip(it, args, kw, node):
    lists = [it.concrete_items(a) for a in args]
    if all(l is not None for l in lists):
        return MList(list(zip(*lists)))
    raise Unsupported('zip of symbolic sequences')


def b_reversed(it, args, kw, node):
    items = it.concrete_items(args[0])
    if items is not None:
        return MList(list(reversed(items)))
    seq = it.to_seq(args[0])
    if len(seq.nodes) == 1 and isinstance(seq.nodes[0], Loop):
        n = seq.nodes[0]
        return Seq([Loop(n.binders, n.guard, n.kids, n.order, n.unordered, n.src, not n.reverse)],
                   label='reversed')
    raise Unsupported('reversed of a composite symbolic sequence')


def b_any(it, args, kw, node):
    src = args[0]
    items = it.concrete_items(src)
    if items is not None:
        ts = [it.truth(x) for x in items]
        if all(isinstance(t, bool) for t in ts):
            return any(ts)
        return SV('bool', z_or(*[z_bool(t) for t in ts]))
    seq = it.to_seq(src)
    alts = []
    for binders, guard, elem, _ in seq.leaves():
        body = z_and(*[b.constraint for b in binders], guard, z_bool(it.truth(elem)))
        vs = [b.var for b in binders]
        alts.append(z3.Exists(vs, body) if vs else body)
    return SV('bool', z_or(*alts))


def b_all(it, args, kw, node):
    src = args[0]
    items = it.concrete_items(src)
    if items is not None:
        ts = [it.truth(x) for x in items]
        if all(isinstance(t, bool) for t in ts):
            return all(ts)
        return SV('bool', z_and(*[z_bool(t) for t in ts]))
    seq = it.to_seq(src)
    alts = []
    for binders, guard, elem, _ in seq.leaves():
        body = z3.Implies(z_and(*[b.constraint for b in binders], guard), z_bool(it.truth(elem)))
        vs = [b.var for b in binders]
        alts.append(z3.ForAll(vs, body) if vs else body)
    return SV('bool', z_and(*alts))


def b_sum(it, args, kw, node):
    src = args[0]
    items = it.concrete_items(src)
    if items is not None:
        acc = args[1] if len(args) > 1 else 0
        for x in items:
            acc = binop(it, ast.Add(), acc, x, node)
        return acc
    n = z3.Int(fresh_name('sum'))
    return SV('int', n)    # unconstrained (only used for progress totals)


def b_minmax(is_max):
    def f(it, args, kw, node):
        default = kw.get('default', I._MISSING)
        key = kw.get('key')
        if len(args) > 1:
            items = list(args)
        else:
            items = it.concrete_items(args[0])
        if items is None:
            h = getattr(args[0], 'vc_minmax', None)
            if h is not None:
                return h(it, is_max, key, default, node)
            raise Unsupported('min/max of symbolic sequence')
        if not items:
            if default is I._MISSING:
                raise PyRaise(ValueError, ('min()/max() arg is an empty sequence',), node)
            return default
        keys = [it.call(key, [x], {}) if key is not None else x for x in items]
        if not any(is_sym(k) or contains_sym(k) for k in keys):
            f_ = max if is_max else min
            best = f_(range(len(items)), key=lambda i: (keys[i], -i if is_max else -i))
            # python returns the first extremal element
            nk = [to_native(k) for k in keys]
            bi = 0
            for i in range(1, len(items)):
                if (nk[i] > nk[bi]) if is_max else (nk[i] < nk[bi]):
                    bi = i
            return items[bi]
        # symbolic keys: fold with ite (first extremal wins)
        best, bk = items[0], keys[0]
        for x, k in zip(items[1:], keys[1:]):
            c = z_bool(compare(it, ast.Gt() if is_max else ast.Lt(), k, bk, node))
            best = ite(c, x, best)
            bk = ite(c, k, bk)
        return best
    return f


def b_str(it, args, kw, node):
    if not args:
        return ''
    x = args[0]
    if isinstance(x, SV):
        if x.kind in ('str', 'zstr') and x.none is None:
            return x
        if x.kind == 'int':
            f = uf('str_of_int', z3.IntSort(), UStr)
            it.ctx.notes.append('str_of_int')
            return SV('str', f(x.z))
        if x.kind == 'real':
            f = uf('str_of_real', z3.RealSort(), UStr)
            return SV('str', f(x.z))
        return opaque_str('str', [x])
    if isinstance(x, SObj):
        return opaque_str('str', [x])
    return str(to_native(x))


def b_int(it, args, kw, node):
    x = args[0]
    if isinstance(x, SV):
        if x.kind == 'int':
            return x
        if x.kind == 'bool':
            return SV('int', z3.If(x.z, 1, 0))
        if x.kind == 'str':
            f = uf('int_of_str', UStr, z3.IntSort())
            ok = uf('is_int_str', UStr, z3.BoolSort())
            it.safety_check(ok(x.z), ValueError, node, 'int() of non-numeric string')
            it.ctx.notes.append('int_of_str')
            return SV('int', f(x.z))
        if x.kind == 'real':
            return SV('int', z3.ToInt(x.z))
    raise Unsupported('int() of ' + type(x).__name__)


def b_float(it, args, kw, node):
    x = args[0]
    if isinstance(x, SV):
        if x.kind == 'real':
            return x
        if x.kind == 'int':
            return SV('real', z3.ToReal(x.z))
        if x.kind == 'str':
            f = uf('float_of_str', UStr, z3.RealSort())
            ok = uf('is_float_str', UStr, z3.BoolSort())
            it.safety_check(ok(x.z), ValueError, node, 'float() of non-numeric string')
            return SV('real', f(x.z))
    if isinstance(x, str) and x in ('inf', '-inf', 'nan'):
        return float(x)
    raise Unsupported('float() of ' + type(x).__name__)


def b_iter(it, args, kw, node):
    items = it.concrete_items(args[0])
    if items is not None:
        return ConcreteIter(items)
    return SeqIter(it.to_seq(args[0]))


class SeqIter(Sym):
    def __init__(self, seq):
        self.seq = seq
        self.consumed = False


def b_next(it, args, kw, node):
    src = args[0]
    default = args[1] if len(args) > 1 else I._MISSING
    if isinstance(src, ConcreteIter):
        if src.pos < len(src.items):
            src.pos += 1
            return src.items[src.pos - 1]
        if default is not I._MISSING:
            return default
        raise PyRaise(StopIteration, (), node)
    if isinstance(src, MList) and src.is_concrete():
        # generator result: take the first element, remove it (generators are consumed)
        items = src.items()
        if items:
            src.nodes.pop(0)
            return items[0]
        if default is not I._MISSING:
            return default
        raise PyRaise(StopIteration, (), node)
    h = getattr(src, 'vc_next', None)
    if h is not None:
        return h(it, default, node)
    if isinstance(src, (SeqBase, SeqIter)):
        seq = src.seq if isinstance(src, SeqIter) else it.to_seq(src)
        return first_of_seq(it, seq, default, node)
    raise Unsupported('next() of ' + type(src).__name__)


def first_of_seq(it, seq: Seq, default, node):
    """next(iter(seq), default): *some* element of seq that is first in its order; only what the caller can
    rely on is encoded: result is an element of seq if seq is non-empty."""
    leaves = list(seq.leaves())
    ne = z3.simplify(z_bool(seq.nonempty()))
    if len(leaves) != 1:
        raise Unsupported('first element of a composite symbolic sequence')
    binders, guard, elem, loops = leaves[0]
    generic_mode = bool(it.ctx.generic)
    if generic_mode:
        if default is not None:
            raise Unsupported('next()/fetchone() with a default other than None inside a generic iteration')
    else:
        has = it.ctx.branch(ne)
        if not has:
            if default is I._MISSING:
                raise PyRaise(StopIteration, (), node)
            return default
    # instantiate the binders with fresh witnesses
    subst = []
    for b in binders:
        # canonical witness name: the same sequence always has the same first element
        canon = getattr(seq, 'first_name', None) or (seq.label if seq.label and seq.label not in (
            'mlist', 'select', 'set', 'sorted', 'guarded') else None)
        if canon is None and b.origin and b.key and b.key[0] == 'list':
            g = z3.simplify(z_bool(guard))
            canon = b.origin if z3.is_true(g) else f'{b.origin}|{hash(z3.substitute(g, (b.var, z3.Int("$i"))).sexpr()) & 0xffffff:x}'
        if canon is not None:
            w = z3.Int(f'first[{canon}|{str(b.var).split("!")[0]}]')
        else:
            w = z3.Int(fresh_name('first_' + str(b.var).split('!')[0]))
        subst.append((b.var, w))
    wit = [z3.substitute(b.constraint, *subst) for b in binders]
    if guard is not True:
        wit.append(z3.substitute(z_bool(guard), *subst))
    if generic_mode:
        # the witnesses are functions of the enclosing iteration: skolemise over the active binders
        outer = [b.var for b in it.ctx.all_binders()]
        if outer:
            sk = []
            for (bv, w) in subst:
                f = z3.Function(str(w) + '$sk', *[o.sort() for o in outer], z3.IntSort())
                sk.append((w, f(*outer)))
            wit = [z3.substitute(x, *sk) for x in wit]
            subst = [(bv, dict((a.get_id(), b_) for a, b_ in sk)[w.get_id()]) for bv, w in subst]
        it.ctx.assume(z3.Implies(z_and(*[z_bool(a) for a in it.ctx.assumptions()[len(it.ctx.pc):]], ne),
                                 z_and(*wit)))
        first = subst_value(elem, subst)
        return SOptTuple(ne, first)
    for wcons in wit:
        it.ctx.assume(wcons)
    first = subst_value(elem, subst)
    # A-ORDER-FIRST: for a single-table SELECT without ORDER BY the first row is the one with the least rowid
    if len(binders) == 1 and binders[0].key and binders[0].key[0] == 'table' and \
            not any(lp.order for lp in loops):
        b = binders[0]
        w = subst[0][1]
        r = z3.Int('r$first')
        body = z3.substitute(z_and(b.constraint, z_bool(guard)), (b.var, r))
        it.ctx.assume(z3.ForAll([r], z3.Implies(body, w <= r)))
        it.ctx.notes.append('A-ORDER-FIRST')
    # minimality w.r.t. the declared order, when there is one
    order = None
    for lp in loops:
        if lp.order:
            order = lp.order
    it.ctx.notes.append(('first_of', seq.label, [str(w) for _, w in subst]))
    return first


def subst_value(v, subst):
    if isinstance(v, SV):
        return SV(v.kind, z3.substitute(v.z, *subst),
                  z3.substitute(v.none, *subst) if v.none is not None else None)
    if isinstance(v, tuple):
        return tuple(subst_value(x, subst) for x in v)
    if isinstance(v, SRec):
        r = SRec(v.name)
        for k, s in v.slots.items():
            r.slots[k] = Slot(z3.substitute(s.present, *subst) if not isinstance(s.present, bool) else s.present,
                              subst_value(s.value, subst))
        return r
    if isinstance(v, MList) and v.is_concrete():
        return MList([subst_value(x, subst) for x in v.items()])
    if isinstance(v, SList):
        if not v.parents:
            return v
        return SList(v.name, v.make_elem, tuple(z3.substitute(p, *subst) for p in v.parents))
    return v


def b_hash(it, args, kw, node):
    x = args[0]
    if isinstance(x, SObj) and isinstance(x.cls, type):
        for k in x.cls.__mro__:
            if '__hash__' in k.__dict__ and k is not object:
                return it.call_function(k.__dict__['__hash__'], [x], {}, defining_class=k)
    if isinstance(x, tuple):
        # hash of a tuple: injective-in-practice function of the components; modelled as an uninterpreted
        # function of the component tuple (equal tuples => equal hashes is all that is used)
        return HashVal(x)
    if isinstance(x, SV):
        return HashVal((x,))
    return hash(x)


class HashVal(Sym):
    def __init__(self, comps):
        self.comps = comps


def b_getattr(it, args, kw, node):
    obj, name = args[0], args[1]
    try:
        return getattr_(it, obj, name, node)
    except PyRaise as exc:
        if len(args) > 2 and exc.exc_type is AttributeError:
            return args[2]
        raise


def b_print(it, args, kw, node):
    return None


def b_map(it, args, kw, node):
    f, src = args[0], args[1]
    items = it.concrete_items(src)
    if items is not None:
        return MList([it.call(f, [x], {}, node) for x in items])
    seq = it.to_seq(src)
    out = MList()
    env = I.Env()
    holder = {}
    it.generic_loop(seq, lambda e: holder.__setitem__('x', e),
                    lambda: it.list_append(out, it.call(f, [holder['x']], {}, node)), env)
    return out


def b_filter(it, args, kw, node):
    raise Unsupported('filter with symbolic arguments')


def b_counter(it, args, kw, node):
    src = args[0] if args else MList()
    return SCounter(it.to_seq(src) if it.concrete_items(src) is None else Seq([Lit(x) for x in it.concrete_items(src)]))


class SCounter(Sym):
    """collections.Counter over a sequence: count(x) = number of occurrences (insertion order of first
    occurrences).  What is used of it: count(x) > 1  <=>  two distinct occurrences (A-PY Counter)."""

    def __init__(self, seq):
        self.seq = seq


def occurs_twice(it, seq, x, node=None):
    """x occurs at two different positions of the sequence (A-PY-COUNTER: Counter(xs)[x] > 1)."""
    leaves = list(seq.leaves())
    alts = []
    from vc.pyvc import famcmp
    for i, (b1, g1, e1, _) in enumerate(leaves):
        for j, (b2, g2, e2, _) in enumerate(leaves):
            if j < i:
                continue
            # fresh copies of both instances' binders (x may itself mention the sequence's binders)
            s1 = [(b.var, z3.Int(fresh_name(str(b.var).split('!')[0] + '_p'))) for b in b1]
            s2 = [(b.var, z3.Int(fresh_name(str(b.var).split('!')[0] + '_q'))) for b in b2]
            c1 = [z3.substitute(b.constraint, *s1) for b in b1] if s1 else []
            c2 = [z3.substitute(b.constraint, *s2) for b in b2] if s2 else []
            g1s = z3.substitute(z_bool(g1), *s1) if s1 else z_bool(g1)
            g2s = z3.substitute(z_bool(g2), *s2) if s2 else z_bool(g2)
            e1s = famcmp.subst_value(e1, s1)
            e2s = famcmp.subst_value(e2, s2)
            body = z_and(*c1, g1s, *c2, g2s, z_bool(equals(it, e1s, x, node)), z_bool(equals(it, e2s, x, node)))
            if i == j:
                if not b1:
                    continue     # a single literal occurs once
                body = z_and(body, z_or(*[p != q for (_, p), (_, q) in zip(s1, s2)]))
            vs = [w for _, w in s1] + [w for _, w in s2]
            alts.append(z3.Exists(vs, body) if vs else body)
    return z_or(*alts)


class CountOf(SV):
    """Counter(xs)[x]: only `> 1` / `>= 2` / `== 1` style tests against small constants are interpreted."""
    __slots__ = ('seq', 'x', 'it')

    def __init__(self, it, seq, x):
        super().__init__('int', z3.Int(fresh_name('count')))
        self.seq, self.x, self.it = seq, x, it


def sc_items(it, c, args, kw, node):
    def pair(e):
        cnt = CountOf(it, c.seq, e)
        it.ctx.assume(cnt.z >= 1)
        return (e, cnt)
    # count(e) > 1 <=> e occurs twice: asserted lazily for each generic element when compared (see compare hook)
    out = map_seq(c.seq, lambda e: (e, CountOf(it, c.seq, e)))
    return out


def sc_elements(it, c, args, kw, node):
    return c.seq


def sc_get(it, c, args, kw, node):
    raise Unsupported('Counter.get')


def b_chain(it, args, kw, node):
    out = MList()
    for a in args:
        it.list_extend(out, a)
    return out


def b_groupby(it, args, kw, node):
    src = args[0]
    key = args[1] if len(args) > 1 else kw.get('key')
    items = it.concrete_items(src)
    if items is not None and not any(contains_sym(x) for x in items):
        return MList([(k, MList(list(g))) for k, g in itertools.groupby(
            items, (lambda x: to_native(it.call(key, [x], {}))) if key else None)])
    h = getattr(src, 'vc_groupby', None)
    if h is not None:
        return h(it, key, node)
    raise Unsupported('groupby over ' + type(src).__name__)


def b_islice(it, args, kw, node):
    raise Unsupported('islice with symbolic arguments')


_TABLE = {
    len: b_len, isinstance: b_isinstance, bool: b_bool, list: b_list, tuple: b_tuple, set: b_set,
    frozenset: b_set, dict: b_dict, sorted: b_sorted, enumerate: b_enumerate, zip: b_zip,
    reversed: b_reversed, any: b_any, all: b_all, sum: b_sum, min: b_minmax(False), max: b_minmax(True),
    str: b_str, int: b_int, float: b_float, iter: b_iter, next: b_next, hash: b_hash, getattr: b_getattr,
    print: b_print, map: b_map, filter: b_filter, collections.Counter: b_counter,
    itertools.chain: b_chain, itertools.groupby: b_groupby, itertools.islice: b_islice,
}


def lookup(f):
    try:
        return _TABLE.get(f)
    except TypeError:
        return None


# always-symbolic handling for some builtins even with concrete-looking args (containers are M*)
ALWAYS = {len, isinstance, list, tuple, set, frozenset, dict, sorted, enumerate, zip, reversed, any, all, sum,
          min, max, iter, next, hash, getattr, print, map, bool, collections.Counter, itertools.chain,
          itertools.groupby, str, int, float}


# ---------------------------------------------------------------------------------------------
# methods of symbolic / interpreter-owned values

METHODS: dict = {}


def method(tname, name):
    def deco(f):
        METHODS[(tname, name)] = f
        return f
    return deco


@method('SRec', 'get')
def rec_get(it, rec, args, kw, node):
    key = args[0]
    default = args[1] if len(args) > 1 else None
    if is_sym(key):
        raise Unsupported('record get with symbolic key')
    slot = rec.slots.get(key)
    if slot is None or slot.present is False:
        return default
    if slot.present is True:
        return slot.value
    p = z3.simplify(slot.present)
    if z3.is_true(p):
        return slot.value
    if z3.is_false(p):
        return default
    if isinstance(slot.value, SRec) and default is None:
        return SOptRec(p, slot.value)
    if isinstance(slot.value, (SList, Seq)) and isinstance(default, MList) and not default.nodes:
        return GuardedSeq(p, slot.value)        # rec.get(key, []): the list if present, else empty
    try:
        return ite(p, slot.value, default)
    except Unsupported:
        # containers: fork (top level) or fail
        if it.ctx.generic:
            if isinstance(slot.value, (SList, Seq)) and isinstance(default, MList) and not default.nodes:
                return GuardedSeq(p, slot.value)
            raise
        return slot.value if it.ctx.branch(p) else default


class GuardedSeq(SeqBase):
    """`rec.get(k, [])` inside a generic context: the list if present else empty."""

    def __init__(self, present, seq):
        self.present = present
        self.seq = seq

    def __hash__(self):
        return id(self)

    def nonempty(self):
        return z_and(self.present, z_bool(self.seq.nonempty()))

    def as_seq(self):
        s = self.seq.as_seq() if isinstance(self.seq, SList) else self.seq
        return Seq([I._with_guard(n, self.present) for n in s.nodes], label='guarded')

    def leaves(self):
        return self.as_seq().leaves()


@method('SOptRec', 'get')
def optrec_get(it, o, args, kw, node):
    it.safety_check(z_bool(o.present), AttributeError, node, "'NoneType' object has no attribute 'get'")
    return rec_get(it, o.rec, args, kw, node)


@method('SRec', 'setdefault')
def rec_setdefault(it, rec, args, kw, node):
    key = args[0]
    default = args[1] if len(args) > 1 else None
    slot = rec.slots.get(key)
    g = z_and(*it.ctx.preds) if it.ctx.preds else True
    if slot is None or slot.present is False:
        note_mutation(it, rec, key)
        if g is True:
            rec.slots[key] = Slot(True, default)
        else:
            rec.slots[key] = Slot(g, default)
        return default
    if slot.present is True or z3.is_true(z3.simplify(z_bool(slot.present))):
        return slot.value
    note_mutation(it, rec, key)
    p = z_bool(slot.present)
    newval = ite(p, slot.value, default)
    rec.slots[key] = Slot(z3.simplify(z3.Or(p, z_bool(g))), newval)
    return newval


@method('SRec', 'pop')
def rec_pop(it, rec, args, kw, node):
    key = args[0]
    slot = rec.slots.get(key)
    if slot is None or slot.present is False:
        if len(args) > 1:
            return args[1]
        it.safety_check(False, KeyError, node, f'pop {key!r}')
    if len(args) == 1:
        it.safety_check(z_bool(slot.present) if not isinstance(slot.present, bool) else slot.present,
                        KeyError, node, f'{rec.name}.pop({key!r})')
        val = slot.value
    else:
        val = rec_get(it, rec, [key, args[1]], {}, node)
    note_mutation(it, rec, key)
    g = z_and(*it.ctx.preds) if it.ctx.preds else True
    if g is True:
        rec.slots[key] = Slot(False, slot.value)
    else:
        rec.slots[key] = Slot(z3.simplify(z3.And(z_bool(slot.present), z3.Not(g))), slot.value)
    return val


@method('SRec', 'items')
def rec_items(it, rec, args, kw, node):
    out = MList()
    for k, s in rec.slots.items():
        if s.present is True:
            out.nodes.append(Lit((k, s.value)))
        elif s.present is not False:
            out.nodes.append(Lit((k, s.value), z_bool(s.present)))
    return out


@method('SRec', 'keys')
def rec_keys(it, rec, args, kw, node):
    out = MList()
    for k, s in rec.slots.items():
        if s.present is True:
            out.nodes.append(Lit(k))
        elif s.present is not False:
            out.nodes.append(Lit(k, z_bool(s.present)))
    return out


@method('SRec', 'copy')
def rec_copy(it, rec, args, kw, node):
    return rec.copy()


@method('SRec', 'update')
def rec_update(it, rec, args, kw, node):
    src = args[0] if args else None
    if isinstance(src, SRec):
        for k, s in src.slots.items():
            if s.present is False:
                continue
            if s.present is True or z3.is_true(z3.simplify(z_bool(s.present))):
                setitem(it, rec, k, s.value, node)
                continue
            it.ctx.preds.append(z_bool(s.present))
            try:
                setitem(it, rec, k, s.value, node)
            finally:
                it.ctx.preds.pop()
    elif isinstance(src, I.MDict) and src.is_concrete():
        for k, v in src.d.items():
            setitem(it, rec, k, v, node)
    elif isinstance(src, dict):
        for k, v in src.items():
            setitem(it, rec, k, I.from_native(v), node)
    elif src is not None:
        raise Unsupported(f'record update from {type(src).__name__}')
    for k, v in kw.items():
        setitem(it, rec, k, v, node)


@method('MList', 'append')
def ml_append(it, lst, args, kw, node):
    it.list_append(lst, args[0])


@method('MList', 'extend')
def ml_extend(it, lst, args, kw, node):
    it.list_extend(lst, args[0])


@method('MList', 'pop')
def ml_pop(it, lst, args, kw, node):
    if not lst.is_concrete():
        raise Unsupported('pop from symbolic list')
    items = lst.items()
    try:
        v = items.pop(*[to_native(a) for a in args])
    except IndexError:
        raise PyRaise(IndexError, ('pop from empty list',), node) from None
    lst.nodes = [Lit(x) for x in items]
    return v


@method('MList', 'insert')
def ml_insert(it, lst, args, kw, node):
    items = lst.items()
    items.insert(args[0], args[1])
    lst.nodes = [Lit(x) for x in items]


@method('MList', 'copy')
def ml_copy(it, lst, args, kw, node):
    return MList(nodes=list(lst.nodes))


@method('MList', 'index')
def ml_index(it, lst, args, kw, node):
    items = lst.items()
    if contains_sym(args[0]) or any(contains_sym(x) for x in items):
        raise Unsupported('index() with symbolic values')
    try:
        return items.index(args[0])
    except ValueError:
        raise PyRaise(ValueError, ('not in list',), node) from None


@method('MList', 'fetchall')
def ml_fetchall(it, lst, args, kw, node):
    return lst


@method('MDict', 'get')
def md_get(it, d, args, kw, node):
    key = args[0]
    default = args[1] if len(args) > 1 else None
    rc = getattr(d, 'rec_copy', None)
    if rc is not None and not (not is_sym(key) and key in d.d):
        return rec_get(it, rc, [key] + list(args[1:]), kw, node)
    if d.is_concrete() and not is_sym(key) and not contains_sym(key):
        return d.d.get(key, default)
    return map_lookup(it, d, key, default, node)


@method('MDict', 'setdefault')
def md_setdefault(it, d, args, kw, node):
    key = args[0]
    default = args[1] if len(args) > 1 else None
    rc = getattr(d, 'rec_copy', None)
    if rc is not None:
        if key in d.d:
            return d.d[key]
        slot = rc.slots.get(key)
        if slot is not None and slot.present is not False:
            p = z_bool(slot.present)
            if z3.is_true(z3.simplify(p)):
                return slot.value
            v = ite(p, slot.value, default)
            d.d[key] = v
            return v
        d.d[key] = default
        return default
    if d.is_concrete() and not is_sym(key) and not contains_sym(key) and (
            not it.ctx.generic or key in d.d or (isinstance(default, (MSet, MList, MDict)) and not contains_sym(default))):
        # concrete key: the cell exists from here on (if created under a predicate its content carries the guard)
        return d.d.setdefault(key, default)
    h = getattr(d, 'vc_setdefault', None)
    if h is not None:
        return h(it, key, default, node)
    return GroupCell(d, key, default)


class GroupCell(Sym):
    """d.setdefault(k, []) / d.setdefault(k, {}) with symbolic key k inside a generic loop: the cell of the
    group k.  `.append(x)` / `[y] = v` / `.add(x)` add the contribution (k, x) to the grouped map."""

    def __init__(self, d, key, default):
        self.d = d
        self.key = key
        self.default = default


@method('GroupCell', 'append')
def gc_append(it, cell, args, kw, node):
    grouped_add(it, cell.d, cell.key, args[0])


@method('GroupCell', 'add')
def gc_add(it, cell, args, kw, node):
    grouped_add(it, cell.d, cell.key, args[0])


def grouped_add(it, d: MDict, key, val):
    if not hasattr(d, 'grouped'):
        d.grouped = []           # nodes of (group key, member)
    it._append_node(d.grouped, (key, val), d)


@method('MDict', 'items')
def md_items(it, d, args, kw, node):
    return DictView(d, 'items')


@method('MDict', 'keys')
def md_keys(it, d, args, kw, node):
    return DictView(d, 'keys')


@method('MDict', 'values')
def md_values(it, d, args, kw, node):
    return DictView(d, 'values')


@method('MDict', 'update')
def md_update(it, d, args, kw, node):
    if args:
        it.dict_update(d, args[0])
    for k, v in kw.items():
        it.setitem(d, k, v, node)


@method('MDict', 'pop')
def md_pop(it, d, args, kw, node):
    if not d.is_concrete() or is_sym(args[0]):
        raise Unsupported('pop from symbolic dict')
    if args[0] in d.d:
        return d.d.pop(args[0])
    if len(args) > 1:
        return args[1]
    raise PyRaise(KeyError, (args[0],), node)


@method('MDict', 'copy')
def md_copy(it, d, args, kw, node):
    out = MDict(dict(d.d))
    out.nodes = list(d.nodes)
    return out


@method('MSet', 'add')
def ms_add(it, s, args, kw, node):
    it.set_add(s, args[0])


@method('MSet', 'update')
def ms_update(it, s, args, kw, node):
    for a in args:
        it.set_update(s, a)


@method('MSet', 'intersection')
def ms_intersection(it, s, args, kw, node):
    other = args[0]
    other_seq = it.to_seq(other) if not isinstance(other, (MSet,)) else other.as_seq()
    sa = s.as_seq()

    def flt(nodes):
        out = []
        for n in nodes:
            if isinstance(n, Lit):
                g = other_seq.contains(lambda e, n=n: z_bool(equals(it, e, n.elem, node)))
                out.append(Lit(n.elem, z_and(n.guard, g)))
            else:
                out.append(Loop(n.binders, n.guard, flt(n.kids), n.order, n.unordered))
        return out
    if s.is_concrete() and it.concrete_items(other) is not None and \
            not any(contains_sym(x) for x in it.concrete_items(other)):
        return MSet([x for x in s.items if x in it.concrete_items(other)])
    out = MSet()
    out.nodes = flt(sa.nodes)
    return out


@method('MSet', 'union')
def ms_union(it, s, args, kw, node):
    out = MSet()
    it.set_update(out, s)
    for a in args:
        it.set_update(out, a)
    return out


@method('MSet', 'copy')
def ms_copy(it, s, args, kw, node):
    out = MSet(list(s.items))
    out.nodes = list(s.nodes)
    return out


@method('SqlText', 'strip')
def sql_strip(it, s, args, kw, node):
    parts = list(s.parts)
    if isinstance(parts[0], str):
        parts[0] = parts[0].lstrip()
    if isinstance(parts[-1], str):
        parts[-1] = parts[-1].rstrip()
    return SqlText(parts)


@method('SqlText', 'format')
def sql_format(it, s, args, kw, node):
    parts = []
    for p in s.parts:
        parts.append(p.format(*[to_native(a) for a in args], **{k: to_native(v) for k, v in kw.items()})
                     if isinstance(p, str) else p)
    return SqlText(parts)


# strings of the uninterpreted sort ------------------------------------------------------------

def _str_uf_method(name, pyname=None):
    def m(it, s, args, kw, node):
        if s.kind == 'zstr':
            raise Unsupported(f'zstr.{name}')
        it.require_not_none(s, node, f'NoneType has no attribute {name}')
        if args:
            tag = name + '_' + '_'.join(repr(to_native(a)) for a in args)
        else:
            tag = name
        f = uf('str_' + tag, UStr, UStr)
        return SV('str', f(s.z))
    return m


for _n in ('strip', 'lower', 'upper', 'rstrip', 'lstrip', 'casefold'):
    METHODS[('str', _n)] = _str_uf_method(_n)


@method('meta', 'get')
def meta_get(it, m, args, kw, node):
    key = args[0]
    if is_sym(key):
        raise Unsupported('metadata key')
    f = uf('meta_get_' + repr(key), Meta, UStr)
    p = uf('meta_has_' + repr(key), Meta, z3.BoolSort())
    none = z3.Not(p(m.z))
    if m.none is not None:
        none = z3.Or(m.none, none)
    return SV('str', f(m.z), none)


@method('str', 'split')
def str_split(it, s, args, kw, node):
    if s.kind == 'zstr':
        h = getattr(it, 'zstr_split', None)
        if h is not None:
            return h(s, args, node)
        raise Unsupported('split of theory string')
    it.require_not_none(s, node, 'NoneType has no attribute split')
    if not args:
        toks = JOINED.get(s.z.get_id())
        if toks is not None:
            return toks          # A-SPLIT: (' '.join(ts)).split() == ts for non-empty whitespace-free tokens
    return SplitResult(s, tuple(to_native(a) for a in args))


class SplitResult(SeqBase):
    """s.split(): a symbolic list of tokens, identified by (s, args)."""

    def __init__(self, s, args):
        self.s = s
        self.args = args
        tag = 'split' + ('_' + repr(args) if args else '')
        self.len_f = uf('str_' + tag + '_len', UStr, z3.IntSort())
        self.tok_f = uf('str_' + tag + '_tok', UStr, z3.IntSort(), UStr)

    def __hash__(self):
        return id(self)

    def as_slist(self):
        s = self.s

        def mk_elem(name, idx):
            return SV('str', self.tok_f(s.z, idx[-1]))
        return SList(f'split({s.z})', mk_elem, (), length=self.len_f(s.z))

    def nonempty(self):
        return self.len_f(self.s.z) > 0

    def as_seq(self):
        return self.as_slist().as_seq()

    def leaves(self):
        return self.as_slist().as_seq().leaves()


@method('str', 'startswith')
def str_startswith(it, s, args, kw, node):
    if s.kind == 'zstr':
        return SV('bool', z3.PrefixOf(lift(args[0], 'zstr').z, s.z))
    f = uf('str_startswith_' + repr(to_native(args[0])), UStr, z3.BoolSort())
    return SV('bool', f(s.z))


@method('str', 'endswith')
def str_endswith(it, s, args, kw, node):
    if s.kind == 'zstr':
        return SV('bool', z3.SuffixOf(lift(args[0], 'zstr').z, s.z))
    f = uf('str_endswith_' + repr(to_native(args[0])), UStr, z3.BoolSort())
    return SV('bool', f(s.z))


@method('str', 'replace')
def str_replace(it, s, args, kw, node):
    if s.kind == 'zstr':
        raise Unsupported('zstr.replace (replace_all)')
    f = uf('str_replace_' + repr(to_native(args[0])) + '_' + repr(to_native(args[1])), UStr, UStr)
    return SV('str', f(s.z))


@method('str', 'format')
def str_format(it, s, args, kw, node):
    return opaque_str('format', [s] + list(args))


@method('str', 'join')
def str_join_sym(it, s, args, kw, node):
    raise Unsupported('join with symbolic separator')


# methods of concrete str with symbolic args are dispatched here from interp.call via native failure
def str_join(it, sep: str, src, node):
    if isinstance(src, SRepeat):
        kind = {('?', False): 'qs', ('(?)', True): 'vs'}.get((src.unit, src.is_list))
        if kind is None or sep != ',':
            raise Unsupported(f'join of repeated {src.unit!r} with {sep!r}')
        return SqlText([(kind, src.seq)])
    items = it.concrete_items(src)
    if items is not None:
        if all(isinstance(x, str) for x in items):
            return sep.join(items)
        if all(isinstance(x, (str, SqlText)) for x in items):
            parts = []
            for i, x in enumerate(items):
                if i:
                    parts.append(sep)
                parts.append(x)
            return it.concat_str(parts)
        if all(isinstance(x, (str, SV)) for x in items):
            return JoinedTokens(sep, [x for x in items])
    if isinstance(src, SplitResult) and sep == ' ' and not src.args:
        # ' '.join(s.split()): whitespace normalisation, a function of s
        return SV('str', uf('str_wsnorm', UStr, UStr)(src.s.z))
    if isinstance(src, (SeqBase, SSorted)):
        return JoinedTokens(sep, src)
    raise Unsupported(f'join over {type(src).__name__}')


class JoinedTokens(SV):
    """sep.join(tokens) with symbolic tokens: an uninterpreted string that remembers its tokens
    (A-SPLIT: (sep.join(ts)).split() == ts when tokens are non-empty and whitespace-free and ts non-empty)."""
    __slots__ = ('sep', 'tokens')

    def __init__(self, sep, tokens):
        super().__init__('str', z3.Const(fresh_name('joined'), UStr))
        self.sep = sep
        self.tokens = tokens
        if sep == ' ':
            JOINED[self.z.get_id()] = tokens
            JOINED_TERMS.append((self.z, tokens))


JOINED: dict = {}       # z3 term id of ' '.join(tokens) -> tokens
JOINED_TERMS: list = []


@method('Seq', 'fetchall')
def seq_fetchall(it, s, args, kw, node):
    return s


@method('ParamSeq', 'append')
def ps_append(it, s, args, kw, node):
    s.parts.append(('one', args[0]))


@method('ParamSeq', 'extend')
def ps_extend(it, s, args, kw, node):
    s.parts.append(('splat', args[0]))


@method('DictView', '__iter__')
def dv_iter(it, s, args, kw, node):
    return s


def concrete_str_method(it, s, name, args, kwargs, node):
    if name == 'join':
        return str_join(it, s, args[0], node)
    if name == 'format':
        return opaque_str('format', [s] + list(args))
    if name in ('startswith', 'endswith', '__contains__', '__eq__'):
        raise Unsupported(f'concrete str.{name} with symbolic argument')
    raise Unsupported(f'str.{name} with symbolic arguments')


METHODS[('SCounter', 'items')] = sc_items
METHODS[('SCounter', 'elements')] = sc_elements
METHODS[('SCounter', 'get')] = sc_get


def sc_update(it, c, args, kw, node):
    """Counter.update(iterable): the counted sequence grows; the counter is marked as modified (frame checks)."""
    c.mutated = True
    src = args[0] if args else MList()
    if isinstance(src, SCounter):
        src = src.seq
    elif isinstance(src, SSet):
        src = src.seq
    extra = it.to_seq(src) if it.concrete_items(src) is None else Seq([Lit(x) for x in it.concrete_items(src)])
    c.seq = Seq(list(c.seq.nodes) + list(extra.nodes))


METHODS[('SCounter', 'update')] = sc_update
METHODS[('SCounter', 'keys')] = lambda it, c, args, kw, node: SSet(c.seq, 'counter-keys')
