"""pyvc: symbolic interpreter over the Python ast of the real functions.

* top-level symbolic branches fork (re-execution with a decision prefix; one run = one path);
* inside generic iterations (for-loops / comprehensions over symbolic sequences) branches are
  *predicated* and contributions to accumulators carry guards (families);
* calls: contract handler > interpreted (functions of the package under verification, closures) > native
  (all-concrete arguments) > symbolic builtin table; anything else raises Unsupported (undecided, exit 3).

What the extraction drops: docstrings, annotations (AnnAssign keeps the assignment), typing.cast (identity),
logging calls (log.info/debug...).  Nothing else.
"""
from __future__ import annotations

import ast
import builtins
import inspect
import textwrap
import types
import typing
from dataclasses import dataclass, field
from typing import Any, Callable, Optional

import z3

from vc.core import Unsupported
from vc.pyvc.values import (
    SV, SRec, SObj, SList, Seq, Lit, Loop, Binder, SSet, SMap, SSorted, SChunk, SBatched, SqlText, SRepeat,
    SLen, Slot, Sym, LITS, SORTS, UStr, EMPTY_META, is_sym, truthy, ite, val_eq, lift, mk, fresh_name,
    z_and, z_or, z_not, z_bool, SeqBase,
)

# ---------------------------------------------------------------------------------------------
# control-flow signals


class _Return(Exception):
    def __init__(self, value):
        self.value = value


class _Break(Exception):
    pass


class _Continue(Exception):
    pass


class PyRaise(Exception):
    """A Python exception raised by the interpreted program."""

    def __init__(self, exc_type, args=(), node=None, cause=None):
        super().__init__(getattr(exc_type, '__name__', str(exc_type)))
        self.exc_type = exc_type
        self.args_v = args
        self.node = node
        self.cause = cause

    def matches(self, handler_type) -> bool:
        if handler_type is None:
            return True
        hts = handler_type if isinstance(handler_type, tuple) else (handler_type,)
        try:
            return issubclass(self.exc_type, hts)
        except TypeError:
            return False


class PathEnd(Exception):
    """Infeasible path (assumption contradicted)."""


# ---------------------------------------------------------------------------------------------
# mutable containers created by interpreted code


CURRENT_CTX = None      # the Ctx of the path being executed (containers remember the frame depth of creation)


def _depths():
    c = CURRENT_CTX
    return (len(c.generic), len(c.preds)) if c is not None else (0, 0)


class MList(SeqBase):
    """Python list created/owned by interpreted code. nodes: Lit/Loop tree (concatenation)."""

    def __init__(self, items=None, nodes=None):
        self.nodes: list = nodes if nodes is not None else [Lit(x) for x in (items or [])]
        self.depth, self.pdepth = _depths()

    def __hash__(self):
        return id(self)

    def __repr__(self):
        return f'MList<{len(self.nodes)} nodes{"" if self.is_concrete() else " sym"}>'

    def is_concrete(self) -> bool:
        return all(isinstance(n, Lit) and n.guard is True for n in self.nodes)

    def items(self) -> list:
        if not self.is_concrete():
            raise Unsupported('concrete view of a symbolic list')
        return [n.elem for n in self.nodes]

    def as_seq(self) -> Seq:
        return Seq(self.nodes, label='mlist')

    def leaves(self):
        return self.as_seq().leaves()

    def nonempty(self):
        if self.is_concrete():
            return len(self.nodes) > 0
        return self.as_seq().nonempty()


class MDict(Sym):
    """dict created by interpreted code: concrete-key part + symbolic contributions (Seq of (k, v))."""

    def __init__(self, d: Optional[dict] = None):
        self.d: dict = d if d is not None else {}
        self.nodes: list = []      # symbolic contributions, elements are (key, value) tuples
        self.depth, self.pdepth = _depths()

    def __hash__(self):
        return id(self)

    def __repr__(self):
        return f'MDict<{list(self.d)[:6]}{" +sym" if self.nodes else ""}>'

    def is_concrete(self):
        return not self.nodes


class MSet(Sym):
    def __init__(self, items=None):
        self.items: list = list(items or [])     # concrete members (possibly symbolic scalars, by identity)
        self.nodes: list = []                    # symbolic contributions
        self.depth, self.pdepth = _depths()

    def __hash__(self):
        return id(self)

    def is_concrete(self):
        return not self.nodes and all(not is_sym(x) for x in self.items)

    def as_seq(self) -> Seq:
        return Seq([Lit(x) for x in self.items] + self.nodes, label='mset')


class AbstractFn(Sym):
    """A caller-supplied callable known only by contract: handler(interp, args, kwargs, node)."""

    def __init__(self, name, handler):
        self.name = name
        self.handler = handler

    def __repr__(self):
        return f'AbstractFn<{self.name}>'


def _c_normalize_space(it, args, kwargs, node):
    """wn.lmf._normalize_space(text): white-space normalisation of element text = the uninterpreted function
    str_wsnorm of the argument (the same symbol ' '.join(s.split()) is mapped to); its definition - XML white space
    only - is checked by a bounded stand-in in C20."""
    from vc.pyvc import builtins_sym as _B
    x = args[0]
    if isinstance(x, str):
        from vc.pyvc.values import lift as _lift
        x = _lift(x, 'str')
    if not isinstance(x, SV):
        raise Unsupported('_normalize_space of a non-string value')
    return SV('str', _B.uf('str_wsnorm', _B.UStr, _B.UStr)(x.z))


DEFAULT_CONTRACTS = {'wn.lmf._normalize_space': _c_normalize_space}

INTERPRETED: set = set()      # qualified names of the real functions executed symbolically in this process


class Closure:
    def __init__(self, node, env: 'Env', globs: dict, name: str, defaults=(), kw_defaults=None, qual=''):
        self.node = node
        self.env = env
        self.globs = globs
        self.name = name
        self.defaults = defaults
        self.kw_defaults = kw_defaults or {}
        self.qualname = qual or name
        self.is_generator = any(isinstance(n, (ast.Yield, ast.YieldFrom)) for n in _walk_no_nested(node))

    def __repr__(self):
        return f'Closure<{self.qualname}>'


class BoundMethod:
    def __init__(self, func, self_obj):
        self.func = func
        self.self_obj = self_obj


def _walk_in_order(node):
    """Nodes in evaluation order (values before targets for assignments)."""
    if isinstance(node, ast.Assign):
        yield from _walk_in_order(node.value)
        for t in node.targets:
            yield from _walk_in_order(t)
        return
    if isinstance(node, ast.AugAssign):
        yield ast.Name(id=getattr(node.target, 'id', ''), ctx=ast.Load())
        yield from _walk_in_order(node.value)
        return
    if isinstance(node, (ast.ListComp, ast.SetComp, ast.GeneratorExp, ast.DictComp)):
        for g in node.generators:
            yield from _walk_in_order(g.iter)
        return
    yield node
    for c in ast.iter_child_nodes(node):
        yield from _walk_in_order(c)


def _walk_no_nested(fnode):
    """ast.walk over a function body without descending into nested function definitions."""
    body = fnode.body if isinstance(fnode.body, list) else [fnode.body]
    stack = list(body)
    while stack:
        n = stack.pop()
        yield n
        for c in ast.iter_child_nodes(n):
            if isinstance(c, (ast.FunctionDef, ast.AsyncFunctionDef, ast.Lambda)):
                continue
            stack.append(c)


class Env:
    def __init__(self, parent: Optional['Env'] = None, globs: Optional[dict] = None):
        self.vars: dict = {}
        self.parent = parent
        self.globs = globs if globs is not None else (parent.globs if parent else {})

    def lookup(self, name: str):
        e = self
        while e is not None:
            if name in e.vars:
                return e.vars[name]
            e = e.parent
        if name in self.globs:
            return self.globs[name]
        if hasattr(builtins, name):
            return getattr(builtins, name)
        raise PyRaise(NameError, (name,))

    def has_local(self, name):
        return name in self.vars


@dataclass
class Event:
    kind: str                 # execute | executemany | executescript | commit | rollback | enter_txn | exit_txn | call
    sql: Any = None           # str or SqlText
    params: Any = None
    obj: Any = None
    guard: Any = True         # predicate (generic context) under which the event happens
    binders: list = field(default_factory=list)
    node: Any = None
    extra: dict = field(default_factory=dict)
    pc_len: int = 0
    loops: list = field(default_factory=list)   # Loop nodes of the active generic frames


@dataclass
class GenericFrame:
    binders: list
    guard: Any
    active: Any = True
    assigned_outer: dict = field(default_factory=dict)   # name -> list[(cond, value)]
    loop_ident: Any = None


@dataclass
class Outcome:
    kind: str                 # 'return' | 'raise'
    value: Any = None
    exc: Optional[PyRaise] = None
    pc: list = field(default_factory=list)
    effects: list = field(default_factory=list)
    safety: list = field(default_factory=list)     # (name, cond_assumptions, goal, node)
    may_raise: list = field(default_factory=list)  # (exc_type, assumptions, node, what)
    decisions: list = field(default_factory=list)
    env: Any = None
    notes: list = field(default_factory=list)


class Ctx:
    def __init__(self, prefix=()):
        self.prefix = list(prefix)
        self.decisions: list[bool] = []
        self.alternatives: list[list[bool]] = []
        self.pc: list = []
        self.generic: list[GenericFrame] = []
        self.preds: list = []          # predicate stack (z3) inside generic mode
        self.effects: list[Event] = []
        self.safety: list = []
        self.may_raise: list = []
        self.notes: list = []
        self.solver_timeout = 3000
        self.branch_count = 0

    # -- path conditions ----------------------------------------------------------------------
    def assumptions(self) -> list:
        out = list(self.pc)
        for g in self.generic:
            out.extend(b.constraint for b in g.binders)
            if g.guard is not True:
                out.append(z_bool(g.guard))
            if g.active is not True:
                out.append(z_bool(g.active))
        out.extend(z_bool(p) for p in self.preds)
        return out

    def current_guard(self):
        gs = []
        for g in self.generic:
            gs.append(g.guard)
            gs.append(g.active)
        gs.extend(self.preds)
        return z_and(*gs)

    def all_binders(self) -> list:
        out = []
        for g in self.generic:
            out.extend(g.binders)
        return out

    def feasible(self, cond) -> bool:
        s = z3.Solver()
        s.set('timeout', self.solver_timeout)
        for a in self.assumptions():
            s.add(a)
        for a in LITS.axioms():
            s.add(a)
        s.add(cond)
        return s.check() != z3.unsat

    def assume(self, cond):
        if cond is True:
            return
        if cond is False:
            raise PathEnd()
        self.pc.append(cond)

    def branch(self, cond, raising: bool = False) -> bool:
        """Top-level fork on a z3 Bool. Returns the side taken on this run.
        Under a predicate stack outside generic mode (predicated simple ifs), the decision is relative to the
        predicate g: the sides are  g => cond  and  g => not cond  (`raising`: the false side is  g and not cond,
        the states in which the exception really happens)."""
        if isinstance(cond, bool):
            return cond
        cond = z3.simplify(cond)
        if z3.is_true(cond):
            return True
        if z3.is_false(cond):
            return False
        g = z_and(*self.preds) if (self.preds and not self.generic) else True
        pos = len(self.decisions)
        if pos < len(self.prefix):
            take = self.prefix[pos]
        else:
            t_ok = self.feasible(cond)
            f_ok = self.feasible(z3.Not(cond))
            if t_ok and f_ok:
                take = True
                self.alternatives.append(self.decisions + [False])
            elif t_ok:
                take = True
            elif f_ok:
                take = False
            else:
                raise PathEnd()
        self.decisions.append(take)
        if g is True:
            c = cond if take else z3.Not(cond)
            if not any(c.eq(p) for p in self.pc[-40:] if z3.is_expr(p)):
                self.pc.append(c)
        elif take:
            self.pc.append(z3.Implies(z_bool(g), cond))
        elif raising:
            self.pc.append(z3.And(z_bool(g), z3.Not(cond)))
        else:
            self.pc.append(z3.Implies(z_bool(g), z3.Not(cond)))
        return take


# ---------------------------------------------------------------------------------------------

_AST_CACHE: dict = {}


def function_ast(fn) -> ast.FunctionDef:
    code = fn.__code__
    if code not in _AST_CACHE:
        src = textwrap.dedent(inspect.getsource(fn))
        tree = ast.parse(src)
        node = tree.body[0]
        # decorated functions (contextmanager, property, classmethod): take the def itself
        _AST_CACHE[code] = node
    return _AST_CACHE[code]


def source_span(fn, node=None) -> str:
    try:
        f = inspect.getsourcefile(fn)
        _, start = inspect.getsourcelines(fn)
        if node is not None and hasattr(node, 'lineno'):
            return f'{f}:{start + node.lineno - 1}'
        return f'{f}:{start}'
    except Exception:
        return ''


class Interp:
    """One interpreter per path (ctx)."""

    def __init__(self, ctx: Ctx, contracts: Optional[dict] = None, packages=('wn',),
                 no_inline: Optional[set] = None, options: Optional[dict] = None):
        self.ctx = ctx
        self.options = options or {}
        self.contracts = contracts or {}     # key: function object or qualified name -> handler
        self.packages = packages
        self.no_inline = no_inline or set()
        self.call_depth = 0
        self.fn_stack: list = []

    # ======================================================================================
    # calls
    # ======================================================================================
    def qualname(self, f) -> str:
        mod = getattr(f, '__module__', '') or ''
        qn = getattr(f, '__qualname__', getattr(f, '__name__', repr(f)))
        return f'{mod}.{qn}'

    def find_contract(self, f):
        try:
            if f in self.contracts:
                return self.contracts[f]
        except TypeError:
            pass
        if isinstance(f, (types.FunctionType, types.BuiltinFunctionType, type, types.MethodType)) or \
                hasattr(f, '__qualname__'):
            qn = self.qualname(f)
            if qn in self.contracts:
                return self.contracts[qn]
            if qn in DEFAULT_CONTRACTS:
                return DEFAULT_CONTRACTS[qn]
        return None

    def call(self, f, args: list, kwargs: dict, node=None):
        ctx = self.ctx
        if isinstance(f, BoundMethod):
            return self.call(f.func, [f.self_obj] + list(args), kwargs, node)
        from vc.pyvc.builtins_sym import _WithClass
        if isinstance(f, _WithClass):
            h = self.find_contract(f.fn)
            if h is not None:
                return h(self, args, kwargs, node)
            return self.call_function(f.fn, args, kwargs, defining_class=f.cls)
        h = self.find_contract(f)
        if h is not None:
            return h(self, args, kwargs, node)
        if isinstance(f, AbstractFn):
            return f.handler(self, args, kwargs, node)
        if isinstance(f, Closure):
            return self.call_closure(f, args, kwargs)
        if isinstance(f, types.MethodType):
            return self.call(f.__func__, [f.__self__] + list(args), kwargs, node)
        if isinstance(f, SymMethod):
            return f(self, args, kwargs, node)
        if isinstance(f, types.FunctionType):
            mod = f.__module__ or ''
            if any(mod == p or mod.startswith(p + '.') for p in self.packages) \
                    and self.qualname(f) not in self.no_inline:
                return self.call_function(f, args, kwargs)
        if f is typing.cast:
            return args[1]
        if f is int.__new__ or f is str.__new__:
            # value subclasses (wn.Form, wn.Count): object carrying the value + attributes
            return SObj(args[0], {'__value__': args[1] if len(args) > 1 else None})
        # classes of the package: symbolic instantiation
        if isinstance(f, type):
            mod = getattr(f, '__module__', '') or ''
            if issubclass(f, BaseException):
                return ExcValue(f, tuple(args))
            if any(mod == p or mod.startswith(p + '.') for p in self.packages):
                return self.instantiate(f, args, kwargs, node)
        from vc.pyvc import builtins_sym
        # concrete (frozen)set of single characters .isdisjoint(symbolic string): no character of the set occurs in it
        if isinstance(f, types.BuiltinFunctionType) and isinstance(getattr(f, '__self__', None), (set, frozenset)) \
                and f.__name__ == 'isdisjoint' and len(args) == 1 and isinstance(args[0], SV) \
                and args[0].kind in ('str', 'zstr') and all(isinstance(c, str) and len(c) == 1 for c in f.__self__):
            hits = [z_bool(builtins_sym.contains(self, args[0], c, node)) for c in sorted(f.__self__)]
            return SV('bool', z3.Not(z3.Or(*hits)) if hits else z3.BoolVal(True))
        # methods of concrete str / bytes with symbolic arguments
        if isinstance(f, types.BuiltinFunctionType) and isinstance(getattr(f, '__self__', None), (str, bytes)) \
                and (any(contains_sym(a) for a in args)):
            return builtins_sym.concrete_str_method(self, f.__self__, f.__name__, args, kwargs, node)
        try:
            always = f in builtins_sym.ALWAYS
        except TypeError:
            always = False
        if always and (any(isinstance(a, Sym) for a in args) or any(isinstance(a, Sym) for a in kwargs.values())):
            return builtins_sym.lookup(f)(self, args, kwargs, node)
        # native call when everything is concrete
        if not any(contains_sym(a) for a in args) and not any(contains_sym(v) for v in kwargs.values()):
            nat_args = [to_native(a) for a in args]
            nat_kwargs = {k: to_native(v) for k, v in kwargs.items()}
            try:
                res = f(*nat_args, **nat_kwargs)
            except Unsupported:
                raise
            except Exception as exc:   # native exception becomes a program exception
                raise PyRaise(type(exc), exc.args, node) from None
            return from_native(res)
        from vc.pyvc import builtins_sym
        h = builtins_sym.lookup(f)
        if h is not None:
            return h(self, args, kwargs, node)
        raise Unsupported(f'call of {self.qualname(f) if hasattr(f, "__name__") else f!r} with symbolic arguments')

    def instantiate(self, cls, args, kwargs, node=None):
        if issubclass(cls, str) or issubclass(cls, int):
            # Form(str), Count(int): value subclasses with attributes -> SObj carrying 'value'
            obj = SObj(cls)
            new = cls.__dict__.get('__new__')
            if new is not None and isinstance(new, (staticmethod, types.FunctionType)):
                fn = new.__func__ if isinstance(new, staticmethod) else new
                # interpret __new__ with str.__new__/int.__new__ mapped to the SObj constructor
                saved = self.contracts.get('__value_new__')
                self.contracts['__value_new__'] = obj
                try:
                    res = self.call_function(fn, [cls] + list(args), kwargs)
                finally:
                    if saved is None:
                        self.contracts.pop('__value_new__', None)
                    else:
                        self.contracts['__value_new__'] = saved
                return res
            raise Unsupported(f'instantiate value class {cls.__name__}')
        obj = SObj(cls)
        init = None
        for k in cls.__mro__:
            if '__init__' in k.__dict__:
                init = k.__dict__['__init__']
                break
        if init is not None and isinstance(init, types.FunctionType):
            self.call_function(init, [obj] + list(args), kwargs, defining_class=_defining_class(cls, '__init__'))
        return obj

    def bind_args(self, fnode, defaults, kw_defaults, args, kwargs, fname='f'):
        a = fnode.args
        params = [p.arg for p in a.posonlyargs + a.args]
        bound = {}
        args = list(args)
        for i, name in enumerate(params):
            if i < len(args):
                bound[name] = args[i]
        extra = args[len(params):]
        if a.vararg:
            bound[a.vararg.arg] = tuple(extra)
        elif extra:
            raise PyRaise(TypeError, (f'{fname}() takes {len(params)} positional arguments',))
        kwextra = {}
        kwonly = [p.arg for p in a.kwonlyargs]
        for k, v in kwargs.items():
            if k in params or k in kwonly:
                if k in bound:
                    raise PyRaise(TypeError, (f'{fname}() got multiple values for argument {k}',))
                bound[k] = v
            elif a.kwarg:
                kwextra[k] = v
            else:
                raise PyRaise(TypeError, (f'{fname}() got an unexpected keyword argument {k!r}',))
        if a.kwarg:
            bound[a.kwarg.arg] = MDict(kwextra)
        nd = len(defaults)
        for i, name in enumerate(params):
            if name not in bound:
                j = i - (len(params) - nd)
                if j >= 0:
                    bound[name] = defaults[j]
                else:
                    raise PyRaise(TypeError, (f'{fname}() missing argument {name}',))
        for name in kwonly:
            if name not in bound:
                if name in kw_defaults:
                    bound[name] = kw_defaults[name]
                else:
                    raise PyRaise(TypeError, (f'{fname}() missing keyword argument {name}',))
        return bound

    def call_function(self, fn: types.FunctionType, args, kwargs, defining_class=None):
        fnode = function_ast(fn)
        defaults = [from_native(d) for d in (fn.__defaults__ or ())]
        kw_defaults = {k: from_native(v) for k, v in (fn.__kwdefaults__ or {}).items()}
        env = Env(None, fn.__globals__)
        # module-level names replaced by symbolic stand-ins for this exploration: {(module, name): value}
        for (gmod, gname), gval in (self.options.get('global_overrides') or {}).items():
            if gmod == fn.__module__:
                env.vars[gname] = gval
        if fn.__closure__:
            for name, cell in zip(fn.__code__.co_freevars, fn.__closure__):
                try:
                    env.vars[name] = from_native(cell.cell_contents)
                except ValueError:
                    pass
        if defining_class is None:
            defining_class = _class_of_function(fn)
        clo = Closure(fnode, env, fn.__globals__, fn.__name__, defaults, kw_defaults,
                      qual=self.qualname(fn))
        clo.defining_class = defining_class
        clo.real = fn
        return self.call_closure(clo, args, kwargs)

    def call_closure(self, clo: Closure, args, kwargs):
        if self.call_depth > 60:
            raise Unsupported(f'recursion depth exceeded in {clo.qualname}')
        bound = self.bind_args(clo.node, clo.defaults, clo.kw_defaults, args, kwargs, clo.name)
        env = Env(clo.env, clo.globs)
        env.vars.update(bound)
        env.vars['__class_cell__'] = getattr(clo, 'defining_class', None)
        if bound:
            first = next(iter(bound))
            env.vars['__self_cell__'] = bound[first]
        self.call_depth += 1
        self.fn_stack.append(clo)
        if getattr(clo, 'real', None) is not None and str(clo.qualname).startswith('wn.'):
            INTERPRETED.add(clo.qualname)       # evidence: real functions whose bodies were symbolically executed
        try:
            if isinstance(clo.node, ast.Lambda):
                return self.eval(clo.node.body, env)
            if clo.is_generator:
                out = MList()
                env.vars['__yield__'] = out
                try:
                    self.exec_block(clo.node.body, env)
                except _Return:
                    pass
                return out
            try:
                self.exec_block(clo.node.body, env)
            except _Return as r:
                return r.value
            return None
        finally:
            self.fn_stack.pop()
            self.call_depth -= 1

    # ======================================================================================
    # statements
    # ======================================================================================
    def exec_block(self, stmts, env):
        for s in stmts:
            self.exec_stmt(s, env)

    def in_generic(self) -> bool:
        return bool(self.ctx.generic)

    def exec_stmt(self, node, env):
        ctx = self.ctx
        m = getattr(self, 'stmt_' + type(node).__name__, None)
        if m is None:
            raise Unsupported(f'statement {type(node).__name__} (line {getattr(node, "lineno", "?")})')
        return m(node, env)

    def stmt_Expr(self, node, env):
        if isinstance(node.value, ast.Constant):
            return    # docstring
        v = node.value
        if isinstance(v, ast.Call) and isinstance(v.func, ast.Attribute) and \
                isinstance(v.func.value, ast.Name) and v.func.value.id in ('log', 'logger', 'logging') and \
                v.func.attr in ('info', 'debug', 'warning', 'error'):
            return    # logging calls are dropped (stated in DESIGN §2.1)
        self.eval(node.value, env)

    def stmt_Pass(self, node, env):
        return

    def stmt_Return(self, node, env):
        if self.in_generic_local(env):
            raise Unsupported('return inside a generic iteration')
        raise _Return(self.eval(node.value, env) if node.value is not None else None)

    def in_generic_local(self, env) -> bool:
        # generic frames opened by the *current* function invocation
        return bool(self.ctx.generic) and getattr(self.ctx.generic[-1], 'owner_depth', -1) == self.call_depth

    def stmt_Assign(self, node, env):
        val = self.eval(node.value, env)
        for t in node.targets:
            self.assign(t, val, env)

    def stmt_AnnAssign(self, node, env):
        if node.value is not None:
            self.assign(node.target, self.eval(node.value, env), env)

    def stmt_AugAssign(self, node, env):
        tgt = node.target
        if isinstance(tgt, ast.Name):
            cur = env.lookup(tgt.id)
        elif isinstance(tgt, ast.Subscript):
            obj = self.eval(tgt.value, env)
            idx = self.eval_index(tgt.slice, env)
            cur = self.getitem(obj, idx, tgt)
        elif isinstance(tgt, ast.Attribute):
            obj = self.eval(tgt.value, env)
            cur = self.getattr(obj, tgt.attr, tgt)
        else:
            raise Unsupported('augmented assignment target')
        rhs = self.eval(node.value, env)
        # in-place list extension
        if isinstance(node.op, ast.Add) and isinstance(cur, MList):
            self.list_extend(cur, rhs)
            return
        if isinstance(node.op, ast.BitOr) and isinstance(cur, MSet):
            self.set_update(cur, rhs)
            return
        new = self.binop(node.op, cur, rhs, node)
        if isinstance(tgt, ast.Name):
            self.assign(tgt, new, env)
        elif isinstance(tgt, ast.Subscript):
            self.setitem(obj, idx, new, tgt)
        else:
            self.setattr(obj, tgt.attr, new, tgt)

    def assign(self, target, val, env, local: bool = False):
        """local: the target is bound in its own scope (comprehension variable), never an outer variable."""
        ctx = self.ctx
        if isinstance(target, ast.Name):
            name = target.id
            if local:
                env.vars[name] = val
                return
            if self.in_generic_local(env):
                frame = ctx.generic[-1]
                if name in frame.outer_names and not frame.is_local(name):
                    if name in frame.shadowed or (self._assigned_first(frame, name)
                                                  and not self._read_after_loop(frame, name)):
                        # the body assigns the name before reading it: a loop-local rebinding
                        frame.shadowed.add(name)
                        env.vars[name] = val
                        return
                    # assignment to a variable that lives outside the generic loop: fold
                    g = self.local_guard(frame)
                    frame.assigned_outer.setdefault(name, []).append((g, val))
                    return
            env.vars[name] = val
            return
        if isinstance(target, (ast.Tuple, ast.List)):
            vals = self.unpack(val, target, env)
            for t, v in zip(target.elts, vals):
                if isinstance(t, ast.Starred):
                    self.assign(t.value, v, env, local)
                else:
                    self.assign(t, v, env, local)
            return
        if isinstance(target, ast.Subscript):
            obj = self.eval(target.value, env)
            idx = self.eval_index(target.slice, env)
            self.setitem(obj, idx, val, target)
            return
        if isinstance(target, ast.Attribute):
            obj = self.eval(target.value, env)
            self.setattr(obj, target.attr, val, target)
            return
        raise Unsupported(f'assignment target {type(target).__name__}')

    def _assigned_first(self, frame, name) -> bool:
        body = getattr(frame, 'body_ast', None)
        if not body:
            return False
        for stmt in body:
            for n in _walk_in_order(stmt):
                if isinstance(n, ast.Name) and n.id == name:
                    return isinstance(n.ctx, ast.Store)
        return False

    def _read_after_loop(self, frame, name) -> bool:
        """Is the variable read after the loop in the enclosing function (then the loop's assignment is a fold, not a
        loop-local rebinding)?"""
        loop = getattr(frame, 'loop_ast', None)
        if loop is None or not self.fn_stack:
            return False        # loop statement unknown (iteration helper): assigned-first means loop-local
        end = getattr(loop, 'end_lineno', None)
        fnode = self.fn_stack[-1].node
        if end is None:
            return True
        for n in ast.walk(fnode):
            if isinstance(n, ast.Name) and n.id == name and isinstance(n.ctx, ast.Load) and n.lineno > end:
                return True
        return False

    def unpack(self, val, target, env):
        n = len(target.elts)
        star = [i for i, t in enumerate(target.elts) if isinstance(t, ast.Starred)]
        if isinstance(val, MList):
            if not val.is_concrete():
                return self.unpack_symbolic(val, target)
            items = val.items()
        elif isinstance(val, (tuple, list)):
            items = list(val)
        elif isinstance(val, SeqBase):
            return self.unpack_symbolic(val, target)
        else:
            raise Unsupported(f'unpacking of {type(val).__name__}')
        if star:
            i = star[0]
            after = n - i - 1
            if len(items) < n - 1:
                raise PyRaise(ValueError, ('not enough values to unpack',))
            mid = items[i:len(items) - after]
            return items[:i] + [MList(mid)] + items[len(items) - after:]
        if len(items) != n:
            raise PyRaise(ValueError, (f'expected {n} values to unpack, got {len(items)}',))
        return items

    def unpack_symbolic(self, val, target):
        raise Unsupported('unpacking a symbolic-length sequence')

    def stmt_If(self, node, env):
        ctx = self.ctx
        cond = self.truth(self.eval(node.test, env))
        if isinstance(cond, bool):
            return self.exec_block(node.body if cond else node.orelse, env)
        if not self.ctx.generic:
            if self.options.get('predicate_simple_ifs') and not node.orelse and _simple_store_block(node.body):
                return self.exec_predicated(cond, node.body, node.orelse, env)
            if self.fn_stack and self.fn_stack[-1].name in self.options.get('predicate_all_ifs_in', ()):
                return self.exec_predicated(cond, node.body, node.orelse, env)
            take = ctx.branch(cond)
            return self.exec_block(node.body if take else node.orelse, env)
        # predicated execution inside a generic iteration
        self.exec_predicated(cond, node.body, node.orelse, env)

    def exec_predicated(self, cond, body, orelse, env):
        ctx = self.ctx
        cond = z3.simplify(cond)
        if z3.is_true(cond):
            return self.exec_block(body, env)
        if z3.is_false(cond):
            return self.exec_block(orelse, env)
        frame = ctx.generic[-1] if ctx.generic else None
        before = dict(env.vars)
        results = []
        for c, blk in ((cond, body), (z3.Not(cond), orelse)):
            env.vars = dict(before)
            ctx.preds.append(c)
            try:
                if blk and ctx.feasible(z3.BoolVal(True)):
                    try:
                        self.exec_block(blk, env)
                    except _Continue:
                        if frame is None:
                            raise
                        frame.active = z_and(frame.active, z_not(z_and(*ctx.preds[frame.pred_base:])))
            finally:
                ctx.preds.pop()
            results.append(env.vars)
        tvars, fvars = results
        merged = dict(before)
        for name in set(tvars) | set(fvars):
            a = tvars.get(name, before.get(name, _MISSING))
            b = fvars.get(name, before.get(name, _MISSING))
            if a is b:
                merged[name] = a
                continue
            if a is _MISSING or b is _MISSING:
                merged[name] = a if b is _MISSING else b    # defined on one side only (use is guarded by program logic)
                continue
            if isinstance(a, _LoopLocal) or isinstance(b, _LoopLocal):
                merged[name] = a if isinstance(a, _LoopLocal) else b   # any later use is rejected
                continue
            try:
                merged[name] = ite(cond, a, b)
            except Unsupported:
                merged[name] = _Unmergeable(name, cond, a, b)
        env.vars = merged

    def stmt_Continue(self, node, env):
        raise _Continue()

    def stmt_Break(self, node, env):
        if self.in_generic_local(env):
            raise Unsupported('break inside a generic iteration')
        raise _Break()

    def stmt_Raise(self, node, env):
        if node.exc is None:
            cur = env.lookup('__active_exc__')
            raise cur
        exc = self.eval(node.exc, env)
        cause = self.eval(node.cause, env) if node.cause is not None else None
        if isinstance(exc, type) and issubclass(exc, BaseException):
            exc = ExcValue(exc, ())
        if isinstance(exc, PyRaise):
            raise exc
        if not isinstance(exc, ExcValue):
            raise Unsupported('raise of a non-exception value')
        if self.ctx.generic:
            # conditional raise inside a generic iteration: recorded as "may raise" with its condition
            self.ctx.may_raise.append((exc.cls, self.ctx.assumptions(), node, 'raise', list(self.ctx.all_binders())))
            # continue under the assumption that it did not happen in this iteration
            frame = self.ctx.generic[-1]
            frame.active = z_and(frame.active, z_not(z_and(*self.ctx.preds[frame.pred_base:])))
            frame.abort = z_and(getattr(frame, 'abort', True), z_not(z_and(*self.ctx.preds[frame.pred_base:])))
            raise _Continue()
        raise PyRaise(exc.cls, exc.args, node, cause)

    def stmt_Assert(self, node, env):
        cond = self.truth(self.eval(node.test, env))
        if isinstance(cond, bool):
            if cond:
                return
            if not self.ctx.generic:
                raise PyRaise(AssertionError, (), node)
            # certainly false, but inside a generic iteration: it only fails if the iteration happens at all
            cond = z3.BoolVal(False)
        if self.ctx.generic:
            self.ctx.may_raise.append((AssertionError, self.ctx.assumptions() + [z3.Not(cond)], node, 'assert',
                                       list(self.ctx.all_binders())))
            frame = self.ctx.generic[-1]
            frame.active = z_and(frame.active, cond)
            frame.abort = z_and(getattr(frame, 'abort', True), cond)
            return
        if not self.ctx.branch(cond):
            raise PyRaise(AssertionError, (), node)

    def stmt_FunctionDef(self, node, env):
        defaults = [self.eval(d, env) for d in node.args.defaults]
        kwd = {a.arg: self.eval(d, env) for a, d in zip(node.args.kwonlyargs, node.args.kw_defaults)
               if d is not None}
        clo = Closure(node, env, env.globs, node.name, defaults, kwd,
                      qual=(self.fn_stack[-1].qualname + '.<locals>.' + node.name) if self.fn_stack else node.name)
        f: Any = clo
        for dec in reversed(node.decorator_list):
            d = self.eval(dec, env)
            f = self.call(d, [f], {})
        env.vars[node.name] = f

    def stmt_Global(self, node, env):
        raise Unsupported('global statement')

    def stmt_Nonlocal(self, node, env):
        raise Unsupported('nonlocal statement')

    def stmt_Import(self, node, env):
        import importlib
        for a in node.names:
            mod = importlib.import_module(a.name)
            env.vars[a.asname or a.name.split('.')[0]] = mod if a.asname else importlib.import_module(a.name.split('.')[0])

    def stmt_ImportFrom(self, node, env):
        import importlib
        mod = importlib.import_module(node.module)
        for a in node.names:
            env.vars[a.asname or a.name] = getattr(mod, a.name)

    def stmt_Delete(self, node, env):
        for t in node.targets:
            if isinstance(t, ast.Name):
                env.vars.pop(t.id, None)
            else:
                raise Unsupported('del of non-name')

    def stmt_Try(self, node, env):
        try:
            try:
                self.exec_block(node.body, env)
            except PyRaise as exc:
                for h in node.handlers:
                    ht = self.eval(h.type, env) if h.type is not None else None
                    if isinstance(ht, (tuple, MList)):
                        ht = tuple(ht.items() if isinstance(ht, MList) else ht)
                    if exc.matches(ht):
                        if h.name:
                            env.vars[h.name] = ExcValue(exc.exc_type, exc.args_v)
                        env.vars['__active_exc__'] = exc
                        self.exec_block(h.body, env)
                        break
                else:
                    raise
            else:
                self.exec_block(node.orelse, env)
        finally:
            if node.finalbody:
                self.exec_block(node.finalbody, env)

    def stmt_With(self, node, env):
        entered = []
        try:
            for item in node.items:
                cm = self.eval(item.context_expr, env)
                val = self.cm_enter(cm, item)
                entered.append(cm)
                if item.optional_vars is not None:
                    self.assign(item.optional_vars, val, env)
            self.exec_block(node.body, env)
        except PyRaise as exc:
            suppressed = False
            for cm in reversed(entered):
                if self.cm_exit(cm, exc):
                    suppressed = True
            entered = []
            if not suppressed:
                raise
        except (_Return, _Break, _Continue):
            for cm in reversed(entered):
                self.cm_exit(cm, None)
            entered = []
            raise
        else:
            for cm in reversed(entered):
                self.cm_exit(cm, None)

    def cm_enter(self, cm, item):
        h = getattr(cm, '__vc_enter__', None)
        if h is not None:
            return h(self)
        raise Unsupported(f'context manager {cm!r}')

    def cm_exit(self, cm, exc):
        h = getattr(cm, '__vc_exit__', None)
        if h is not None:
            return h(self, exc)
        raise Unsupported(f'context manager {cm!r}')

    def stmt_While(self, node, env):
        # only concrete-condition loops are executed; symbolic worklists need invariants (separate VCs)
        n = 0
        while True:
            cond = self.truth(self.eval(node.test, env))
            if not isinstance(cond, bool):
                if self.ctx.generic:
                    raise Unsupported('while with symbolic condition inside a generic iteration')
                cond = self.ctx.branch(cond)
            if not cond:
                break
            n += 1
            if n > 2000:
                raise Unsupported('while loop did not terminate within 2000 concrete iterations')
            try:
                self.exec_block(node.body, env)
            except _Break:
                return
            except _Continue:
                continue
        self.exec_block(node.orelse, env)

    def stmt_For(self, node, env):
        it = self.eval(node.iter, env)
        self.for_each(it, node.target, node.body, env, node.orelse, node)

    # ======================================================================================
    # iteration
    # ======================================================================================
    def concrete_items(self, it):
        """Return a Python list of items if `it` has concrete structure, else None."""
        from vc.pyvc.values import SRec as _SRec
        if isinstance(it, _SRec) and getattr(it, 'owned', False):
            # a dict built by the interpreted code: iteration yields its keys (conditional keys keep their guard)
            from vc.pyvc import builtins_sym as _B
            it = _B.rec_keys(self, it, [], {}, None)
        if isinstance(it, MList):
            return it.items() if it.is_concrete() else None
        if isinstance(it, (list, tuple)):
            return list(it)
        if isinstance(it, (str, bytes)):
            return list(it)
        if isinstance(it, dict):
            return list(it)
        if isinstance(it, MDict):
            return list(it.d) if it.is_concrete() else None
        if isinstance(it, MSet):
            return list(it.items) if it.is_concrete() or not it.nodes else None
        if isinstance(it, (set, frozenset)):
            return sorted(it, key=repr)   # deterministic exploration order; semantics: any order (see C16)
        if isinstance(it, (range, types.GeneratorType, map, filter, zip, enumerate, reversed)) or \
                hasattr(it, '__next__'):
            return list(it)
        if isinstance(it, (type({}.items()), type({}.keys()), type({}.values()))):
            return [from_native(x) if isinstance(x, tuple) else x for x in it]
        if isinstance(it, ConcreteIter):
            return it.rest()
        if isinstance(it, DictView):
            return it.concrete()
        return None

    def to_seq(self, it) -> Seq:
        from vc.pyvc.values import SRec as _SRec
        if isinstance(it, _SRec) and getattr(it, 'owned', False):
            from vc.pyvc import builtins_sym as _B
            it = _B.rec_keys(self, it, [], {}, None)
        if isinstance(it, Seq):
            return it
        if isinstance(it, SList):
            return it.as_seq()
        if isinstance(it, MList):
            return it.as_seq()
        if isinstance(it, SChunk):
            s = self.to_seq(it.src)
            return s
        if isinstance(it, MSet):
            s = it.as_seq()
            mark_unordered(s)
            return s
        if isinstance(it, SSet):
            s = Seq(list(it.seq.nodes), label='set')
            return s
        if isinstance(it, SSorted):
            return Seq(list(it.seq.nodes), label='sorted')
        if isinstance(it, DictView):
            return it.as_seq(self)
        if isinstance(it, (MDict, SMap)):
            return DictView(it, 'keys').as_seq(self)
        if hasattr(it, 'as_seq') and isinstance(it, SeqBase):
            return it.as_seq()
        if isinstance(it, SBatched):
            raise Unsupported('direct iteration of batches is handled in for_each')
        items = self.concrete_items(it)
        if items is not None:
            return Seq([Lit(x) for x in items])
        raise Unsupported(f'iteration over {type(it).__name__}')

    def for_each(self, it, target, body, env, orelse=(), node=None):
        if isinstance(it, SBatched):
            # chunk homomorphism (see DESIGN): the body runs once on a generic chunk
            self.assign(target, SChunk(it.src), env)
            try:
                self.exec_block(body, env)
            except (_Break, _Continue):
                pass
            return
        items = self.concrete_items(it)
        if items is not None:
            frame = self.ctx.generic[-1] if self.ctx.generic else None
            for x in items:
                self.assign(target, x, env)
                saved = frame.active if frame is not None else None
                try:
                    self.exec_block(body, env)
                except _Break:
                    return
                except _Continue:
                    continue
                finally:
                    if frame is not None and self.ctx.generic and self.ctx.generic[-1] is frame:
                        # a `continue` taken under a predicated branch skips the rest of THIS iteration of the
                        # unrolled loop only; deactivations by conditional raises / assertions persist
                        frame.active = z_and(saved, getattr(frame, 'abort', True))
            self.exec_block(list(orelse), env)
            return
        if self.options.get('record_dicts') and not self.ctx.generic and isinstance(it, MList) and \
                all(isinstance(n, Lit) and not contains_sym(n.elem) for n in it.nodes):
            # keys of a record with conditional keys: the body runs per key under the key's presence condition
            for n in list(it.nodes):
                self.assign(target, n.elem, env)
                if n.guard is True:
                    self.exec_block(body, env)
                    continue
                self.ctx.preds.append(z_bool(n.guard))
                try:
                    if self.ctx.feasible(z3.BoolVal(True)):
                        self.exec_block(body, env)
                finally:
                    self.ctx.preds.pop()
            self.exec_block(list(orelse), env)
            return
        seq = self.to_seq(it)
        if self._dedup_idiom(seq, target, body, env):
            self.exec_block(list(orelse), env)
            return
        saved_body = getattr(self, '_cur_loop_body', None)
        saved_node = getattr(self, '_cur_loop_node', None)
        self._cur_loop_body = ([ast.Assign(targets=[target], value=ast.Constant(value=None))] + list(body)
                               if isinstance(body, list) else None)
        self._cur_loop_node = node
        try:
            self.generic_loop(seq, lambda elem: self.assign(target, elem, env),
                              lambda: self.exec_block(body, env), env)
        finally:
            self._cur_loop_body = saved_body
            self._cur_loop_node = saved_node
        self.exec_block(list(orelse), env)

    def _dedup_idiom(self, seq, target, body, env) -> bool:
        """for x in xs:  if x not in seen:  out.append(x); seen.add(x)      (order-preserving de-duplication)
        Summarised as  out ++= dedup(xs), seen |= set(xs)  when both accumulators are empty before the loop
        (lemma A-DEDUP, cross-checked by bounded execution of the real loop in the C09 check)."""
        if not (isinstance(target, ast.Name) and len(body) == 1 and isinstance(body[0], ast.If)
                and not body[0].orelse):
            return False
        test = body[0].test
        x = target.id
        if not (isinstance(test, ast.Compare) and len(test.ops) == 1 and isinstance(test.ops[0], ast.NotIn)
                and isinstance(test.left, ast.Name) and test.left.id == x
                and isinstance(test.comparators[0], ast.Name)):
            return False
        seen_name = test.comparators[0].id
        stmts = body[0].body
        if len(stmts) != 2:
            return False
        calls = {}
        for st in stmts:
            if not (isinstance(st, ast.Expr) and isinstance(st.value, ast.Call)
                    and isinstance(st.value.func, ast.Attribute) and isinstance(st.value.func.value, ast.Name)
                    and len(st.value.args) == 1 and isinstance(st.value.args[0], ast.Name)
                    and st.value.args[0].id == x):
                return False
            calls[st.value.func.attr] = st.value.func.value.id
        if set(calls) != {'append', 'add'} or calls['add'] != seen_name:
            return False
        out = env.lookup(calls['append'])
        seen = env.lookup(seen_name)
        if not (isinstance(out, MList) and not out.nodes and isinstance(seen, MSet)
                and not seen.items and not seen.nodes):
            return False
        d = Seq(list(seq.nodes), distinct=True, label='dedup')
        out.nodes.extend(d.nodes)
        out.dedup = True
        seen.nodes.extend(seq.nodes)
        self.ctx.notes.append('A-DEDUP')
        return True

    def generic_loop(self, seq: Seq, bind, run_body, env):
        """Execute `run_body` once per leaf of seq with a generic element bound via `bind`."""
        ctx = self.ctx
        outer_names = set()
        e = env
        while e is not None:
            outer_names.update(k for k, v in e.vars.items() if not isinstance(v, _LoopLocal))
            e = e.parent
        for node in seq.nodes:
            self._generic_node(node, bind, run_body, env, outer_names)

    def _generic_node(self, node, bind, run_body, env, outer_names, chain=()):
        ctx = self.ctx
        if isinstance(node, Lit):
            # a single (possibly guarded) element: run the body under the guard (predicated if needed)
            if node.guard is True and not chain and not ctx.generic:
                bind(node.elem)
                try:
                    run_body()
                except _Continue:
                    pass
                return
            frame = GenericFrame([], node.guard)
            self._run_generic(frame, node.elem, bind, run_body, env, outer_names)
            return
        # Loop node
        frame = GenericFrame(list(node.binders), node.guard)
        frame.loop_node = node
        ctx.generic.append(_init_frame(frame, self, env, outer_names, open_only=True))
        try:
            for kid in node.kids:
                if isinstance(kid, Lit):
                    inner = GenericFrame([], kid.guard)
                    self._run_generic(inner, kid.elem, bind, run_body, env, outer_names)
                else:
                    self._generic_node(kid, bind, run_body, env, outer_names, chain + (node,))
        finally:
            ctx.generic.pop()
            self._fold_outer(frame, env)

    def _run_generic(self, frame, elem, bind, run_body, env, outer_names):
        ctx = self.ctx
        ctx.generic.append(_init_frame(frame, self, env, outer_names))
        try:
            if not ctx.feasible(z3.BoolVal(True)):
                return
            saved = dict(env.vars)
            bind(elem)
            try:
                run_body()
            except _Continue:
                pass
            # loop-local variables do not survive (Python would keep the last value; using them after a
            # symbolic loop is not supported) - restore names that existed before
            for k in list(env.vars):
                if k in frame.shadowed or any(k in g.shadowed for g in ctx.generic):
                    env.vars[k] = _LoopLocal(k)
                elif k in saved:
                    env.vars[k] = saved[k]
                else:
                    env.vars[k] = _LoopLocal(k)
        finally:
            ctx.generic.pop()
            self._fold_outer(frame, env)

    def local_guard(self, frame):
        ctx = self.ctx
        return z_and(frame.guard, frame.active, *ctx.preds[frame.pred_base:])

    def _fold_outer(self, frame, env):
        """Assignments to outer variables made inside a generic iteration: var = value if exists iteration."""
        if not frame.assigned_outer:
            return
        ctx = self.ctx
        for name, assigns in frame.assigned_outer.items():
            vals = [v for _, v in assigns]
            v0 = vals[0]
            for v in vals[1:]:
                same = (v is v0) or (not is_sym(v) and not is_sym(v0) and v == v0)
                if not same:
                    raise Unsupported(f'outer variable {name} assigned different values in a generic loop')
            if contains_binder(v0, [b.var for b in frame.binders]):
                raise Unsupported(f'outer variable {name} assigned an iteration-dependent value in a generic loop')
            conds = []
            for g, _ in assigns:
                body = z_and(*[b.constraint for b in frame.binders], g)
                vs = [b.var for b in frame.binders]
                conds.append(z3.Exists(vs, body) if vs else body)
            cond = z_or(*conds)
            if ctx.generic:
                outer = ctx.generic[-1]
                if name in outer.outer_names and not outer.is_local(name):
                    outer.assigned_outer.setdefault(name, []).append((z_and(self.local_guard(outer), cond), v0))
                    continue
            old = env.lookup(name)
            e = env
            while e is not None and name not in e.vars:
                e = e.parent
            (e or env).vars[name] = ite(cond, v0, old)

    # ======================================================================================
    # expressions
    # ======================================================================================
    def eval(self, node, env):
        m = getattr(self, 'expr_' + type(node).__name__, None)
        if m is None:
            raise Unsupported(f'expression {type(node).__name__} (line {getattr(node, "lineno", "?")})')
        return m(node, env)

    def truth(self, v):
        if z3.is_expr(v) and z3.is_bool(v):
            t = v
        else:
            t = truthy(v) if is_sym(v) else self._concrete_truth(v)
        if isinstance(t, bool):
            return t
        t = z3.simplify(t)
        if z3.is_true(t):
            return True
        if z3.is_false(t):
            return False
        return t

    def _concrete_truth(self, v):
        if isinstance(v, MList):
            return v.nonempty()
        if isinstance(v, MDict):
            if v.is_concrete():
                return bool(v.d)
            return True if v.d else Seq(v.nodes).nonempty()
        if isinstance(v, MSet):
            if not v.nodes:
                return bool(v.items)
            return True if v.items else Seq(v.nodes).nonempty()
        if isinstance(v, _LoopLocal):
            raise Unsupported(f'use of loop-local variable {v.name} after a symbolic loop')
        return bool(v)

    def expr_Constant(self, node, env):
        return node.value

    def expr_Name(self, node, env):
        v = env.lookup(node.id)
        if isinstance(v, _LoopLocal):
            raise Unsupported(f'use of loop-local variable {v.name} after a symbolic loop')
        return v

    def expr_Tuple(self, node, env):
        out = []
        for e in node.elts:
            if isinstance(e, ast.Starred):
                v = self.eval(e.value, env)
                items = self.concrete_items(v)
                if items is None:
                    return self._splat_tuple(node, env)
                out.extend(items)
            else:
                out.append(self.eval(e, env))
        return tuple(out)

    def _splat_tuple(self, node, env):
        """(a, *xs, *ys) with symbolic xs: a parameter sequence (used for SQL parameters)."""
        parts = []
        for e in node.elts:
            if isinstance(e, ast.Starred):
                parts.append(('splat', self.eval(e.value, env)))
            else:
                parts.append(('one', self.eval(e, env)))
        return ParamSeq(parts)

    def expr_List(self, node, env):
        t = self.expr_Tuple(node, env)
        if isinstance(t, ParamSeq):
            return t
        return MList(list(t))

    def expr_Set(self, node, env):
        return MSet([self.eval(e, env) for e in node.elts])

    def expr_Dict(self, node, env):
        if self.options.get('record_dicts') and all(
                isinstance(k, ast.Constant) and isinstance(k.value, str) for k in node.keys):
            # dict literal with constant string keys: a record (keys may later be added under a predicate)
            from vc.pyvc.values import SRec, Slot
            rec = SRec(f'dict@{node.lineno}')
            rec.owned = True
            for k, v in zip(node.keys, node.values):
                rec.slots[k.value] = Slot(True, self.eval(v, env))
            return rec
        d = MDict()
        for k, v in zip(node.keys, node.values):
            if k is None:
                src = self.eval(v, env)
                self.dict_update(d, src)
            else:
                self.setitem(d, self.eval(k, env), self.eval(v, env), node)
        return d

    def expr_JoinedStr(self, node, env):
        parts = []
        for v in node.values:
            if isinstance(v, ast.Constant):
                parts.append(v.value)
            else:
                val = self.eval(v.value, env)
                if v.conversion == 114 and not is_sym(val) and not contains_sym(val):
                    val = repr(to_native(val))
                elif v.conversion == 115 and not is_sym(val) and not contains_sym(val):
                    val = str(to_native(val))
                if v.format_spec is not None:
                    spec = self.eval(v.format_spec, env)
                    if is_sym(val) or contains_sym(val) or is_sym(spec):
                        val = opaque_str('fmt', [val])
                    else:
                        val = format(to_native(val), spec)
                parts.append(val)
        return self.concat_str(parts)

    def concat_str(self, parts):
        flat = []
        for p in parts:
            if isinstance(p, SqlText):
                flat.extend(p.parts)
            elif isinstance(p, str):
                flat.append(p)
            elif isinstance(p, SV) and p.kind == 'zstr' and all(
                    isinstance(q, str) or (isinstance(q, SV) and q.kind == 'zstr') for q in parts):
                zs = [z3.StringVal(q) if isinstance(q, str) else q.z for q in parts if not (isinstance(q, str) and q == '')]
                return SV('zstr', z3.Concat(*zs) if len(zs) > 1 else zs[0])
            elif isinstance(p, SV) or is_sym(p) or contains_sym(p):
                return opaque_str('fstr', parts)
            else:
                flat.append(str(to_native(p)) if not isinstance(p, (MList, MDict)) else str(to_native(p)))
        merged = []
        for p in flat:
            if isinstance(p, str) and merged and isinstance(merged[-1], str):
                merged[-1] += p
            else:
                merged.append(p)
        if all(isinstance(p, str) for p in merged):
            return ''.join(merged)
        return SqlText(merged)

    def expr_FormattedValue(self, node, env):
        return self.eval(node.value, env)

    def expr_Lambda(self, node, env):
        defaults = [self.eval(d, env) for d in node.args.defaults]
        return Closure(node, env, env.globs, '<lambda>', defaults)

    def expr_IfExp(self, node, env):
        c = self.truth(self.eval(node.test, env))
        if isinstance(c, bool):
            return self.eval(node.body if c else node.orelse, env)
        if not self.ctx.generic:
            # try a merge first (keeps paths few); fork if the values cannot be merged
            saved_pc = list(self.ctx.pc)
            try:
                self.ctx.pc.append(c)
                a = self.eval(node.body, env)
                self.ctx.pc[:] = saved_pc + [z3.Not(c)]
                b = self.eval(node.orelse, env)
                self.ctx.pc[:] = saved_pc
                if isinstance(a, (SqlText,)) or isinstance(b, (SqlText,)):
                    raise Unsupported('merge of SQL text')
                return ite(c, a, b, lift_strings=False)
            except (Unsupported, PyRaise):
                self.ctx.pc[:] = saved_pc
                take = self.ctx.branch(c)
                return self.eval(node.body if take else node.orelse, env)
        self.ctx.preds.append(c)
        try:
            a = self.eval(node.body, env)
        finally:
            self.ctx.preds.pop()
        self.ctx.preds.append(z3.Not(c))
        try:
            b = self.eval(node.orelse, env)
        finally:
            self.ctx.preds.pop()
        return ite(c, a, b)

    def expr_BoolOp(self, node, env):
        is_and = isinstance(node.op, ast.And)
        vals = node.values
        return self._boolop(is_and, vals, 0, env)

    def _boolop(self, is_and, vals, i, env):
        v = self.eval(vals[i], env)
        if i == len(vals) - 1:
            return v
        t = self.truth(v)
        if isinstance(t, bool):
            if is_and:
                return self._boolop(is_and, vals, i + 1, env) if t else v
            return v if t else self._boolop(is_and, vals, i + 1, env)
        # symbolic: evaluate the rest under the short-circuit condition
        cond = t if is_and else z3.Not(t)
        if self.ctx.generic:
            self.ctx.preds.append(cond)
            try:
                rest = self._boolop(is_and, vals, i + 1, env)
            finally:
                self.ctx.preds.pop()
        else:
            # the short-circuit condition holds while the rest is evaluated; decisions taken meanwhile stay in the pc
            at = len(self.ctx.pc)
            self.ctx.pc.append(cond)
            try:
                rest = self._boolop(is_and, vals, i + 1, env)
            finally:
                if at < len(self.ctx.pc) and self.ctx.pc[at] is cond:
                    del self.ctx.pc[at]
        # `metadata or {}`: the stored dict, or the empty dict
        if not is_and and isinstance(v, SV) and v.kind == 'meta' and isinstance(rest, MDict) \
                and not rest.d and not rest.nodes:
            return SV('meta', z3.If(t, v.z, EMPTY_META))
        # value semantics: (v and rest) = rest if truthy(v) else v
        if self._is_boolish(v) and self._is_boolish(rest):
            tr = self.truth(rest)
            return SV('bool', z3.And(t, z_bool(tr)) if is_and else z3.Or(t, z_bool(tr)))
        try:
            return ite(t, rest, v) if is_and else ite(t, v, rest)
        except Unsupported:
            # only the truth value can be represented
            tr = self.truth(rest)
            return TruthOnly(z3.And(t, z_bool(tr)) if is_and else z3.Or(t, z_bool(tr)))

    def _is_boolish(self, v):
        return isinstance(v, bool) or (isinstance(v, SV) and v.kind == 'bool' and v.none is None) \
            or isinstance(v, TruthOnly)

    def expr_UnaryOp(self, node, env):
        v = self.eval(node.operand, env)
        if isinstance(node.op, ast.Not):
            t = self.truth(v)
            return (not t) if isinstance(t, bool) else SV('bool', z3.Not(t))
        if isinstance(node.op, ast.USub):
            if isinstance(v, SV):
                self.require_not_none(v, node)
                return SV(v.kind, -v.z)
            return -v
        if isinstance(node.op, ast.UAdd):
            return v
        raise Unsupported('unary operator')

    def expr_BinOp(self, node, env):
        a = self.eval(node.left, env)
        b = self.eval(node.right, env)
        return self.binop(node.op, a, b, node)

    def expr_Compare(self, node, env):
        left = self.eval(node.left, env)
        result = True
        for op, rnode in zip(node.ops, node.comparators):
            if result is False:
                break
            # chained comparisons short-circuit, but the operands here are side-effect free
            right = self.eval(rnode, env)
            r = self.compare(op, left, right, node)
            result = r if result is True else z_and(z_bool(result), z_bool(r))
            left = right
        if isinstance(result, bool):
            return result
        return SV('bool', result)

    def expr_Call(self, node, env):
        # super()
        if isinstance(node.func, ast.Name) and node.func.id == 'super' and not node.args:
            cls = env.lookup('__class_cell__')
            selfv = env.lookup('__self_cell__')
            return SuperProxy(cls, selfv)
        f = self.eval(node.func, env)
        args = []
        for a in node.args:
            if isinstance(a, ast.Starred):
                v = self.eval(a.value, env)
                items = self.concrete_items(v)
                if items is None:
                    raise Unsupported('*args with a symbolic sequence')
                args.extend(items)
            else:
                args.append(self.eval(a, env))
        kwargs = {}
        for kw in node.keywords:
            if kw.arg is None:
                v = self.eval(kw.value, env)
                if isinstance(v, MDict) and v.is_concrete():
                    kwargs.update(v.d)
                elif isinstance(v, dict):
                    kwargs.update(v)
                elif isinstance(v, SRec):
                    raise Unsupported('**kwargs from a symbolic record')
                else:
                    raise Unsupported('**kwargs')
            else:
                kwargs[kw.arg] = self.eval(kw.value, env)
        return self.call(f, args, kwargs, node)

    def expr_Attribute(self, node, env):
        obj = self.eval(node.value, env)
        return self.getattr(obj, node.attr, node)

    def expr_Subscript(self, node, env):
        obj = self.eval(node.value, env)
        idx = self.eval_index(node.slice, env)
        return self.getitem(obj, idx, node)

    def eval_index(self, s, env):
        if isinstance(s, ast.Slice):
            return slice(self.eval(s.lower, env) if s.lower else None,
                         self.eval(s.upper, env) if s.upper else None,
                         self.eval(s.step, env) if s.step else None)
        return self.eval(s, env)

    def expr_Starred(self, node, env):
        raise Unsupported('starred expression')

    def expr_NamedExpr(self, node, env):
        v = self.eval(node.value, env)
        self.assign(node.target, v, env)
        return v

    def expr_Yield(self, node, env):
        out = env.lookup('__yield__')
        v = self.eval(node.value, env) if node.value is not None else None
        self.list_append(out, v)
        return None

    def expr_YieldFrom(self, node, env):
        out = env.lookup('__yield__')
        v = self.eval(node.value, env)
        self.list_extend(out, v)
        return None

    # -- comprehensions ----------------------------------------------------------------------
    def expr_ListComp(self, node, env):
        out = MList()
        self._comp(node.generators, 0, env, lambda e: self.list_append(out, self.eval(node.elt, e)))
        return out

    def expr_GeneratorExp(self, node, env):
        return self.expr_ListComp(node, env)

    def expr_SetComp(self, node, env):
        out = MSet()
        self._comp(node.generators, 0, env, lambda e: self.set_add(out, self.eval(node.elt, e)))
        return out

    def expr_DictComp(self, node, env):
        if self.options.get('record_dicts'):
            from vc.pyvc.values import SRec
            out = SRec(f'dictcomp@{node.lineno}')
            out.owned = True
        else:
            out = MDict()
        self._comp(node.generators, 0, env,
                   lambda e: self.setitem(out, self.eval(node.key, e), self.eval(node.value, e), node))
        return out

    def _comp(self, gens, i, env, emit):
        if i == len(gens):
            emit(env)
            return
        g = gens[i]
        cenv = Env(env, env.globs) if i == 0 else env
        it = self.eval(g.iter, cenv if i else env)

        def body():
            self._comp_ifs(g.ifs, 0, cenv, lambda: self._comp(gens, i + 1, cenv, emit))
        self.for_each_fn(it, lambda x: self.assign(g.target, x, cenv, True), body, cenv)

    def _comp_ifs(self, ifs, j, env, cont):
        if j == len(ifs):
            cont()
            return
        c = self.truth(self.eval(ifs[j], env))
        if isinstance(c, bool):
            if c:
                self._comp_ifs(ifs, j + 1, env, cont)
            return
        if not self.ctx.generic and not self.options.get('record_dicts'):
            if self.ctx.branch(c):
                self._comp_ifs(ifs, j + 1, env, cont)
            return
        self.ctx.preds.append(c)
        try:
            if self.ctx.feasible(z3.BoolVal(True)):
                self._comp_ifs(ifs, j + 1, env, cont)
        finally:
            self.ctx.preds.pop()

    def for_each_fn(self, it, bind, body, env):
        if isinstance(it, SBatched):
            bind(SChunk(it.src))
            body()
            return
        items = self.concrete_items(it)
        if items is not None:
            for x in items:
                bind(x)
                try:
                    body()
                except _Continue:
                    pass
            return
        seq = self.to_seq(it)
        self.generic_loop(seq, bind, body, env)

    # ======================================================================================
    # container primitives (used by statements and by builtins_sym)
    # ======================================================================================
    def contribution(self, elem):
        """Wrap `elem` into nested Loop nodes for the active generic frames -> (node, chain)."""
        ctx = self.ctx
        guard_parts = list(ctx.preds)
        node = None
        frames = ctx.generic
        return frames, z_and(*guard_parts)

    def _append_node(self, nodes: list, elem, owner=None):
        """Append elem to the node list at the position given by the generic frames that were entered after
        the owning container was created."""
        ctx = self.ctx
        d0 = getattr(owner, 'depth', 0) if owner is not None else 0
        p0 = getattr(owner, 'pdepth', 0) if owner is not None else 0
        frames = [f for f in ctx.generic[d0:]]
        cur = nodes
        # walk / create Loop nodes for frames that have binders; guards of binder-less frames are conjoined
        pending_guard = []
        # the frame the container was created in: a `continue` / conditional raise taken since then (frame.active)
        # limits the iterations in which this append happens
        if 0 < d0 <= len(ctx.generic) and ctx.generic[d0 - 1].active is not True:
            pending_guard.append(ctx.generic[d0 - 1].active)
        for f in frames:
            if f.binders:
                key = tuple(id(b.var) for b in f.binders)
                last = cur[-1] if cur else None
                if isinstance(last, Loop) and tuple(id(b.var) for b in last.binders) == key:
                    loop = last
                else:
                    ln = getattr(f, 'loop_node', None)
                    loop = Loop(list(f.binders), z_and(f.guard, *pending_guard), [],
                                order=getattr(ln, 'order', None), unordered=getattr(ln, 'unordered', False),
                                reverse=getattr(ln, 'reverse', False))
                    if hasattr(ln, 'grouped_by'):
                        loop.grouped_by = ln.grouped_by
                    cur.append(loop)
                pending_guard = []
                cur = loop.kids
                if f.active is not True:
                    pending_guard.append(f.active)
            else:
                pending_guard.append(f.guard)
                if f.active is not True:
                    pending_guard.append(f.active)
        g = z_and(*pending_guard, *ctx.preds[p0:])
        cur.append(Lit(elem, True if (g is True or z3.is_true(g)) else g))

    def list_append(self, lst, elem):
        if isinstance(lst, MList):
            self._append_node(lst.nodes, elem, lst)
            return
        raise Unsupported(f'append to {type(lst).__name__}')

    def list_extend(self, lst, src):
        if not isinstance(lst, MList):
            raise Unsupported(f'extend of {type(lst).__name__}')
        if isinstance(src, ParamSeq):
            raise Unsupported('extend with parameter sequence')
        items = self.concrete_items(src)
        if items is not None:
            for x in items:
                self._append_node(lst.nodes, x, lst)
            return
        seq = self.to_seq(src)
        if len(self.ctx.generic) <= lst.depth and len(self.ctx.preds) <= lst.pdepth:
            lst.nodes.extend(seq.nodes)
            return
        # inside a generic context: nest the source's nodes under the active frames
        self._append_nested(lst.nodes, seq.nodes, lst)

    def _append_nested(self, nodes, new_nodes, owner=None):
        marker = _NestMarker(new_nodes)
        self._append_node(nodes, marker, owner)
        # replace the marker Lit by the nodes (with the Lit's guard pushed down)
        _splice_marker(nodes, marker)

    def set_add(self, st, elem):
        if not isinstance(st, MSet):
            raise Unsupported(f'add to {type(st).__name__}')
        if len(self.ctx.generic) <= st.depth and len(self.ctx.preds) <= st.pdepth and self._frame_active_true(st):
            if not is_sym(elem) and not contains_sym(elem):
                if elem not in [x for x in st.items if not is_sym(x) and not contains_sym(x)]:
                    st.items.append(elem)
            else:
                st.items.append(elem)
            return
        self._append_node(st.nodes, elem, st)

    def _frame_active_true(self, owner) -> bool:
        d0 = getattr(owner, 'depth', 0)
        g = self.ctx.generic
        return not (0 < d0 <= len(g)) or g[d0 - 1].active is True or z3.is_true(z3.simplify(z_bool(g[d0 - 1].active)))

    def set_update(self, st, src):
        items = self.concrete_items(src)
        if items is not None:
            for x in items:
                self.set_add(st, x)
            return
        seq = self.to_seq(src)
        if len(self.ctx.generic) <= st.depth and len(self.ctx.preds) <= st.pdepth and self._frame_active_true(st):
            st.nodes.extend(seq.nodes)
        else:
            self._append_nested(st.nodes, seq.nodes, st)

    def dict_update(self, d, src):
        if isinstance(src, MDict) and src.is_concrete():
            for k, v in src.d.items():
                self.setitem(d, k, v, None)
            return
        if isinstance(src, MDict) and isinstance(d, MDict):
            # a dict with symbolic contributions: its (key, value) pairs in insertion order
            for k, v in src.d.items():
                self.setitem(d, k, v, None)
            pairs = list(src.nodes)
            if len(self.ctx.generic) <= d.depth and len(self.ctx.preds) <= d.pdepth:
                d.nodes.extend(pairs)
            else:
                self._append_nested(d.nodes, pairs, d)
            return
        if isinstance(src, dict):
            for k, v in src.items():
                self.setitem(d, k, from_native(v), None)
            return
        from vc.pyvc.values import SOptRec
        if isinstance(src, SOptRec):
            self.safety_check(z_bool(src.present), TypeError, None, 'dict(None)')
            src = src.rec
        if isinstance(src, SRec):
            if isinstance(d, MDict) and not d.d and not d.nodes:
                # dict(rec): copy of a record
                d.rec_copy = src.copy()
                return
            raise Unsupported('update from a symbolic record')
        items = self.concrete_items(src)
        if items is not None:
            for kv in items:
                k, v = kv
                self.setitem(d, k, v, None)
            return
        seq = self.to_seq(src)
        if isinstance(d, MDict):
            if len(self.ctx.generic) <= d.depth and len(self.ctx.preds) <= d.pdepth:
                d.nodes.extend(seq.nodes)
            else:
                self._append_nested(d.nodes, seq.nodes, d)
            return
        raise Unsupported('dict update')

    # -- getitem / setitem / getattr ----------------------------------------------------------
    def getitem(self, obj, idx, node=None):
        from vc.pyvc import builtins_sym
        return builtins_sym.getitem(self, obj, idx, node)

    def setitem(self, obj, idx, val, node=None):
        from vc.pyvc import builtins_sym
        return builtins_sym.setitem(self, obj, idx, val, node)

    def getattr(self, obj, name, node=None):
        from vc.pyvc import builtins_sym
        return builtins_sym.getattr_(self, obj, name, node)

    def setattr(self, obj, name, val, node=None):
        if isinstance(obj, SObj):
            if self.ctx.generic and self.ctx.preds:
                old = obj.attrs.get(name)
                obj.attrs[name] = ite(z_and(*self.ctx.preds), val, old) if old is not None else val
            else:
                obj.attrs[name] = val
            return
        if not is_sym(obj) and not is_sym(val):
            try:
                setattr(obj, name, val)
                return
            except Exception as exc:
                raise Unsupported(f'setattr on {type(obj).__name__}: {exc}')
        raise Unsupported(f'setattr on {type(obj).__name__}')

    def binop(self, op, a, b, node=None):
        from vc.pyvc import builtins_sym
        return builtins_sym.binop(self, op, a, b, node)

    def compare(self, op, a, b, node=None):
        from vc.pyvc import builtins_sym
        return builtins_sym.compare(self, op, a, b, node)

    def require_not_none(self, v: SV, node, what='operand is None'):
        if v.none is not None:
            self.safety_check(z3.Not(v.none), TypeError, node, what)

    def safety_check(self, cond, exc_type, node, what):
        """`cond` must hold, otherwise the program raises exc_type here."""
        ctx = self.ctx
        if isinstance(cond, bool):
            if not cond:
                raise PyRaise(exc_type, (what,), node)
            return
        cond = z3.simplify(cond)
        if z3.is_true(cond):
            return
        if ctx.generic:
            ctx.may_raise.append((exc_type, ctx.assumptions() + [z3.Not(cond)], node, what,
                                  list(ctx.all_binders())))
            frame = ctx.generic[-1]
            still = z3.Or(z_not(z_and(*ctx.preds[frame.pred_base:])), cond) if ctx.preds[frame.pred_base:] else cond
            frame.active = z_and(frame.active, still)
            frame.abort = z_and(getattr(frame, 'abort', True), still)
            return
        if not ctx.branch(cond, raising=True):
            raise PyRaise(exc_type, (what,), node)


# ---------------------------------------------------------------------------------------------
# helpers

_MISSING = object()


def _simple_store_block(stmts) -> bool:
    """`if c: d[k] = v` / `if c: obj.set(k, v)`: a block of stores into containers (no control flow, no names bound)."""
    for st in stmts:
        if isinstance(st, ast.Assign) and all(isinstance(t, ast.Subscript) for t in st.targets):
            continue
        if isinstance(st, ast.Expr) and isinstance(st.value, ast.Call) and isinstance(st.value.func, ast.Attribute) \
                and st.value.func.attr in ('set',):
            continue
        return False
    return True


class _LoopLocal:
    def __init__(self, name):
        self.name = name


class _Unmergeable(_LoopLocal):
    """A variable holding values that cannot be merged after a predicated branch; using it is unsupported."""

    def __init__(self, name, cond, a, b):
        super().__init__(name)
        self.cond, self.a, self.b = cond, a, b


class TruthOnly(Sym):
    """A value of which only the truth value is known (result of `a and b` with unmergeable operands)."""

    def __init__(self, t):
        self.t = t


def _truth_only(v):
    return v.t


class ExcValue:
    def __init__(self, cls, args):
        self.cls = cls
        self.args = args

    def __repr__(self):
        return f'ExcValue<{self.cls.__name__}>'


class SuperProxy:
    def __init__(self, cls, selfv):
        self.cls = cls
        self.selfv = selfv


class SymMethod:
    """A method of a symbolic value: callable(interp, args, kwargs, node)."""

    def __init__(self, fn, name=''):
        self.fn = fn
        self.name = name

    def __call__(self, interp, args, kwargs, node):
        return self.fn(interp, args, kwargs, node)


class ParamSeq(Sym):
    """Parameter sequence with splats: parts = [('one', v) | ('splat', seq)]."""

    def __init__(self, parts):
        self.parts = parts


class ConcreteIter:
    def __init__(self, items):
        self.items = list(items)
        self.pos = 0

    def rest(self):
        r = self.items[self.pos:]
        self.pos = len(self.items)
        return r


class DictView(Sym):
    def __init__(self, d, what):
        self.d = d
        self.what = what

    def concrete(self):
        d = self.d
        if isinstance(d, MDict) and d.is_concrete():
            if self.what == 'keys':
                return list(d.d.keys())
            if self.what == 'values':
                return list(d.d.values())
            return list(d.d.items())
        if isinstance(d, dict):
            return list(getattr(d, self.what)())
        return None

    def as_seq(self, interp) -> Seq:
        d = self.d
        if isinstance(d, MDict):
            nodes = [Lit((k, v)) for k, v in d.d.items()] + list(d.nodes)
        elif isinstance(d, SMap):
            nodes = list(d.seq.nodes)
        else:
            raise Unsupported('view of ' + type(d).__name__)
        seq = Seq(nodes, label='dictview')
        if self.what == 'items':
            return seq
        idx = 0 if self.what == 'keys' else 1
        return map_seq(seq, lambda kv: kv[idx])


class _NestMarker:
    def __init__(self, nodes):
        self.nodes = nodes


def _splice_marker(nodes, marker):
    for i, n in enumerate(nodes):
        if isinstance(n, Lit):
            if n.elem is marker:
                new = []
                for m in marker.nodes:
                    new.append(_with_guard(m, n.guard))
                nodes[i:i + 1] = new
                return True
        else:
            if _splice_marker(n.kids, marker):
                return True
    return False


def _with_guard(node, g):
    if g is True:
        return node
    if isinstance(node, Lit):
        return Lit(node.elem, z_and(g, node.guard))
    return Loop(node.binders, z_and(g, node.guard), node.kids, node.order, node.unordered)


def map_seq(seq: Seq, fn) -> Seq:
    def m(nodes):
        out = []
        for n in nodes:
            if isinstance(n, Lit):
                out.append(Lit(fn(n.elem), n.guard))
            else:
                out.append(Loop(n.binders, n.guard, m(n.kids), n.order, n.unordered))
        return out
    return Seq(m(seq.nodes), distinct=False, label=seq.label)


def mark_unordered(seq: Seq):
    for n in seq.nodes:
        if isinstance(n, Loop):
            n.unordered = True


def _init_frame(frame, interp, env, outer_names, open_only=False):
    frame.pred_base = len(interp.ctx.preds)
    frame.owner_depth = interp.call_depth
    frame.outer_names = set(outer_names)
    locals_now = set()
    frame._env = env
    frame._pre = set(env.vars)

    def is_local(name, frame=frame):
        # a name is loop-local if it was not defined before the loop started
        return name not in frame.outer_names
    frame.is_local = is_local
    frame.pred_scoped = True
    if not hasattr(frame, 'shadowed'):
        frame.shadowed = set()
    if not hasattr(frame, 'body_ast'):
        frame.body_ast = getattr(interp, '_cur_loop_body', None)
    if not hasattr(frame, 'loop_ast'):
        frame.loop_ast = getattr(interp, '_cur_loop_node', None)
    return frame


def contains_sym(v, depth=0) -> bool:
    if isinstance(v, (MList,)):
        return not v.is_concrete() or any(contains_sym(x, depth + 1) for x in v.items())
    if isinstance(v, MDict):
        return bool(v.nodes) or getattr(v, 'rec_copy', None) is not None or \
            any(contains_sym(x, depth + 1) for x in v.d.values())
    if isinstance(v, MSet):
        return bool(v.nodes) or any(contains_sym(x, depth + 1) for x in v.items)
    if is_sym(v):
        return True
    if isinstance(v, (Closure, ExcValue)):
        return isinstance(v, Closure)
    if isinstance(v, (tuple, list)):
        return any(contains_sym(x, depth + 1) for x in v)
    if isinstance(v, dict):
        return any(contains_sym(x, depth + 1) for x in v.values())
    return False


def contains_binder(v, bvars) -> bool:
    if not bvars:
        return False
    ids = {b.get_id() for b in bvars}

    def term_has(t):
        stack = [t]
        seen = set()
        while stack:
            x = stack.pop()
            if x.get_id() in seen:
                continue
            seen.add(x.get_id())
            if x.get_id() in ids:
                return True
            if z3.is_app(x):
                stack.extend(x.children())
            elif z3.is_quantifier(x):
                stack.append(x.body())
        return False
    if isinstance(v, SV):
        return term_has(v.z) or (v.none is not None and term_has(v.none))
    if isinstance(v, tuple):
        return any(contains_binder(x, bvars) for x in v)
    if isinstance(v, SRec):
        return True
    return False


def to_native(v):
    if isinstance(v, MList):
        return [to_native(x) for x in v.items()]
    if isinstance(v, MDict):
        if not v.is_concrete():
            raise Unsupported('native view of symbolic dict')
        return {k: to_native(x) for k, x in v.d.items()}
    if isinstance(v, MSet):
        if not v.is_concrete():
            raise Unsupported('native view of symbolic set')
        return set(v.items)
    if isinstance(v, tuple):
        return tuple(to_native(x) for x in v)
    if isinstance(v, ExcValue):
        return v.cls(*[to_native(a) for a in v.args])
    return v


def from_native(v):
    if isinstance(v, list):
        return MList([from_native(x) for x in v])
    if type(v) is dict:
        return MDict({k: from_native(x) for k, x in v.items()})
    if type(v) is set:
        return MSet(sorted(v, key=repr))
    if isinstance(v, tuple) and type(v) is tuple:
        return tuple(from_native(x) for x in v)
    return v


_opaque_funcs: dict = {}


def opaque_str(tag: str, parts) -> SV:
    """An uninterpreted string built from symbolic parts (messages): fresh constant, never inspected."""
    return SV('str', z3.Const(fresh_name('opaque_' + tag), UStr))


def _class_of_function(fn):
    qn = getattr(fn, '__qualname__', '')
    if '.' not in qn:
        return None
    mod = inspect.getmodule(fn)
    obj = mod
    try:
        for part in qn.split('.')[:-1]:
            if part == '<locals>':
                return None
            obj = getattr(obj, part)
    except AttributeError:
        return None
    return obj if isinstance(obj, type) else None


def _defining_class(cls, name):
    for k in cls.__mro__:
        if name in k.__dict__:
            return k
    return None


# ---------------------------------------------------------------------------------------------
# path exploration

def explore(run: Callable[[Interp], Any], contracts=None, max_paths: int = 4000, packages=('wn',),
            no_inline=None, pre=(), predicated: bool = False, options=None) -> list[Outcome]:
    """Run `run(interp)` on every path. Returns one Outcome per feasible path."""
    outcomes: list[Outcome] = []
    work: list[list[bool]] = [[]]
    while work:
        prefix = work.pop()
        ctx = Ctx(prefix)
        global CURRENT_CTX
        CURRENT_CTX = ctx
        ctx.pc.extend(pre)
        interp = Interp(ctx, dict(contracts or {}), packages, no_inline, options)
        if predicated:
            # run everything under a trivial generic frame: symbolic branches are predicated instead of forked
            fr = GenericFrame([], True)
            fr.pred_base = 0
            fr.owner_depth = -1
            fr.outer_names = set()
            fr.is_local = lambda name: True
            fr.shadowed = set()
            fr.body_ast = None
            ctx.generic.append(fr)
        try:
            val = run(interp)
            out = Outcome('return', value=val)
        except PyRaise as exc:
            out = Outcome('raise', exc=exc)
        except PathEnd:
            work.extend(ctx.alternatives)
            continue
        out.pc = list(ctx.pc)
        out.effects = ctx.effects
        out.safety = ctx.safety
        out.may_raise = ctx.may_raise
        out.decisions = list(ctx.decisions)
        out.notes = ctx.notes
        outcomes.append(out)
        work.extend(ctx.alternatives)
        if len(outcomes) > max_paths:
            raise Unsupported(f'more than {max_paths} paths')
    return outcomes
