"""./check <id> quick|thorough | ./check replay <file> | ./check all <tier>"""
from __future__ import annotations

import importlib
import json
import os
import sys
import traceback

from vc.core import ROOT, Session, Unsupported, EngineError


def _watchdog(prop: str, tier: str):
    """A check never hangs: past the wall-clock limit (a non-terminating function under test, a runaway solver) the
    whole process group is stopped with exit 3 (engine error, never a violation)."""
    import signal
    import threading
    limit = int(os.environ.get('VERIF_WALL_LIMIT', '1800' if tier == 'quick' else '14400'))

    def fire():
        print(f'ENGINE-ERROR: {prop} {tier} did not finish within {limit} s (stopped by the watchdog)', flush=True)
        try:
            import multiprocessing
            for ch in multiprocessing.active_children():
                ch.kill()
        finally:
            os._exit(3)
    t = threading.Timer(limit, fire)
    t.daemon = True
    t.start()


def run_property(prop: str, tier: str) -> int:
    _watchdog(prop, tier)
    seed = int(os.environ.get('VERIF_SEED', '0') or 0)
    tier = os.environ.get('VERIF_TIER', tier) if tier not in ('quick', 'thorough') else tier
    sess = Session(prop, tier, seed)
    try:
        mod = importlib.import_module(f'contracts.{prop}')
    except ModuleNotFoundError:
        print(f'ENGINE-ERROR: no check module for {prop}')
        return 3
    # the infrastructure contracts are checked even when the property's own run stops on an engine error: a change to
    # schema.sql or a constant table can both break the property and make the main run crash (violations take
    # precedence over engine errors in the exit code)
    for step in (mod.run, infrastructure, shared_contracts, finding_probes):
        try:
            step(sess)
        except Unsupported as exc:
            sess.errors.append(f'unsupported: {exc}')
        except EngineError as exc:
            sess.errors.append(f'engine self-check failed: {exc}')
        except Exception as exc:   # engine crash: never a violation
            traceback.print_exc()
            sess.errors.append(f'engine crash: {type(exc).__name__}: {exc}')
    return sess.finish()


# the layers each property stands on (contracts/infra.py): database plumbing / WN-LMF format constants
DB_PROPS = {'C01', 'C03', 'C04', 'C05', 'C06', 'C07', 'C08', 'C09', 'C10', 'C11', 'C12', 'C17', 'C18', 'C19', 'C20'}
FORMAT_PROPS = {'C01', 'C02', 'C03', 'C07', 'C11', 'C16', 'C20'}
WRAPPER_PROPS = {'C04', 'C08', 'C09', 'C10', 'C17'}


# contracts that several properties stand on beyond their own anchors (a regression of one of them breaks each of
# these properties): which lexicons a specifier selects; remove() deleting exactly the selection; _collect_frames;
# add() raising no KeyError/TypeError on a normal-form resource; Morphy's tables; identity of ILI objects
SELECTION_PROPS = {'C05', 'C10'}                    # C04, C08, C12 include the find_lexicons obligations themselves
REMOVE_PROPS = {'C04', 'C05', 'C06'}                # C08 runs it in its own stand-in
FRAMES_PROPS = {'C06', 'C20'}                       # C01, C07 run it themselves
NO_RAISE_PROPS = {'C07', 'C20'}                     # C01 runs it itself
MORPHY_PROPS = {'C09'}                              # C17 runs it itself
ILI_IDENTITY_PROPS = {'C19'}                        # C10 runs it itself
INIT_DB_PROPS = {'C01', 'C06', 'C19'}                  # what _init_db writes is committed (C05 runs it itself)
CORNER_DOC_PROPS = {'C11'}                          # a valid document with parallel sense-synset relations is accepted (C01 runs it itself)
ROUTE_PROPS = {'C01', 'C05', 'C06', 'C20'}          # add(): lexicons are added unless ALL are skipped (C07 runs it itself)


def shared_contracts(sess: Session):
    prop = sess.prop
    seen = {r.ob.name for r in sess.results}

    def check_all(obs):
        for ob in obs:
            if isinstance(ob, tuple):
                sess.unsupported(ob[1], ob[2])
                continue
            ob.prop = prop
            if ob.name not in seen:
                seen.add(ob.name)
                sess.check(ob)
    if prop in SELECTION_PROPS:
        from contracts import C08
        check_all(C08.deductive_obligations())
    if prop in REMOVE_PROPS:
        from contracts import C08
        C08.remove_selection_bounded(sess)
    if prop in FRAMES_PROPS:
        from contracts import C01
        C01.collect_frames_bounded(sess)
    if prop in NO_RAISE_PROPS:
        from contracts import C01
        check_all(C01.add_no_raise_obligations())
    if prop in MORPHY_PROPS:
        from contracts import C17
        C17.init_bounded(sess)
        C17.call_bounded(sess)
    if prop in INIT_DB_PROPS:
        from contracts import C05
        C05.init_db_bounded(sess)
    if prop in CORNER_DOC_PROPS:
        from contracts import C01
        C01.order_bounded(sess)
    if prop in ROUTE_PROPS:
        from contracts import C07
        check_all(C07.route_obligations())
    if prop in ILI_IDENTITY_PROPS:
        from contracts import C10
        check_all([ob for ob in C10.identity_obligations() if '.ILI.' in ob.name])
    if prop in ILI_IDENTITY_PROPS | {'C10'}:
        from contracts import coreflows
        coreflows.run_flows(sess, prop, {'ILI_metadata'})       # which table an ILI's metadata is read from


def infrastructure(sess: Session):
    from contracts import infra
    obs = infra.purity_obligations(sess.prop) if sess.prop != 'C16' else []
    obs += infra.generator_use_obligations(sess.prop)
    if sess.prop in DB_PROPS:
        obs += infra.db_obligations(sess.prop)
    if sess.prop in FORMAT_PROPS:
        obs += infra.format_obligations(sess.prop)
    if sess.prop in WRAPPER_PROPS:
        obs += infra.wrapper_obligations(sess.prop)
    seen = {r.ob.name for r in sess.results}
    for ob in obs:
        if ob.name not in seen:
            sess.check(ob)


def finding_probes(sess: Session):
    """Recorded findings that carry a `probe` (a demo script under known_findings/, run against the current /repo):
    exit 1 = the recorded input still fails -> reported as that KNOWN-FINDING; exit 0 = it no longer fails (nothing is
    printed); anything else = harness failure (exit 3, never a violation).  Only the recorded input is covered: any
    other failure of the property goes through the obligations of the check."""
    import subprocess
    from vc.core import REPO
    for fid, f in sess.findings.items():
        if f.get('status') != 'open' or not f.get('probe') or sess.prop not in f.get('property_ids', []):
            continue
        probe = f['probe'].get(sess.prop) if isinstance(f['probe'], dict) else f['probe']    # one demo per property
        if not probe:
            continue
        f = dict(f, probe=probe)
        env = dict(os.environ, PYTHONPATH=str(REPO))
        p = subprocess.run([sys.executable, str(ROOT / 'known_findings' / f['probe'])], env=env, capture_output=True,
                           text=True, timeout=600, cwd=str(ROOT / 'known_findings'))
        tail = (p.stdout + p.stderr).strip()[-1200:]
        if p.returncode == 1:
            sess.violation_direct(f'probe:{fid}:{f["probe"]}', tail, {'kind': 'finding-probe', 'probe': f['probe']},
                                  reproduced=True, finding=fid, functions=tuple(f.get('functions', ())))
        elif p.returncode != 0:
            sess.errors.append(f'probe {f["probe"]} of {fid} failed to run (exit {p.returncode}): {tail[-300:]}')
        sess.add_bounded(f'known finding {fid}', f'the recorded input ({f["probe"]})', 1, 'native demo',
                         ok=True, note='reproduces' if p.returncode == 1 else 'no longer reproduces')


def replay(path: str) -> int:
    p = ROOT / path if not os.path.isabs(path) else path
    data = json.loads(open(p).read())
    prop = data['property']
    mod = importlib.import_module(f'contracts.{prop}')
    fn = getattr(mod, 'replay', None)
    if fn is None:
        print(json.dumps(data, indent=1)[:4000])
        print('no executable replay for this property; the file carries the failed obligation and solver output')
        return 0
    out = fn(data)
    print(json.dumps(out, indent=1, default=str)[:4000])
    return 1 if out.get('reproduced') else 0


def main(argv):
    if len(argv) < 2:
        print(__doc__)
        return 3
    if argv[0] == 'replay':
        return replay(argv[1])
    tier = argv[1]
    if argv[0] == 'all':
        rc = 0
        for line in open(ROOT / 'properties.jsonl'):
            pid = json.loads(line)['id']
            if (ROOT / 'contracts' / f'{pid}.py').exists():
                rc = max(rc, run_property(pid, tier))
        return rc
    return run_property(argv[0], tier)


if __name__ == '__main__':
    sys.exit(main(sys.argv[1:]))
