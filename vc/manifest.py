"""Generates MANIFEST.json from the table below:  .venv/bin/python -m vc.manifest"""
import json
from pathlib import Path

ROOT = Path(__file__).resolve().parent.parent
BASELINE_CMD = ("cd /repo && /venv/bin/python -m pytest -ra -q -p no:cacheprovider --timeout=900 "
                "--continue-on-collection-errors")

# property -> dict(category, text, note, technique, design_ref)   (only claimed properties)
CLAIMS: dict = {
    'C01': dict(
        category='proof',
        text='Three layers of per-function contracts proved for all documents/databases/arguments: (1) row images - the '
             'real _insert_* functions are executed symbolically inside the real _add_lexical_resource and the rows they '
             'bind into the real INSERT texts are proved equal (column by column, one row per element, order, look-up '
             'keys) to a sidecar specification; (2) every query function of _queries.py returns exactly the specified '
             'family (sound, complete, duplicates, order, grouping); (3) every _core accessor passes the right '
             'rowid/table/scope and builds its result from the right columns. Converters/declared types are decided on '
             'schema.sql and _db.py.',
        note='Assumed: A-SQLITE, A-DECL, A-JSON; order of SELECTs without ORDER BY is left to SQLite (A-ORDER) and observed on one corner document added to a real database (bounded: document order of every repeated child, repeats, synset without part of speech, phonemic=false, empty metadata values, parallel sense-synset relations). '
             '_batch and _collect_frames enter the proof by contract; the contracts are checked by bounded stand-ins '
             '(labelled bounded, not counted). The composition of the three layers into the per-observable statements '
             'is hand-argued (DESIGN 5 C01.4). XML reading itself is C02/C20. Related known findings K1, K13 are '
             'reported under C04/C05. Audit findings recorded with probes: K27 (entry_rank of senses an extension adds to a base entry), K28 (Unicode white space in text), K29 (frames sharing their text). Known findings K31 (new forms of an extension on a base entry), K32 (UNIQUE constraint on forms).',
        technique='contract-based deductive verification: AST->VC symbolic execution + SQL->FOL, family equality '
                  'obligations discharged by z3',
        engines=['pyvc', 'sqlvc', 'bounded']),
    'C02': dict(
        category='proof',
        text='Per element kind (lexicon, dependency, entry, lemma, form, pronunciation, tag, sense, relation, example, '
             'count, synset, definition, ILI definition, syntactic behaviour) and per LMF version the composition '
             'real writer (_build_*/_dump_*, _meta_dict) -> A-XML bridge -> real expat handlers (start/char_data/end of '
             '_make_parser) -> real _validate_* is executed symbolically on a record in the loader normal form (shapes '
             'generated from the TypedDicts) and proved equal to the input restricted to what the version expresses: '
             'presence and value of every attribute, metadata key, text, converted value (int/bool/token lists), child '
             'lists through a free representative (all elements, order kept), for all values and all paths; nothing '
             'the writer emits makes the reader raise. dump() header/namespace/lexicon order and attribute quoting are '
             'decided on the symbolically executed real dump().',
        note='Assumed A-XML: ElementTree.tostring / quoteattr + expat deliver names, attributes, child order and '
             'character data unchanged (the escaping itself is only covered by the bounded sweep: generated resources '
             'with quotes, <, &, tab, newline, CR, non-BMP characters, every optional piece absent once, extensions, '
             '4 versions, equality + byte fixed point - labelled bounded, not counted as proved). A-SPLIT, '
             'A-PY-INTSTR (int(str(n)) == n). Known finding K7 (optional attributes holding the empty string are '
             'dropped) is reported as KNOWN-FINDING and re-proved under its restriction. The per-kind results compose '
             'to whole resources by structural induction (hand argument, DESIGN). Known findings K19 (explicit lexicalized/phonemic = true is not written back; compared strictly, restriction \'present => False\'), K24 (xml:space=preserve text; the obligations assume whitespace-normalised text).',
        technique='contract-based deductive verification: symbolic execution of writer, reader and validator source '
                  '(AST->VC), per-field equality obligations discharged by z3; bounded native round trip for the '
                  'serialisation layer',
        engines=['pyvc', 'bounded']),
    'C04': dict(
        category='proof',
        text='Per query function of wn/_queries.py (SQL text and bind map extracted by symbolic execution of the '
             'real Python source, every argument shape = one path): scoping of every row the SELECT ranges over, '
             'and 2-safety non-interference between two arbitrary databases that agree on the rows owned by the '
             'scope; z3 discharges each obligation for all databases and all arguments (no bound). Refutations '
             'are concretised into a real SQLite file and replayed on the real function.',
        note='Trusted: SQLite semantics as encoded by vc/sqlvc (A-SQLITE), first row of an unordered single-table '
             'SELECT = least rowid (A-ORDER-FIRST), the engine itself (A-ENGINE). Known finding K1 (forms/tags/'
             'pronunciations of an unselected extension) is reported as KNOWN-FINDING; its obligations are '
             're-proved under the formal restriction.',
        technique='contract-based deductive verification: AST->VC symbolic execution of the real query functions + '
                  'SQL->FOL translation, obligations discharged by z3',
        engines=['pyvc', 'sqlvc']),
    'C08': dict(
        category='proof',
        text='find_lexicons executed symbolically (z3 strings) for specifier lists of one or two arbitrary tokens and an '
             'optional language: per token the statement AST (SELECT DISTINCT over lexicons, id||":"||version GLOB '
             ':specifier, language condition), the :specifier value (":*" appended iff no ":"), LIMIT 1 + ORDER BY rowid '
             'DESC exactly for a bare id, no lexicon yielded twice, wn.Error iff nothing found and a constraint given; '
             'wn.lexicons() maps the error to []. The meaning of GLOB patterns and the end-to-end selection are a '
             'BOUNDED stand-in: real databases (prefix ids, versions added in both orders, dotted/plus/hyphen versions, '
             'two languages) x a pool of specifier strings singly and in pairs x lang, against a reference '
             'implementation of the documented table.',
        note='A-GLOB (SQLite GLOB) is exercised only by the bounded part; A-SPLIT; specifier lists longer than two tokens '
             'are covered by the per-token structure of the loop (each token handled independently, duplicates filtered '
             'through one set). Fixed finding F9. wn.remove(specifier) removes exactly the selection: bounded stand-in on the same databases (fixed finding F22). The `lexicons` subcommand of the command line lists what wn.lexicons() selects: bounded, same databases.',
        technique='contract-based deductive verification: symbolic execution with z3 strings + SQL AST obligations; bounded '
                  'end-to-end stand-in for GLOB semantics',
        engines=['pyvc', 'sqlvc', 'bounded']),
    'C19': dict(
        category='proof',
        text='_add_ili: effect log of the symbolically executed real function = INSERT OR IGNORE of status names + upsert '
             'ON CONFLICT(id) DO UPDATE SET status_rowid, definition (exactly these, no WHERE), row image per listed ILI '
             '(default status active), frame (only ilis / ili_statuses written), one transaction; _insert_synsets '
             'creates unknown ILIs as presupposed with INSERT OR IGNORE; z3 lemmas over these contracts: idempotence, '
             'order independence of (status, definition) w.r.t. add(lexicons), listed ILIs authoritative; ILI queries '
             'and accessors proved exact.',
        note='SQLite upsert semantics assumed (existing row keeps rowid and other columns). wn._ili.load / is_ili are a '
             'bounded stand-in on generated files. Fixed finding F11 (single-column ILI file not recognised). ILI identity and the table of ILI.metadata() are checked here too (fixed finding F31).',
        technique='contract-based deductive verification: effect-log/row-image obligations + z3 lemmas; bounded file parsing',
        engines=['pyvc', 'sqlvc', 'bounded']),
    'C09': dict(
        category='proof',
        text='_find_helper proved equivalent (same query calls, same results) to the documented exact/normalized/'
             'lemmatized procedure for every combination of entity class, form, generic lemmatizer proposals and '
             'normalizer; the three find_* queries proved to return exactly the entities having a matching form '
             '(form condition, rank = 0 unless search_all_forms, pos, scope); the storage rule of normalized_form '
             'proved as row image of _insert_forms; z3 lemma linking the SQL condition to "f = q or normalize(f) = q".',
        note='normalize_form and the lemmatizer are uninterpreted functions (A-UNI); the order-preserving de-duplication '
             'loop is summarised by the engine (A-DEDUP) and cross-checked by bounded native execution of the extracted '
             'loop; A-SQLITE. Morphy itself is C17; scoping of the forms join is C04 (K1). Fixed finding F21 (lemmatizer proposing a part of speech without forms): the contract drops empty proposals, as the statement says.',
        technique='contract-based deductive verification: flow equivalence by AST-level symbolic execution + SQL->FOL result '
                  'characterisation, z3',
        engines=['pyvc', 'sqlvc', 'bounded']),
    'C10': dict(
        category='proof',
        text='Identity (__eq__/__hash__/__lt__ of the entity classes and Relation) proved by symbolic execution; data '
             'flows of the navigation methods proved against sidecar contracts (prescribed query, scope, _wordnet '
             'propagation); the membership queries proved exact and ordered by rank; referential lemmas (sense.word() '
             'denotes senses.entry_rowid etc., inverse navigation, translate = synsets sharing the ILI, symmetry) proved '
             'in z3 over those contracts.',
        note='Known finding K2: Sense.word()/synset() resolve by identifier among all selected lexicons (fails with two '
             'versions in scope) - reported as KNOWN-FINDING and re-proved under "identifiers unique across the scope". '
             'Inferred (*INFERRED*) synsets are outside the statement (stored entities). A-SQLITE, A-ORDER-FIRST. Fixed finding F24: ILI identity includes the table (existing / proposed).',
        technique='contract-based deductive verification: symbolic execution of the real methods + z3 lemmas over query '
                  'contracts',
        engines=['pyvc', 'sqlvc']),
    'C11': dict(
        category='proof',
        text='The three relation queries proved to return exactly the declared relation rows (source, requested types '
             'incl. none/*, relation and target in scope, name, lexicon specifier, metadata, target columns); storage '
             'of relations proved as row images; _iter_* flows, Relation identity incl. dc:type proved; relation_map key '
             'collisions decided in z3. relations()/get_related()/relation_map() and closure()/relation_paths() '
             '(exactness, simple paths, termination) are checked by BOUNDED stand-ins on the real methods.',
        note='Bounded (not proved): dict-accumulating views on all pair lists <= 3; closure/relation_paths on all '
             'digraphs <= 4 nodes; termination beyond the bound rests on A-MATH. Known finding K10 (relation_map loses a '
             'target when two scope synsets share the ILI). Fixed finding F4 (get_related_synsets() without types). Known finding K26 (relation_map merges relations differing only in other metadata); fixed finding F23 (closure through placeholders; stand-in on a real database with an expand lexicon).',
        technique='contract-based deductive verification (SQL->FOL + flows, z3) with bounded stand-ins for the worklist '
                  'loops',
        engines=['pyvc', 'sqlvc', 'bounded']),
    'C12': dict(
        category='proof',
        text='_iter_relations / _iter_expanded_relations proved equivalent to the documented ILI mapping (sources = '
             'every expand synset sharing the ILI except the synset itself; one result per scope synset carrying the '
             'target ILI else one placeholder with that ILI and the own lexicon; targets without ILI dropped; relation '
             'keeps the expand lexicon\'s ids); Wordnet.__init__ proved against the documented default-mode / expand / '
             'dependency / warning rules for all argument shapes; the queries involved proved exact; dependency links '
             '(provider_rowid) proved as row image + UPDATE condition of _insert_lexicon.',
        note='find_lexicons (specifier resolution) enters by contract here and is C08. A-SQLITE. K10 (relation_map) is '
             'reported under C11.',
        technique='contract-based deductive verification: flow equivalence by AST-level symbolic execution, SQL->FOL, z3',
        engines=['pyvc', 'sqlvc']),
    'C13': dict(
        category='exploration',
        text='Bounded stand-in, labelled as such: the real taxonomy functions and the real path enumerator are run on '
             'EVERY labelled digraph with <= 3 nodes (quick) / <= 4 nodes (thorough; relation_paths/closure always 4) '
             'x every ordered pair x simulate_root and compared with brute-force graph-theoretic definitions '
             '(maximal simple chains, ancestor sets, min over common c of dist(a,c)+dist(b,c), ...); termination '
             'observed on all of them. Deductive obligations (proved, unbounded) cover only the non-worklist pieces: '
             'a/s merging of _synsets_for_pos, delegation of the Synset methods, relation types of hypernyms()/hyponyms().',
        note='Not a proof: the worklist loops over mutable sets/dicts (relation_paths, _shortest_hyp_paths, '
             'taxonomy_depth) are outside what the VC generator expresses (aliasing of per-branch visited sets, '
             'dict-of-lists accumulation); loop invariants were not mechanised. Termination beyond the bound: A-MATH. '
             'Known finding K4 (cycles of length >= 2). Known findings K22 (walks started at an inferred synset) and K30 (simulate_root across two lexicons) carry probes on real databases.',
        technique='contract-based verification family: bounded stand-in (exhaustive small-scope enumeration on the real '
                  'functions) + deductive obligations for the straight-line pieces',
        engines=['bounded', 'pyvc']),
    'C15': dict(
        category='exploration',
        text='Deductive (proved for all weight tables): synset_probability / information_content formulas, probability '
             'in (0,1], IC >= 0, monotonicity, satellite adjectives, _initialize inventory. Bounded stand-in for the '
             'accumulating worklist of compute() (conservation of the total, each ancestor once per word-synset, '
             'unknown words, distribute_weight, smoothing 0/1) on every digraph <= 3 (quick) / 4 (thorough) nodes x 5 '
             'corpora, and for load() on generated weight files.',
        note='compute()/load() are bounded, not proved (worklist over a mutable table; file parsing). A-FLOAT, A-MATH. '
             'Fixed findings F3 (weight once per PATH on diamonds) and F6 (KeyError for satellite adjectives). Known finding K21: hypernyms of another part of speech get no weight (was assumption A-POS).',
        technique='contract-based verification family: z3 obligations over the real probability/IC functions + bounded '
                  'stand-in for compute()/load()',
        engines=['pyvc', 'bounded']),
    'C14': dict(
        category='proof',
        text='Every function of wn/similarity.py is executed symbolically (reals) against the contracts of the taxonomy '
             'methods (uninterpreted dist/conn/LCS/depth with the C13 facts as ground instances) and of the weight table '
             '(C15): value = documented formula, symmetry, bounds, self-similarity maximal (path, wup, lch), wn.Error '
             'exactly for incompatible parts of speech (a = s) / missing common hypernym / max_depth <= 0, no other '
             'exception - for all graphs and all positive weight tables. The same clauses are run as a bounded stand-in '
             'on the real functions over every digraph with <= 3 (quick) / 4 (thorough) nodes.',
        note='A-FLOAT (floats as reals, log strictly increasing), taxonomy contracts = C13, weights contract = C15, A-POS '
             '(hypernyms share the part of speech up to a/s). Fixed findings: K14 (wup took the first of a set-ordered list of lowest '
             'common hypernyms; the list is sorted since F15, and wup:symmetric is discharged over the contract "first '
             'in the fixed order"), K15 -> F28 (res used the least informative one), F6 (KeyError for satellite '
             'adjectives). K22 / K30 (see C13) affect wup/path through inferred lowest common hypernyms and pairs from two lexicons. Fixed finding F32: res() is the maximum over ALL common hypernyms (contract in_common).',
        technique='contract-based deductive verification: symbolic execution of the real functions over uninterpreted graph '
                  'contracts, z3 (reals); bounded stand-in on small digraphs',
        engines=['pyvc', 'bounded']),
    'C17': dict(
        category='proof',
        text='Morphy._morphstr and Morphy.__call__ executed symbolically (z3 strings, branches predicated) for an '
             'arbitrary word form over the REAL rule table (read from the module, so changed data is not a violation) '
             'and an arbitrary lexicon inventory given as uninterpreted lemma/exception predicates under the class '
             'invariant: per rule, soundness and completeness of its application (non-empty stem, output = stem + '
             'replacement, lemma filter when initialized), the form itself and the exception lemmas, nothing else; '
             '__call__ pos handling incl. removal of the original from the per-pos sets. Wordnet level = the '
             '_find_helper contract (C09) for generic lemmatizer proposals.',
        note='Morphy.__init__ (dict-of-sets accumulation) is a bounded stand-in on enumerated small inventories. z3 '
             'sequence theory trusted for endswith/slicing/concatenation. Completeness is claimed for the parts of '
             'speech Morphy handles (n, v, a, s, r). Known finding K23: words of other parts of speech (c, p, x, u) are ignored by an initialized Morphy. Fixed findings F20, F21.',
        technique='contract-based deductive verification: AST-level symbolic execution with z3 strings, per-rule obligations',
        engines=['pyvc', 'bounded']),
    'C18': dict(
        category='proof',
        text='All 18 check functions of wn/validate.py are executed symbolically on an arbitrary lexicon of the loader\'s '
             'normal form (required keys present, every optional key and list arbitrary): (a) no subscript / attribute '
             'access can raise; (b) for a generic identifier k: k is reported <=> k satisfies the documented condition '
             '(sidecar predicate per code; both directions proved in z3; Counter multiplicities as "occurs at two '
             'positions"); validate() report structure, _select_checks, code table, REVERSE_RELATIONS involution; '
             'E204/E401 => add() rejects via the row images (NULL look-up into NOT NULL columns, no OR IGNORE) and the '
             'wn.Error of _insert_sense_relations.',
        note='W403/W404 (tuple-keyed accumulations whose content depends on set iteration order, see C16) are covered for '
             'no-raise only. W501 exactness is claimed for unique synset ids. collections.Counter semantics assumed '
             '(A-PY-COUNTER). Context fields of the items are not compared. Fixed finding F1 (KeyError in W501). W203 is decided by a labelled small-scope enumeration (the repaired code uses dict.fromkeys(generator), which the interpreter does not follow). Fixed findings F25 (W203), F26 (E101). All 18 checks (incl. W403/W404) are compared with an oracle from the documented conditions on random broken lexicons (bounded); fixed finding F30 (W404).',
        technique='contract-based deductive verification: AST-level symbolic execution of the real checks over records '
                  'generated from the lmf TypedDicts, z3',
        engines=['pyvc']),
    'C05': dict(
        category='proof',
        text='Decomposition of the history property into per-operation obligations over the real DDL, SQL and '
             'Python: ownership/cascade closure of wn/schema.sql (decision procedure on the schema as SQLite parses '
             'it), PRAGMA foreign_keys on every pooled connection, remove() deleting the extension closure '
             'deepest-first by rowid inside one transaction, every row stored by add() owned by the lexicon being '
             'added (row images vs sidecar specification, z3), dependency re-linking (UPDATE ... WHERE equivalence), '
             'the skip rule of _precheck, and an inductive z3 lemma that these contracts make the content a function '
             'of the installed set after any finite history.',
        note='Assumed: SQLite enforces declared FKs/ON DELETE actions when the pragma is on (A-SQLITE), A-TXN, '
             'identifiers unique within a document (A-IDS), _batch/_collect_frames by contract (checked bounded in '
             'C01), extension-closure queries (WITH RECURSIVE) by assumed contract. Known finding K13 (tags/'
             'pronunciations attached by an extension to base forms survive its removal).',
        technique='contract-based deductive verification: DDL decision procedure + row-image/effect-log obligations from '
                  'AST-level symbolic execution + z3 invariant lemma',
        engines=['pyvc', 'sqlvc']),
    'C06': dict(
        category='proof',
        text='Ghost transaction state over the effect log of the symbolically executed real add / '
             'add_lexical_resource / _add_lexical_resource / _add_ili / remove (all argument shapes, any number '
             'of lexicons/entries: loops are generic iterations): every write lies inside one `with conn:` block '
             'of one connection, nothing commits inside, every callback into caller code precedes the first '
             'write or is inside the block, no except clause swallows. With A-TXN this is exactly "any exception '
             'at any point rolls everything back" - the quantifier over failure points is eliminated, not sampled.',
        note='Assumed: sqlite3 transaction semantics (A-TXN), statement atomicity (A-SQLITE); file-level functions '
             '(scan_lexicons, lmf.load, iterpackages, _ili.load) are stubbed as read-only (their frame is C07/C20). '
             'Known findings K11 (progress.close() after commit) and K12 (one transaction per package of a '
             'collection) are reported as KNOWN-FINDING.',
        technique='contract-based deductive verification: typestate (ghost transaction) obligations over the effect '
                  'log produced by AST-level symbolic execution of the real functions',
        engines=['pyvc', 'sqlvc']),
    'C20': dict(
        category='proof',
        text='The real expat handlers of lmf._make_parser are executed symbolically for every element name of the '
             'WN-LMF DTDs (and unknown names) x version x first/later occurrence on an arbitrary parent: an element that '
             'does not exist in the declared version or a repeated single-valued child raises LMFError on every path; '
             'list children are appended after the earlier ones; metadata/text/external markers and the stack '
             'discipline are as specified; character data is whitespace-normalised at end(). is_lmf == is_xml and '
             '_read_header accepts; load() reads the header through the same _read_header first; _add_lmf completes '
             'lmf.load before the only writing function starts (inside the transaction of C06). The element tables '
             'equal the DTD inventory (sidecar). Required identifying attributes: for each of 27 (element path, '
             'attribute) pairs the real _validate is executed on an arbitrary parsed lexicon lacking that attribute '
             'everywhere on the path; z3 proves that whenever such an element exists (and is not external, where that '
             'matters) an assertion of the validator fails. What dump() writes is accepted: obligations of C02.',
        note='Only bounded (generated documents x single faults, never counted as proved): ill-formed XML through '
             'expat, header line variants, scan_lexicons == load on valid variants, and the end-to-end rejection '
             'by load() and add() (incl. missing required attributes on 28 element/attribute pairs); add() leaves every table '
             'unchanged after each rejected document. Known finding K6: scan_lexicons is a regular expression and '
             'disagrees with load() on four kinds of valid start tags. Python run with -O would drop the assertions '
             '(unchecked). Known finding K25: add() returns without exception when the regex pre-scan sees nothing to add (two early returns before load()); K6 restriction widened (white space around \'=\', comments, empty values, line breaks).',
        technique='contract-based deductive verification: symbolic execution of the reader handlers per element/'
                  'version/occurrence with decided post-conditions + z3 obligations; bounded single-fault sweep on the '
                  'real functions',
        engines=['pyvc', 'bounded']),
    'C03': dict(
        category='proof',
        text='Every _export_* function of wn/_export.py (metadata, requires, tags, pronunciations, counts, examples, '
             'definitions, sense/synset relations, lexicon-level frames, ILI definition, senses, entries, synsets, '
             'lexicon) is executed symbolically next to its sidecar contract (contracts/spec_export.py) against the same '
             'stubs of the query functions (results are uninterpreted functions of the arguments) and of the other '
             '_export_* functions; for all databases and per LMF version z3 proves that the same queries are made with '
             'the same arguments (the rowid OF THE ELEMENT and its own table for every metadata look-up, the scope) and '
             'that the exported record is equal key by key. export() itself: _precheck, supported version, one '
             '_export_lexicon per lexicon in order, lmf.dump of exactly that resource.',
        note='The chain is closed by other checks, not here: what the queries return for a database produced by add '
             '(C01), what dump/load do to the resource (C02); composing them is a hand argument. The end-to-end '
             'round trip add -> export -> load -> re-add is only run on generated lexicons (3 resources x 4 source x 4 '
             'export versions, compared with the source and through the public API): bounded, not counted. '
             '_export_syntactic_behaviours_1_0 (set iteration) and _precheck are covered by the bounded sweep only. '
             'Known findings K16 (ILIDefinition of an existing ILI), K17 (links of id-less frames in >= 1.1 exports), '
             'K18 (frames without senses); fixed: F7, F8, F12, F13. Known findings K9 (duplicate relation exported once) and K24 (preserved white space) are probes of the bounded sweep.',
        technique='contract-based deductive verification: flow equivalence of each export function with its contract '
                  'under query stubs (AST->VC symbolic execution, z3); bounded native export round trip',
        engines=['pyvc', 'bounded']),
    'C07': dict(
        category='proof',
        text='For all resources and databases (symbolic execution of the real code): (1) frame - the log of stores into '
             'any record of the caller\'s resource during _add_lexical_resource and all _insert_* functions is empty on '
             'every path; (2) skip - every database write happens under `not skipmap[specifier(lexicon)]`; (3) the '
             '_precheck contract - skip <=> a lexicons row with that id and version exists, or the lexicon extends a base '
             'without such a row (SQL look-ups decided on their AST, equivalence by z3 over the SQL model), read-only; '
             '(4) both entry points (_add_lmf for every file route, add_lexical_resource for the in-memory route) '
             'run _precheck over the lexicons of the source, return early iff ALL are skipped and pass the loaded '
             'resource and that skip map to the same _add_lexical_resource.',
        note='Only bounded (labelled, not counted): wn.project.iterpackages (directory / tar / gz / xz dispatch, temp '
             'files, _check_tar) and file-signature sniffing - exercised with real files for xml, gz, xz, package with '
             'extra files, collection, tar/tar.gz/tar.xz of file/package/collection and the in-memory route x 3 LMF '
             'versions: equal table dumps, second add changes nothing, inputs unchanged (hash / deep copy), extension '
             'without base adds nothing, partially installed file. _collect_frames (abstract in (1)) has its frame '
             'condition checked by the exhaustive small-scope stand-in. scan_lexicons == load on (id, version, extends) '
             'is C20 (known finding K6). An extension in the same file as its base is skipped by the first add (base not '
             'installed yet) - as the property states.',
        technique='contract-based deductive verification: effect/frame log of the symbolically executed add code, SQL->FOL '
                  'for _precheck, path-condition obligations for the entry points (z3); bounded route sweep on real files',
        engines=['pyvc', 'sqlvc', 'bounded']),
    'C16': dict(
        category='other',
        text='Two contracts decided on the AST of every function of the wn package (399 functions, re-read on every run): '
             '(order) no value whose order comes from iterating a set reaches a return, yield, index, first-element, output (print / json.dump / write), '
             'join, early-exit or tie-breaking (min/max/sorted with key) sink - a conservative taint analysis with '
             'sorted()/set()/sum()/any()/all()/len()/membership as the only cleansers; (purity) no function stores '
             'into module-level mutable state (also through a local alias) except the connection pool. The sites '
             'reported must be exactly the two reviewed ones listed with their justification in contracts/C16.py. '
             'Entity ordering (__lt__/__eq__) is proved to depend on (type, rowid) only by symbolic execution.',
        note='Static, per function and flow-insensitive: sets are followed through local names, annotations, module '
             'constants and annotated return types, not through un-annotated parameters or attributes (A-ORDER-STATIC) - '
             'so this is a checked coding contract, not a proof of the property. Observable determinism is explored by '
             'the battery (every query/taxonomy/similarity/IC/validate/dump/export call on a generated database) in '
             'subprocesses with 4 (quick) / 16 (thorough) PYTHONHASHSEED values, twice per process with other read-only '
             'calls in between, and against fresh-process runs of configuration-dependent calls: bounded. Fixed while '
             'building: F14-F18.',
        technique='contract checking by static effect/taint analysis of the real AST (order-insensitivity and purity '
                  'contracts) + symbolic execution of the entity comparison methods; bounded hash-seed replay battery',
        engines=['ordercheck', 'pyvc', 'bounded']),
}

# property -> reason (every property that is not claimed)
NOT_APPLICABLE: dict = {}

ENGINES = [
    {"name": "pyvc", "path": "vc/pyvc", "kind_free_text":
        "symbolic interpreter / VC generator over the Python ast of the real functions in /repo "
        "(re-read on every run); obligations discharged by z3 5.1, cvc5 for unknowns"},
    {"name": "sqlvc", "path": "vc/sqlvc", "kind_free_text":
        "translator of the real SQL text (extracted by pyvc from the real query/insert functions) and "
        "wn/schema.sql into first-order formulas over table relations; z3"},
    {"name": "bounded", "path": "bounded", "kind_free_text":
        "bounded stand-ins (small-scope exhaustive enumeration on the real functions); labelled "
        "bounded, never counted as discharged"},
]


def build() -> dict:
    props = [json.loads(l)['id'] for l in open(ROOT / 'properties.jsonl')]
    checks = []
    for pid in props:
        if pid not in CLAIMS:
            continue
        c = CLAIMS[pid]
        checks.append({
            "property_id": pid,
            "quick_cmd": f"./check {pid} quick",
            "thorough_cmd": f"./check {pid} thorough",
            "evidence_file": f"evidence/{pid}.json",
            "replay_cmd_template": "./check replay {path}",
            "engine": c.get('engine', 'pyvc'),
            "level_claimed": {"category": c['category'], "text": c['text'],
                              "design_ref": c.get('design_ref', f'DESIGN.md §5 {pid}')},
            "level_note": c['note'],
            "technique": c['technique'],
        })
    na = [{"property_id": pid, "reason": NOT_APPLICABLE.get(
        pid, "check not built yet in this session; see DESIGN.md §5 for the planned obligations")}
        for pid in props if pid not in CLAIMS]
    for e in ENGINES:
        e['serves_properties'] = [pid for pid in props if pid in CLAIMS
                                  and e['name'] in CLAIMS[pid].get('engines', ['pyvc'])]
    return {
        "version": 1,
        "setup_cmd": "./setup.sh",
        "hooks": {
            "guard": "GOODMAMI_WN_VERIF",
            "enable": "none - contracts are sidecar files under /verif/contracts keyed by module.function; "
                      "no source hook exists in /repo, the guard name is reserved and unused",
            "baseline_off_cmd": BASELINE_CMD,
            "source_commits": [],
            "add_only": True,
        },
        "engines": ENGINES,
        "checks": checks,
        "notes": "Exit codes of every check: 0 held (possibly with KNOWN-FINDING lines), 1 VIOLATION, "
                 "2 undecided (solver unknown), 3 engine error (unsupported construct / self-check). "
                 "2 and 3 never print a VIOLATION line.",
        "not_applicable": na,
    }


if __name__ == '__main__':
    (ROOT / 'MANIFEST.json').write_text(json.dumps(build(), indent=1) + '\n')
    import jsonschema
    jsonschema.validate(json.loads((ROOT / 'MANIFEST.json').read_text()),
                        json.loads(open('/root/.vp/MANIFEST.schema.json').read()))
    print('MANIFEST.json written and valid:', len(build()['checks']), 'checks')
