"""Core: obligations, discharge (z3, cvc5 fallback), session bookkeeping, evidence, replay files.

Verdicts:  discharged | refuted | unknown | unsupported | error
Exit code: 0 held / 1 violation / 2 undecided / 3 engine error
"""
from __future__ import annotations

import json
import os
import subprocess
import sys
import time
import traceback
from dataclasses import dataclass, field
from pathlib import Path
from typing import Any, Callable, Optional

import z3

ROOT = Path(__file__).resolve().parent.parent
REPO = Path(os.environ.get('VERIF_REPO', '/repo'))
REPLAYS = ROOT / 'replays'
EVIDENCE = ROOT / 'evidence'
KNOWN_FINDINGS_FILE = ROOT / 'known_findings.json'


class Unsupported(Exception):
    """The engine cannot express this construct: obligation is *undecided*, never a violation."""


class EngineError(Exception):
    """Self-check of the engine failed (translator mismatch, firing assumed contract...)."""


@dataclass
class Obligation:
    name: str                      # module.function:clause[:path]
    prop: str
    kind: str                      # safety|post|frame|inv_init|inv_step|inv_exit|lemma|sql|effect|static
    assumptions: list = field(default_factory=list)   # z3 BoolRefs
    goal: Any = None               # z3 BoolRef  (None for decided-by-procedure obligations)
    decided: Optional[bool] = None  # for static/decision-procedure obligations: True=holds False=fails
    detail: str = ''
    functions: tuple = ()          # functions under contract this obligation is generated from
    assumptions_used: tuple = ()   # A-ids
    replay: Optional[Callable] = None   # replay(model_dict) -> dict(reproduced=bool, ...)
    model_vars: list = field(default_factory=list)    # z3 consts whose model values are reported
    finding: Optional[str] = None  # id of known finding this (unrestricted) obligation is expected to hit
    expect_refuted: bool = False   # canary: must be refuted
    timeout_ms: int = 20000
    source: str = ''               # file:line span of the real code
    restricted: Optional[list] = None    # extra assumptions = the formal restriction of the known finding
    vacuity: bool = True           # check that the assumptions are satisfiable (skipped for obligations that share
                                   # their assumptions with an obligation that is checked)
    realizability: list = field(default_factory=list)   # true facts (UNIQUE constraints...) only added when
                                                        # the core query is satisfiable, to exclude models
                                                        # that no real database realises


@dataclass
class Result:
    ob: Obligation
    verdict: str
    backend: str = ''
    ms: float = 0.0
    model: dict = field(default_factory=dict)
    solver_output: str = ''
    vacuous: Optional[bool] = None
    z3model: Any = None


def _model_to_dict(m: z3.ModelRef, consts) -> dict:
    out = {}
    if consts:
        for c in consts:
            try:
                out[str(c)] = str(m.eval(c, model_completion=True))
            except Exception:   # pragma: no cover
                pass
    else:
        for d in m.decls()[:60]:
            out[d.name()] = str(m[d])[:400]
    return out


def cvc5_check(smt2: str, timeout_ms: int) -> str:
    """Second back end: /usr/bin/cvc5 on SMT-LIB text. Returns 'unsat' | 'sat' | 'unknown'."""
    exe = '/usr/bin/cvc5'
    if not os.path.exists(exe):
        return 'unknown'
    try:
        p = subprocess.run(
            [exe, '--lang=smt2', '--strings-exp', f'--tlimit={timeout_ms}', '-'],
            input='(set-logic ALL)\n' + smt2 + '\n(check-sat)\n', capture_output=True, text=True,
            timeout=timeout_ms / 1000 + 5)
    except Exception:
        return 'unknown'
    out = p.stdout.strip().splitlines()
    for line in out:
        if line.strip() in ('unsat', 'sat', 'unknown'):
            return line.strip()
    return 'unknown'


AXIOM_HOOKS: list = []      # callables(set of uninterpreted function names in the obligation) -> [axioms]


def _decl_names(formulas) -> set:
    names, seen = set(), set()
    stack = [f for f in formulas if z3.is_expr(f)]
    while stack:
        x = stack.pop()
        if x.get_id() in seen:
            continue
        seen.add(x.get_id())
        if z3.is_quantifier(x):
            stack.append(x.body())
        elif z3.is_app(x):
            if x.decl().kind() == z3.Z3_OP_UNINTERPRETED:
                names.add(x.decl().name())
            stack.extend(x.children())
    return names


def relevant_axioms(ob: Obligation) -> list:
    if not AXIOM_HOOKS:
        return []
    names = _decl_names(list(ob.assumptions) + [ob.goal] + list(ob.restricted or []))
    out = []
    for _ in range(3):       # axioms may mention further axiomatised functions
        new = []
        for h in AXIOM_HOOKS:
            new.extend(a for a in h(names) if not any(a.eq(b) for b in out))
        if not new:
            break
        out.extend(new)
        names |= _decl_names(new)
    return out


def discharge(ob: Obligation, use_cvc5: bool = True, check_vacuity: bool = True) -> Result:
    t0 = time.time()
    if ob.goal is None:
        if ob.decided is None:
            return Result(ob, 'error', 'static', 0.0, solver_output='no goal and not decided')
        return Result(ob, 'discharged' if ob.decided else 'refuted', 'decision-procedure',
                      (time.time() - t0) * 1000, solver_output=ob.detail)
    s = z3.Solver()
    s.set('timeout', ob.timeout_ms)
    for a in ob.assumptions:
        s.add(a)
    for a in relevant_axioms(ob):
        s.add(a)
    vac = None
    if check_vacuity and ob.vacuity:
        sv = z3.Solver()
        sv.set('timeout', 1500)
        for a in ob.assumptions:
            sv.add(a)
        vac = (sv.check() == z3.unsat)
    s.add(z3.Not(ob.goal))
    # portfolio of restarts: quantifier instantiation order makes identical queries take 30 ms or time out; short
    # attempts with different seeds come first, the full budget last (verdicts sat/unsat are final whichever attempt)
    r = z3.unknown
    if ob.timeout_ms > 4000:
        for seed in (0, 7, 23):
            s.set('timeout', 2500)
            s.set('random_seed', seed)
            try:
                s.set('smt.random_seed', seed)
            except z3.Z3Exception:
                pass
            r = s.check()
            if r != z3.unknown:
                break
        s.set('timeout', ob.timeout_ms)
        s.set('random_seed', 0)
    if r == z3.unknown:
        r = s.check()
    if r == z3.unknown and ob.timeout_ms > 4000:
        # last resort against a loaded machine (timeouts are wall-clock): a fresh solver, other seeds, three times the
        # budget - a verdict of sat/unsat is final whenever it is reached, `unknown` stays undecided (exit 2)
        s2 = z3.Solver()
        s2.add(*s.assertions())
        # (the seeds of the short attempts again - one of them usually decides the query in seconds of CPU time, which
        # a loaded machine does not grant within the short wall-clock budget - then two more)
        for seed in (23, 7, 101, 5):
            s2.set('timeout', 3 * ob.timeout_ms)
            s2.set('random_seed', seed)
            r = s2.check()
            if r != z3.unknown:
                s = s2
                break
    ms = (time.time() - t0) * 1000
    if r == z3.unsat:
        return Result(ob, 'discharged', 'z3', ms, vacuous=vac)
    if ob.realizability and r != z3.unsat:
        for a in ob.realizability:
            s.add(a)
        r = s.check()
        ms = (time.time() - t0) * 1000
        if r == z3.unsat:
            return Result(ob, 'discharged', 'z3', ms, vacuous=vac)
    if r == z3.sat:
        m = s.model()
        return Result(ob, 'refuted', 'z3', ms, model=_model_to_dict(m, ob.model_vars),
                      solver_output='sat', vacuous=vac, z3model=m)
    reason = s.reason_unknown()
    if use_cvc5:
        try:
            smt2 = s.to_smt2().replace('(check-sat)', '')
            c = cvc5_check(smt2, ob.timeout_ms)
        except Exception:   # pragma: no cover
            c = 'unknown'
        ms = (time.time() - t0) * 1000
        if c == 'unsat':
            return Result(ob, 'discharged', 'cvc5', ms, vacuous=vac)
        if c == 'sat':
            return Result(ob, 'refuted', 'cvc5', ms, solver_output='sat (cvc5; no model extracted)',
                          vacuous=vac)
    return Result(ob, 'unknown', 'z3', ms, solver_output=f'unknown: {reason}', vacuous=vac)


def remote_result(ob: Obligation) -> dict:
    """Discharge `ob` (and, when it is refuted and carries a known finding's restriction, the restricted
    obligation) and return a picklable summary for Session.record_remote."""
    res = discharge(ob)
    d = {'name': ob.name, 'prop': ob.prop, 'kind': ob.kind, 'detail': ob.detail, 'functions': list(ob.functions),
         'assumptions_used': list(ob.assumptions_used), 'source': ob.source, 'verdict': res.verdict,
         'backend': res.backend, 'ms': res.ms, 'solver_output': res.solver_output, 'model': res.model,
         'vacuous': res.vacuous, 'finding': ob.finding, 'restricted_verdict': None}
    if res.verdict == 'refuted' and ob.replay is not None:
        try:
            d['replay'] = ob.replay(res) or {}
        except Exception as exc:   # replay harness failure is not a counterexample
            d['replay'] = {'reproduced': False, 'replay_error': f'{type(exc).__name__}: {exc}'}
    if res.verdict == 'refuted' and ob.finding and ob.restricted is not None:
        r2 = discharge(Obligation(ob.name + ':restricted', ob.prop, ob.kind,
                                  list(ob.assumptions) + list(ob.restricted), ob.goal, timeout_ms=ob.timeout_ms,
                                  realizability=ob.realizability, vacuity=False))
        d['restricted_verdict'] = r2.verdict if r2.verdict in ('discharged', 'refuted') else r2.solver_output
        d['restricted_ms'] = r2.ms
    return d


# ---------------------------------------------------------------------------------------------
# known findings

def load_known_findings() -> list[dict]:
    if KNOWN_FINDINGS_FILE.exists():
        return json.loads(KNOWN_FINDINGS_FILE.read_text())
    return []


def repo_tree_id() -> str:
    try:
        head = subprocess.run(['git', '-C', str(REPO), 'rev-parse', '--short', 'HEAD'],
                              capture_output=True, text=True).stdout.strip()
        dirty = subprocess.run(['git', '-C', str(REPO), 'status', '--porcelain'],
                               capture_output=True, text=True).stdout.strip()
        return head + ('+dirty' if dirty else '')
    except Exception:   # pragma: no cover
        return 'unknown'


# ---------------------------------------------------------------------------------------------
# session

class Session:
    """Collects obligations/results/bounded runs for one property check and writes evidence."""

    def __init__(self, prop: str, tier: str, seed: int):
        self.prop = prop
        self.tier = tier
        self.seed = seed
        self.t0 = time.time()
        self.results: list[Result] = []
        self.bounded: list[dict] = []
        self.violations: list[dict] = []
        self.known_hits: list[str] = []
        self.known_obligations: list[str] = []
        self.restricted_discharged = 0
        self.undecided: list[str] = []
        self.errors: list[str] = []
        self.functions: set[str] = set()
        self.assumptions: set[str] = set()
        self.trusted: set[str] = set()
        self.notes: list[str] = []
        self.canaries = 0
        self.canaries_refuted = 0
        self.solver_ms = 0.0
        self.findings = {f['id']: f for f in load_known_findings()}
        self.level = 'proof'
        self.explanation = ''
        self.extra: dict = {}

    # -- bookkeeping ------------------------------------------------------------------------
    def assume(self, *ids: str):
        self.assumptions.update(ids)

    def trust(self, *items: str):
        self.trusted.update(items)

    def note(self, text: str):
        self.notes.append(text)

    def under_contract(self, *fns: str):
        self.functions.update(fns)

    # -- obligations ------------------------------------------------------------------------
    def check(self, ob: Obligation) -> Result:
        self.functions.update(ob.functions)
        self.assumptions.update(ob.assumptions_used)
        try:
            res = discharge(ob)
        except z3.Z3Exception as exc:
            res = Result(ob, 'error', 'z3', 0.0, solver_output=f'z3 exception: {exc}')
        self.solver_ms += res.ms
        self._account(res)
        return res

    def record(self, res: Result) -> Result:
        """Account for an obligation that was discharged by the caller (vc.core.discharge)."""
        self.functions.update(res.ob.functions)
        self.assumptions.update(res.ob.assumptions_used)
        self.solver_ms += res.ms
        self._account(res)
        return res

    def record_remote(self, d: dict) -> Result:
        """Account for an obligation discharged in a worker process (z3 terms do not cross processes):
        d = remote_result(...) of that obligation."""
        ob = Obligation(d['name'], d['prop'], d['kind'], detail=d['detail'], functions=tuple(d['functions']),
                        assumptions_used=tuple(d['assumptions_used']), source=d['source'],
                        replay=(lambda res, rep=d.get('replay'): rep) if d.get('replay') is not None else None)
        res = Result(ob, d['verdict'], d['backend'], d['ms'], model=d['model'], solver_output=d['solver_output'],
                     vacuous=d['vacuous'])
        self.functions.update(ob.functions)
        self.assumptions.update(ob.assumptions_used)
        self.solver_ms += d['ms'] + d.get('restricted_ms', 0.0)
        fid = d.get('finding')
        if res.verdict == 'refuted' and fid and fid in self.findings and self.findings[fid].get('status') == 'open':
            rv = d.get('restricted_verdict')
            if rv in (None, 'discharged'):
                if rv == 'discharged':
                    self.restricted_discharged += 1
                if fid not in self.known_hits:
                    self.known_hits.append(fid)
                    print(self._finding_line(fid))
                self.known_obligations.append(ob.name)
                return res
            if rv != 'refuted':
                self.undecided.append(f'{ob.name}:restricted: {rv}')
                return res
        self._account(res)
        return res

    def _finding_line(self, fid: str) -> str:
        """The recorded KNOWN-FINDING line, naming the property this run checks (a finding may affect several)."""
        import re
        return re.sub(r'property=C\d\d', f'property={self.prop}', self.findings[fid]['line'], count=1)

    def unsupported(self, name: str, reason: str, kind: str = 'post'):
        ob = Obligation(name, self.prop, kind)
        res = Result(ob, 'unsupported', 'engine', 0.0, solver_output=reason)
        self._account(res)
        return res

    def _account(self, res: Result):
        ob = res.ob
        if ob.expect_refuted:
            self.canaries += 1
            if res.verdict == 'refuted':
                self.canaries_refuted += 1
            else:
                self.errors.append(f'canary {ob.name} was not refuted ({res.verdict}): '
                                   'the engine would miss this class of change')
            return
        self.results.append(res)
        if res.verdict == 'discharged':
            if res.vacuous:
                self.errors.append(f'vacuous obligation (contradictory assumptions): {ob.name}')
            return
        if res.verdict == 'refuted':
            self._violation(res)
        elif res.verdict == 'unknown':
            self.undecided.append(f'{ob.name}: {res.solver_output}')
        elif res.verdict == 'unsupported':
            self.undecided.append(f'{ob.name}: unsupported: {res.solver_output}')
            self.errors.append(f'unsupported construct in {ob.name}: {res.solver_output}')
        else:
            self.errors.append(f'{ob.name}: {res.solver_output}')

    def _violation(self, res: Result):
        ob = res.ob
        fid = ob.finding
        known = bool(fid and fid in self.findings and self.findings[fid].get('status') == 'open')
        if known:
            f = self.findings[fid]
            # the recorded finding: expected failure of the *unrestricted* obligation; the restricted one
            # (finding's restriction conjoined) must be discharged, otherwise this is a new violation
            if ob.restricted is not None:
                r2 = discharge(Obligation(ob.name + ':restricted', ob.prop, ob.kind,
                                          list(ob.assumptions) + list(ob.restricted), ob.goal,
                                          timeout_ms=ob.timeout_ms, realizability=ob.realizability))
                self.solver_ms += r2.ms
                if r2.verdict == 'discharged':
                    self.restricted_discharged += 1
                elif r2.verdict == 'refuted':
                    known = False      # fails even under the finding's restriction: a different violation
                else:
                    self.undecided.append(f'{ob.name}:restricted: {r2.solver_output}')
        if known:
            if fid not in self.known_hits:
                self.known_hits.append(fid)
                print(self._finding_line(fid))
            self.known_obligations.append(ob.name)
            self.results.pop()           # not counted as an obligation of the proof
            return
        rep = {}
        if ob.replay is not None:
            try:
                rep = ob.replay(res) or {}
            except Exception as exc:   # replay harness failure is not a counterexample
                rep = {'reproduced': False, 'replay_error': ''.join(
                    traceback.format_exception_only(type(exc), exc)).strip()}
        reproduced = bool(rep.get('reproduced'))
        REPLAYS.mkdir(exist_ok=True)
        path = REPLAYS / f"{self.prop}-{_slug(ob.name)}.json"
        payload = {
            'property': self.prop, 'obligation': ob.name, 'kind': ob.kind,
            'tree': repo_tree_id(), 'verdict': 'refuted', 'solver': res.backend,
            'solver_output': res.solver_output, 'model': res.model, 'detail': ob.detail,
            'source': ob.source, 'reproduced': reproduced, **rep,
        }
        path.write_text(json.dumps(payload, indent=1, default=str))
        self.violations.append({'obligation': ob.name, 'replay': str(path.relative_to(ROOT)),
                                'reproduced': reproduced})
        tail = '' if reproduced else ' no-failing-input-found'
        print(f'VIOLATION property={self.prop} replay={path.relative_to(ROOT)}{tail}')
        print(f'  obligation {ob.name} failed: {ob.detail or res.solver_output}'[:600])

    def violation_direct(self, name: str, detail: str, payload: dict, reproduced: bool,
                         finding: Optional[str] = None, functions: tuple = ()):
        """A failed obligation decided outside z3 (bounded stand-in, static procedure) with its witness."""
        self.functions.update(functions)
        if finding and finding in self.findings and self.findings[finding].get('status') == 'open':
            if finding not in self.known_hits:
                self.known_hits.append(finding)
                print(self._finding_line(finding))
            return
        REPLAYS.mkdir(exist_ok=True)
        path = REPLAYS / f"{self.prop}-{_slug(name)}.json"
        path.write_text(json.dumps({
            'property': self.prop, 'obligation': name, 'tree': repo_tree_id(), 'detail': detail,
            'reproduced': reproduced, **payload}, indent=1, default=str))
        self.violations.append({'obligation': name, 'replay': str(path.relative_to(ROOT)),
                                'reproduced': reproduced})
        tail = '' if reproduced else ' no-failing-input-found'
        print(f'VIOLATION property={self.prop} replay={path.relative_to(ROOT)}{tail}')
        print(f'  obligation {name} failed: {detail}'[:600])

    def add_bounded(self, function: str, bound: str, cases: int, tool: str, ok: bool = True,
                    note: str = ''):
        self.bounded.append({'function': function, 'bound': bound, 'cases': cases, 'tool': tool,
                             'held': ok, 'note': note})

    # -- finish -----------------------------------------------------------------------------
    def finish(self) -> int:
        # open findings that were expected but did not show up any more: fine (maybe fixed) - say so
        obligations = len(self.results)
        discharged = sum(1 for r in self.results if r.verdict == 'discharged')
        if obligations == 0 and not self.bounded:
            self.errors.append('zero obligations generated')
        distinct = len({r.ob.name for r in self.results})
        samples = []
        for r in self.results[:400]:
            samples.append({'obligation': r.ob.name, 'kind': r.ob.kind, 'verdict': r.verdict,
                            'backend': r.backend, 'ms': round(r.ms, 1),
                            **({'source': r.ob.source} if r.ob.source else {})})
        cov = {
            'obligations': obligations,
            'discharged': discharged,
            'checker_cmd': f'./check {self.prop} {self.tier}',
            'trusted_base': sorted(self.trusted),
            'functions_under_contract': sorted(self.functions),
            'functions_symbolically_executed': _interpreted(),
            'solver_time_s': round(self.solver_ms / 1000, 3),
            'backends': sorted({r.backend for r in self.results}),
            'samples': samples,
            'bounded': self.bounded,
            'bounded_note': 'bounded stand-ins are never counted in obligations/discharged',
            'known_findings': self.known_hits,
            'known_finding_obligations': self.known_obligations[:200],
            'known_finding_restricted_discharged': self.restricted_discharged,
            'undecided': self.undecided,
            'canaries': self.canaries,
            'canaries_refuted': self.canaries_refuted,
            'evaluations': obligations + sum(b['cases'] for b in self.bounded),
            'distinct_nontrivial': distinct,
            'rule': 'one evaluation per named obligation sent to a solver or decision procedure '
                    '(+ bounded cases); distinct = distinct obligation names; canaries excluded',
            'explanation': self.explanation or
                           'contract-based deductive verification: obligations generated from the '
                           'current /repo source (Python AST + SQL text + schema.sql), discharged by z3',
            'notes': self.notes,
            'repo_tree': repo_tree_id(),
            **self.extra,
        }
        ev = {
            'property_id': self.prop, 'tier': self.tier, 'seed': self.seed, 'level': self.level,
            'coverage': cov, 'assumptions': sorted(self.assumptions),
            'wall_s': round(time.time() - self.t0, 2), 'violations': len(self.violations),
        }
        EVIDENCE.mkdir(exist_ok=True)
        (EVIDENCE / f'{self.prop}.json').write_text(json.dumps(ev, indent=1, default=str))
        for e in self.errors:
            print(f'ENGINE-ERROR: {e}')
        for u in self.undecided:
            print(f'UNDECIDED obligation={u}'[:400])
        print(f'{self.prop} {self.tier}: obligations={obligations} discharged={discharged} '
              f'bounded={len(self.bounded)} known={len(self.known_hits)} '
              f'violations={len(self.violations)} undecided={len(self.undecided)} '
              f'errors={len(self.errors)} wall={ev["wall_s"]}s')
        if self.violations:
            return 1
        if self.errors:
            return 3
        if self.undecided:
            return 2
        return 0


def _interpreted() -> list:
    """Real wn functions whose bodies the symbolic interpreter executed in this process (callees are executed inline,
    not abstracted by a contract, unless a contract or stub is registered for them); worker processes not included."""
    try:
        from vc.pyvc import interp
        return sorted(interp.INTERPRETED)
    except Exception:
        return []


def _slug(s: str) -> str:
    return ''.join(ch if ch.isalnum() or ch in '._-' else '_' for ch in s)[:150]
